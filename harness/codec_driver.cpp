// Recorder for C11 / C12 / C15: drives the REAL unodb::key_encoder and
// unodb::key_decoder and writes what they did as ndjson batches for
// spec/CodecTrace.tla.  It never judges: no expected value is computed here.
// (The only exception is --sweep32, a C++ monitor of the successor /
// round-trip predicate of spec/KeyCodec.tla over all 2^32 values of a 32-bit
// type; it logs an ordinary event pair for every would-be violation, which
// TLC then judges, and is labelled as a monitor in the evidence.)
//
// Value representation in the trace (TLC integers are 32 bit):
//   integers   base-256 digits of the value mod 2^W, most significant first,
//              obtained by shifting the VALUE (no memory / byte-order access)
//   float      [sign, exponent, mantissa]            (IEEE-754 binary32 fields)
//   double     [sign, exponent, mant_hi26, mant_lo26] (IEEE-754 binary64 fields)
//   text       the bytes handed to encode_text
//
// usage: codec_driver --out DIR [--seed S] [--tier quick|thorough]
//                     [--items-per-file N] [--izp]
//        codec_driver --sweep32 u32|i32|f32 --out DIR [--threads N]
#include "global.hpp"

#include <algorithm>
#include <atomic>
#include <bit>
#include <csetjmp>
#include <csignal>
#include <cstdint>
#include <cstdio>
#include <cstdlib>
#include <cstring>
#include <limits>
#include <map>
#include <memory>
#include <string>
#include <thread>
#include <vector>

#include <sys/mman.h>
#include <unistd.h>

#include "art_common.hpp"
#include "common.hpp"
#ifndef NDEBUG
#include "test_heap.hpp"
#endif

using vh::Bytes;
using vh::Rng;
using IL = std::initializer_list<std::uint64_t>;

static_assert(std::numeric_limits<float>::is_iec559 && sizeof(float) == 4);
static_assert(std::numeric_limits<double>::is_iec559 && sizeof(double) == 8);

// ------------------------------------------------------------------ types and values
enum Ty { U8, I8, U16, I16, U32, I32, U64, I64, F32, F64, TEXT };
static const char* const kTyName[] = {"u8", "i8", "u16", "i16", "u32", "i32", "u64", "i64", "f32", "f64", "text"};
static int ty_bytes(Ty t) {
  switch (t) {
    case U8: case I8: return 1;
    case U16: case I16: return 2;
    case U32: case I32: case F32: return 4;
    case U64: case I64: case F64: return 8;
    default: return 0;
  }
}
static bool ty_signed(Ty t) { return t == I8 || t == I16 || t == I32 || t == I64; }
static bool ty_float(Ty t) { return t == F32 || t == F64; }
static std::uint64_t ty_mask(Ty t) {
  const int n = ty_bytes(t);
  return n == 8 ? ~0ULL : ((1ULL << (8 * n)) - 1);
}

// bits: integers - the value mod 2^W; floats - the IEEE bit pattern
struct Val {
  Ty ty = U8;
  std::uint64_t bits = 0;
  Bytes text;
};
using Key = std::vector<Val>;
using Schema = std::vector<Ty>;

static Val mk(Ty t, std::uint64_t bits) {
  Val v;
  v.ty = t;
  v.bits = bits & ty_mask(t);
  return v;
}
static Val mk_text(Bytes b) {
  Val v;
  v.ty = TEXT;
  v.text = std::move(b);
  return v;
}

static std::int64_t as_signed(const Val& v) {
  const int n = ty_bytes(v.ty);
  if (n == 8) return static_cast<std::int64_t>(v.bits);
  const std::uint64_t sign = 1ULL << (8 * n - 1);
  return static_cast<std::int64_t>((v.bits ^ sign)) - static_cast<std::int64_t>(sign);
}
static float as_float(const Val& v) { return std::bit_cast<float>(static_cast<std::uint32_t>(v.bits)); }
static double as_double(const Val& v) { return std::bit_cast<double>(v.bits); }

// JSON representation of a value
static void repr(std::string& o, const Val& v) {
  o += '[';
  if (v.ty == TEXT) {
    for (std::size_t i = 0; i < v.text.size(); ++i) {
      if (i) o += ',';
      o += std::to_string(static_cast<unsigned>(v.text[i]));
    }
  } else if (v.ty == F32) {
    const auto u = static_cast<std::uint32_t>(v.bits);
    o += std::to_string(u >> 31) + "," + std::to_string((u >> 23) & 0xFF) + "," + std::to_string(u & 0x7FFFFF);
  } else if (v.ty == F64) {
    const auto u = v.bits;
    o += std::to_string(u >> 63) + "," + std::to_string((u >> 52) & 0x7FF) + "," +
         std::to_string((u >> 26) & 0x3FFFFFF) + "," + std::to_string(u & 0x3FFFFFF);
  } else {
    const int n = ty_bytes(v.ty);
    for (int i = 0; i < n; ++i) {
      if (i) o += ',';
      o += std::to_string(static_cast<unsigned>((v.bits >> (8 * (n - 1 - i))) & 0xFF));
    }
  }
  o += ']';
}
static void repr_bytes(std::string& o, const Bytes& b) {
  o += '[';
  for (std::size_t i = 0; i < b.size(); ++i) {
    if (i) o += ',';
    o += std::to_string(static_cast<unsigned>(b[i]));
  }
  o += ']';
}

// ------------------------------------------------------------------ crash / guard-page handling
static const char* volatile g_op = "none";
static sigjmp_buf g_jmp;
static volatile sig_atomic_t g_guard_armed = 0;
static std::uint8_t* g_guard_lo = nullptr;  // first byte of the PROT_NONE page
static std::uint8_t* g_guard_hi = nullptr;
static FILE* g_cur_file = nullptr;

static void on_signal(int sig, siginfo_t* si, void*) {
  if (sig == SIGSEGV && g_guard_armed != 0) {
    auto* a = static_cast<std::uint8_t*>(si->si_addr);
    if (a >= g_guard_lo && a < g_guard_hi) {
      g_guard_armed = 0;
      siglongjmp(g_jmp, 1);
    }
  }
  char buf[96];
  const int n = std::snprintf(buf, sizeof buf, "CRASH sig=%d op=%s\n", sig, g_op);
  if (n > 0) (void)!write(2, buf, static_cast<std::size_t>(n));
  _exit(70);
}

// Arena whose last page is PROT_NONE: a text is placed so that the byte after
// its first min(len, maxlen) bytes is the first byte of the guard page.
struct GuardArena {
  std::uint8_t* base = nullptr;
  std::size_t usable = 0;
  GuardArena() {
    const std::size_t page = static_cast<std::size_t>(sysconf(_SC_PAGESIZE));
    usable = ((static_cast<std::size_t>(unodb::key_encoder::maxlen) + page) / page) * page;
    void* p = mmap(nullptr, usable + page, PROT_READ | PROT_WRITE, MAP_PRIVATE | MAP_ANONYMOUS, -1, 0);
    if (p == MAP_FAILED) {
      std::perror("mmap");
      std::exit(3);
    }
    base = static_cast<std::uint8_t*>(p);
    if (mprotect(base + usable, page, PROT_NONE) != 0) {
      std::perror("mprotect");
      std::exit(3);
    }
    g_guard_lo = base + usable;
    g_guard_hi = g_guard_lo + page;
  }
  // returns the span to hand to encode_text: size is the full text length,
  // only the first min(len, maxlen) bytes are backed by readable memory
  std::span<const std::byte> place(const Bytes& t) {
    const std::size_t keep = std::min<std::size_t>(t.size(), unodb::key_encoder::maxlen);
    std::uint8_t* at = base + usable - keep;
    if (keep) std::memcpy(at, t.data(), keep);
    return {reinterpret_cast<const std::byte*>(at), t.size()};
  }
};
static GuardArena* g_arena = nullptr;

// ------------------------------------------------------------------ driving the real code
struct Encoded {
  Bytes enc;
  std::vector<long> ends;
  long sz = 0;
  bool fault = false;
};

// append one component with the REAL encoder
static bool encode_comp(unodb::key_encoder& e, const Val& v) {
  switch (v.ty) {
    case U8: e.encode(static_cast<std::uint8_t>(v.bits)); break;
    case I8: e.encode(static_cast<std::int8_t>(as_signed(v))); break;
    case U16: e.encode(static_cast<std::uint16_t>(v.bits)); break;
    case I16: e.encode(static_cast<std::int16_t>(as_signed(v))); break;
    case U32: e.encode(static_cast<std::uint32_t>(v.bits)); break;
    case I32: e.encode(static_cast<std::int32_t>(as_signed(v))); break;
    case U64: e.encode(static_cast<std::uint64_t>(v.bits)); break;
    case I64: e.encode(static_cast<std::int64_t>(as_signed(v))); break;
    case F32: e.encode(as_float(v)); break;
    case F64: e.encode(as_double(v)); break;
    case TEXT: {
      const auto sp = g_arena->place(v.text);
      g_op = "text";
      if (sigsetjmp(g_jmp, 1) != 0) {
        g_op = "none";
        return false;  // the encoder touched the guard page
      }
      g_guard_armed = 1;
      e.encode_text(sp);
      g_guard_armed = 0;
      break;
    }
  }
  return true;
}

static Encoded encode_key(unodb::key_encoder& e, const Key& k) {
  Encoded r;
  g_op = "enc";
  for (const auto& v : k) {
    if (!encode_comp(e, v)) {
      r.fault = true;
      return r;
    }
    g_op = "enc";
    r.ends.push_back(static_cast<long>(e.size_bytes()));
  }
  r.sz = static_cast<long>(e.size_bytes());
  r.enc = vh::span_to_bytes(e.get_key_view());
  g_op = "none";
  return r;
}

// decode the leading fixed-size components with the REAL decoder
static std::vector<Val> decode_key(const Bytes& enc, const Schema& s) {
  std::vector<Val> out;
  g_op = "dec";
  unodb::key_decoder d(unodb::key_view(reinterpret_cast<const std::byte*>(enc.data()), enc.size()));
  for (Ty t : s) {
    if (t == TEXT) break;
    switch (t) {
      case U8: { std::uint8_t x; d.decode(x); out.push_back(mk(t, x)); break; }
      case I8: { std::int8_t x; d.decode(x); out.push_back(mk(t, static_cast<std::uint64_t>(static_cast<std::int64_t>(x)))); break; }
      case U16: { std::uint16_t x; d.decode(x); out.push_back(mk(t, x)); break; }
      case I16: { std::int16_t x; d.decode(x); out.push_back(mk(t, static_cast<std::uint64_t>(static_cast<std::int64_t>(x)))); break; }
      case U32: { std::uint32_t x; d.decode(x); out.push_back(mk(t, x)); break; }
      case I32: { std::int32_t x; d.decode(x); out.push_back(mk(t, static_cast<std::uint64_t>(static_cast<std::int64_t>(x)))); break; }
      case U64: { std::uint64_t x; d.decode(x); out.push_back(mk(t, x)); break; }
      case I64: { std::int64_t x; d.decode(x); out.push_back(mk(t, static_cast<std::uint64_t>(x))); break; }
      case F32: { float x; d.decode(x); out.push_back(mk(t, std::bit_cast<std::uint32_t>(x))); break; }
      case F64: { double x; d.decode(x); out.push_back(mk(t, std::bit_cast<std::uint64_t>(x))); break; }
      default: break;
    }
  }
  g_op = "none";
  return out;
}

// ------------------------------------------------------------------ presentation order (sorting only)
static Bytes text_norm(const Bytes& t) {
  std::size_t n = std::min<std::size_t>(t.size(), unodb::key_encoder::maxlen);
  while (n > 0 && t[n - 1] == 0) --n;
  return Bytes(t.begin(), t.begin() + static_cast<long>(n));
}
static int cmp_val(const Val& a, const Val& b) {
  if (a.ty == TEXT) {
    const Bytes x = text_norm(a.text), y = text_norm(b.text);
    if (x < y) return -1;
    return y < x ? 1 : 0;
  }
  if (ty_float(a.ty)) {
    const double x = a.ty == F32 ? static_cast<double>(as_float(a)) : as_double(a);
    const double y = a.ty == F32 ? static_cast<double>(as_float(b)) : as_double(b);
    const bool nx = x != x, ny = y != y;
    if (nx || ny) return nx == ny ? 0 : (nx ? 1 : -1);
    if (x < y) return -1;
    if (y < x) return 1;
    const bool sx = std::signbit(x), sy = std::signbit(y);  // -0 before +0
    return sx == sy ? 0 : (sx ? -1 : 1);
  }
  if (ty_signed(a.ty)) {
    const auto x = as_signed(a), y = as_signed(b);
    return x < y ? -1 : (y < x ? 1 : 0);
  }
  return a.bits < b.bits ? -1 : (b.bits < a.bits ? 1 : 0);
}
static bool key_less(const Key& a, const Key& b) {
  for (std::size_t i = 0; i < a.size(); ++i) {
    const int c = cmp_val(a[i], b[i]);
    if (c != 0) return c < 0;
  }
  return false;
}

// ------------------------------------------------------------------ trace output
struct Out {
  std::string dir;
  long items_per_file = 6000;
  long file_no = 0, items_in_file = 0, batch_id = 0;
  FILE* f = nullptr;
  std::string hdr;
  std::map<std::string, long> per_stratum, per_type;
  long total_items = 0, total_batches = 0, faults = 0;

  void open_next() {
    if (f) std::fclose(f);
    char name[64];
    std::snprintf(name, sizeof name, "/t_%04ld.ndjson", file_no++);
    f = std::fopen((dir + name).c_str(), "w");
    if (!f) {
      std::perror("fopen");
      std::exit(3);
    }
    g_cur_file = f;
    std::fputs(hdr.c_str(), f);
    items_in_file = 0;
  }
  void need(long n) {
    if (!f || (items_in_file > 0 && items_in_file + n > items_per_file)) open_next();
    items_in_file += n;
  }
  void close() {
    if (f) std::fclose(f);
    f = nullptr;
  }
};
static Out g_out;

enum Mode { FRESH, RESET, GROWN };
static const char* const kModeName[] = {"fresh", "reset", "grown"};

// Encode every key of the batch with the real encoder in the given mode,
// decode it with the real decoder, write one batch line.
static std::unique_ptr<unodb::key_encoder> g_preset_encoder;
static void emit_batch(const char* stratum, const Schema& sch, std::vector<Key> keys, Mode mode, bool pairwise,
                       bool sorted = true, long weight = 0) {
  if (keys.empty()) return;
  if (sorted) std::stable_sort(keys.begin(), keys.end(), key_less);
  g_out.need(weight > 0 ? weight : static_cast<long>(keys.size()));
  std::string o;
  o.reserve(keys.size() * 96);
  o += "{\"e\":\"batch\",\"id\":" + std::to_string(++g_out.batch_id) + ",\"st\":\"" + stratum + "\",\"mode\":\"" +
       kModeName[mode] + "\",\"pw\":" + (pairwise ? "true" : "false") + ",\"sch\":[";
  for (std::size_t i = 0; i < sch.size(); ++i) {
    if (i) o += ',';
    o += '"';
    o += kTyName[sch[i]];
    o += '"';
  }
  o += "],\"items\":[";
  std::unique_ptr<unodb::key_encoder> shared;
  if (mode != FRESH && g_preset_encoder) {
    shared = std::move(g_preset_encoder);  // an encoder with a history of its own (stratum grow-fault)
  } else if (mode != FRESH) {
    shared = std::make_unique<unodb::key_encoder>();
    if (mode == GROWN) {  // make it grow its buffer first: 300..4000 bytes
      const std::size_t n = 40 + (static_cast<std::size_t>(g_out.batch_id) * 37) % 460;
      for (std::size_t i = 0; i < n; ++i) shared->encode(static_cast<std::uint64_t>(i * 0x0101010101010101ULL));
    }
  }
  bool first = true;
  std::string fault_lines;
  for (const auto& k : keys) {
    Encoded r;
    if (mode == FRESH) {
      auto e = std::make_unique<unodb::key_encoder>();
      r = encode_key(*e, k);
      if (r.fault) (void)e.release();  // state unknown after the jump: leak it
    } else {
      shared->reset();
      r = encode_key(*shared, k);
      if (r.fault) {
        (void)shared.release();
        shared = std::make_unique<unodb::key_encoder>();
      }
    }
    if (r.fault) {
      ++g_out.faults;
      std::size_t tl = 0;
      for (const auto& v : k)
        if (v.ty == TEXT) tl = std::max(tl, v.text.size());
      fault_lines += "{\"e\":\"fault\",\"id\":" + std::to_string(g_out.batch_id) + ",\"st\":\"" + stratum +
                     "\",\"len\":" + std::to_string(tl) + ",\"what\":\"encode_text read the guard page behind "
                     "min(len,maxlen) input bytes\"}\n";
      continue;
    }
    const auto dec = decode_key(r.enc, sch);
    if (!first) o += ',';
    first = false;
    o += "{\"v\":[";
    for (std::size_t i = 0; i < k.size(); ++i) {
      if (i) o += ',';
      repr(o, k[i]);
    }
    o += "],\"enc\":";
    repr_bytes(o, r.enc);
    o += ",\"ends\":[";
    for (std::size_t i = 0; i < r.ends.size(); ++i) {
      if (i) o += ',';
      o += std::to_string(r.ends[i]);
    }
    o += "],\"sz\":" + std::to_string(r.sz) + ",\"dec\":[";
    for (std::size_t i = 0; i < dec.size(); ++i) {
      if (i) o += ',';
      repr(o, dec[i]);
    }
    o += ']';
    if (mode != FRESH || k.size() > 1) {
      // the same components, each encoded alone by a fresh encoder
      Bytes ref;
      bool ok = true;
      for (const auto& v : k) {
        auto e = std::make_unique<unodb::key_encoder>();
        Key one{v};
        Encoded x = encode_key(*e, one);
        if (x.fault) {
          (void)e.release();
          ok = false;
          break;
        }
        ref.insert(ref.end(), x.enc.begin(), x.enc.end());
      }
      if (ok) {
        o += ",\"ref\":";
        repr_bytes(o, ref);
      }
    }
    o += '}';
    ++g_out.total_items;
    ++g_out.per_stratum[stratum];
    for (Ty t : sch) ++g_out.per_type[kTyName[t]];
  }
  o += "]}\n";
  if (!first) {
    std::fwrite(o.data(), 1, o.size(), g_out.f);
    ++g_out.total_batches;
  }
  if (!fault_lines.empty()) std::fwrite(fault_lines.data(), 1, fault_lines.size(), g_out.f);
}

// a sorted list of single-component keys in batches of K with one key of
// overlap, so that every adjacent pair of the list is adjacent in some batch
static void emit_sorted_list(const char* stratum, Ty t, std::vector<Val> vals, std::size_t K, Mode mode = FRESH) {
  std::stable_sort(vals.begin(), vals.end(), [](const Val& a, const Val& b) { return cmp_val(a, b) < 0; });
  const Schema sch{t};
  std::size_t i = 0;
  while (i < vals.size()) {
    const std::size_t j = std::min(vals.size(), i + K);
    std::vector<Key> keys;
    for (std::size_t x = i; x < j; ++x) keys.push_back(Key{vals[x]});
    emit_batch(stratum, sch, std::move(keys), mode, false);
    if (j == vals.size()) break;
    i = j - 1;
  }
}

// ------------------------------------------------------------------ stratified generators
static void uniq(std::vector<std::uint64_t>& v) {
  std::sort(v.begin(), v.end());
  v.erase(std::unique(v.begin(), v.end()), v.end());
}

// integers of width W from the case analysis of the specification: sign
// classes, +-1 around every power of two, every byte-position carry, every
// byte position with boundary digits, min/max
static std::vector<std::uint64_t> int_strata(Ty t, Rng& rng) {
  const int n = ty_bytes(t), W = 8 * n;
  const std::uint64_t M = ty_mask(t), msb = 1ULL << (W - 1);
  std::vector<std::uint64_t> s;
  auto add = [&](std::uint64_t x) { s.push_back(x & M); };
  for (std::uint64_t d = 0; d <= 3; ++d) {
    add(d); add(M - d); add(msb + d); add(msb - d);
  }
  for (int k = 0; k < W; ++k) {
    const std::uint64_t p = 1ULL << k;
    for (std::uint64_t d : IL{0ULL, 1ULL, ~0ULL}) {
      add(p + d); add(~p + 1 + d);            // 2^k + d, -2^k + d
      add(msb + p + d); add(msb - p + d);     // around the sign change
    }
  }
  for (int j = 1; j < n; ++j) {
    const int sh = 8 * j;
    for (std::uint64_t x : IL{1ULL, 0x7FULL, 0x80ULL, 0xFFULL, rng.next() & 0xFF, rng.next()}) {
      const std::uint64_t b = x << sh;
      add(b - 1); add(b); add(b + 1);
      add((b | ((1ULL << sh) - 1)));          // ...FF below the position
      add((b | ((1ULL << sh) - 1)) + 1);      // carry into the position
    }
  }
  for (int j = 0; j < n; ++j)
    for (std::uint64_t d : IL{0x00ULL, 0x01ULL, 0x7FULL, 0x80ULL, 0xFEULL, 0xFFULL})
      for (std::uint64_t bg : IL{0ULL, ~0ULL, 0x5555555555555555ULL}) {
        const std::uint64_t m = 0xFFULL << (8 * j);
        add((bg & ~m) | (d << (8 * j)));
      }
  uniq(s);
  return s;
}
static std::vector<std::uint64_t> int_random(Ty t, Rng& rng, std::size_t count) {
  const int W = 8 * ty_bytes(t);
  std::vector<std::uint64_t> s;
  for (std::size_t i = 0; i < count; ++i) {
    std::uint64_t x = rng.next();
    if (i % 2) {  // log-uniform magnitude, both signs
      const int bits = 1 + static_cast<int>(rng.below(static_cast<std::uint64_t>(W)));
      x = bits >= 64 ? x : (x & ((1ULL << bits) - 1));
      if (rng.chance(50)) x = ~x + 1;
    }
    s.push_back(x & ty_mask(t));
    if (i % 8 == 0) s.push_back((x + 1) & ty_mask(t));  // a neighbour
  }
  uniq(s);
  return s;
}

// floating point bit patterns from the case analysis: every sign x every
// exponent x mantissa in {0, 1, mid, max-1, max}; single mantissa bits and
// byte carries at the boundary exponents; the special values
static std::vector<std::uint64_t> flt_strata(Ty t, Rng& rng, int exp_step) {
  const int E = t == F32 ? 8 : 11, Mb = t == F32 ? 23 : 52;
  const std::uint64_t emax = (1ULL << E) - 1, mmax = (1ULL << Mb) - 1, bias = emax / 2;
  std::vector<std::uint64_t> s;
  auto add = [&](std::uint64_t sg, std::uint64_t e, std::uint64_t m) {
    s.push_back((sg << (E + Mb)) | ((e & emax) << Mb) | (m & mmax));
  };
  for (std::uint64_t sg = 0; sg < 2; ++sg) {
    for (std::uint64_t e = 0; e <= emax; ++e) {
      if (exp_step > 1 && e % static_cast<std::uint64_t>(exp_step) != 0 && e > 2 && e + 3 < emax &&
          (e + 2 < bias || e > bias + 2))
        continue;
      for (std::uint64_t m : IL{0ULL, 1ULL, 1ULL << (Mb - 1), mmax - 1, mmax}) add(sg, e, m);
    }
    for (std::uint64_t e : IL{0ULL, 1ULL, bias - 1, bias, bias + 1, emax - 1, emax}) {
      for (int k = 0; k < Mb; ++k) {
        add(sg, e, 1ULL << k); add(sg, e, (1ULL << k) - 1); add(sg, e, (1ULL << k) + 1);
        add(sg, e, mmax ^ (1ULL << k));
      }
      for (int j = 1; 8 * j < Mb; ++j)
        for (std::uint64_t x : IL{1ULL, 0x7FULL, 0x80ULL, 0xFFULL, rng.next() & 0xFF}) {
          add(sg, e, (x << (8 * j)) - 1); add(sg, e, x << (8 * j));
        }
    }
  }
  uniq(s);
  return s;
}
static std::vector<std::uint64_t> flt_random(Ty t, Rng& rng, std::size_t count) {
  const int E = t == F32 ? 8 : 11, Mb = t == F32 ? 23 : 52;
  const std::uint64_t emax = (1ULL << E) - 1, mmax = (1ULL << Mb) - 1;
  std::vector<std::uint64_t> s;
  for (std::size_t i = 0; i < count; ++i) {
    std::uint64_t x = rng.next();
    if (i % 4 == 1) x = (x & ~(emax << Mb)) | ((emax / 2 - 4 + rng.below(8)) << Mb);  // near 1.0
    if (i % 16 == 2) x |= emax << Mb;                                                 // NaN / inf
    if (i % 16 == 3) x &= ~(emax << Mb);                                              // subnormal
    if (i % 16 == 4) x &= ~mmax | rng.below(4);                                       // tiny mantissa
    s.push_back(x & ty_mask(t));
    if (i % 8 == 0) s.push_back((x + 1) & ty_mask(t));
  }
  uniq(s);
  return s;
}

static std::vector<Val> to_vals(Ty t, const std::vector<std::uint64_t>& bits) {
  std::vector<Val> v;
  v.reserve(bits.size());
  for (auto b : bits) v.push_back(mk(t, b));
  return v;
}

// ------------------------------------------------------------------ text generators
static void all_texts(const Bytes& alpha, std::size_t maxl, std::vector<Bytes>& out) {
  out.push_back({});
  std::size_t lo = 0;
  for (std::size_t l = 1; l <= maxl; ++l) {
    const std::size_t hi = out.size();
    for (std::size_t i = lo; i < hi; ++i)
      for (auto c : alpha) {
        Bytes t = out[i];
        t.push_back(c);
        out.push_back(std::move(t));
      }
    lo = hi;
  }
}
// zero_free: arbitrary non-zero bytes.  Otherwise the text may contain pad
// bytes anywhere and is drawn from the small alphabet {00,'a'..'d'} (C15's
// quantifier: texts over a small alphabet, random texts without zero bytes).
static Bytes rand_text(Rng& rng, std::size_t len, bool zero_free) {
  Bytes t(len);
  for (auto& b : t) {
    const auto r = rng.below(100);
    if (!zero_free) {
      b = r < 25 ? 0 : static_cast<std::uint8_t>('a' + rng.below(4));
      continue;
    }
    if (r < 50) b = static_cast<std::uint8_t>('a' + rng.below(4));       // shared prefixes
    else if (r < 60) b = static_cast<std::uint8_t>(rng.chance(50) ? 0xFF : 0x01);
    else b = static_cast<std::uint8_t>(1 + rng.below(255));
  }
  return t;
}

static std::vector<Key> single(const std::vector<Bytes>& ts) {
  std::vector<Key> k;
  for (const auto& t : ts) k.push_back(Key{mk_text(t)});
  return k;
}

// ------------------------------------------------------------------ tuples
static Val rand_val(Ty t, Rng& rng, const std::vector<Val>& pool) {
  if (!pool.empty() && rng.chance(55)) return rng.pick(pool);  // equal leading components matter
  if (t == TEXT) {
    const bool zf = !rng.chance(10);
    Bytes b = rand_text(rng, rng.below(rng.chance(90) ? 9 : 40), zf);
    if (rng.chance(15)) b.insert(b.end(), rng.below(3) + 1, 0);  // trailing pads
    return mk_text(std::move(b));
  }
  if (ty_float(t)) return mk(t, flt_random(t, rng, 1)[0]);
  return mk(t, int_random(t, rng, 2).back());
}

// ------------------------------------------------------------------ the quick / thorough plan
struct Plan {
  bool thorough = false;
  bool izp = false;
  std::uint64_t seed = 1;
};

static void run_plan(const Plan& P) {
  Rng rng(P.seed);
  const std::size_t K = 128;
  const std::size_t maxlen = unodb::key_encoder::maxlen;
  const std::size_t scale = P.thorough ? 40 : 1;

  // --- all values of the 8- and 16-bit types
  for (Ty t : {U8, I8, U16, I16}) {
    std::vector<std::uint64_t> all;
    for (std::uint64_t x = 0; x <= ty_mask(t); ++x) all.push_back(x);
    emit_sorted_list(ty_bytes(t) == 1 ? "exh8" : "exh16", t, to_vals(t, all), K);
  }
  // --- 32/64-bit integers: strata + random
  for (Ty t : {U32, I32, U64, I64}) {
    emit_sorted_list("int-strat", t, to_vals(t, int_strata(t, rng)), K);
    emit_sorted_list("int-rand", t, to_vals(t, int_random(t, rng, 1500 * scale)), K);
  }
  // --- float / double: strata + random
  emit_sorted_list("flt-strat", F32, to_vals(F32, flt_strata(F32, rng, 1)), K);
  emit_sorted_list("flt-strat", F64, to_vals(F64, flt_strata(F64, rng, P.thorough ? 1 : 1)), K);
  for (Ty t : {F32, F64}) emit_sorted_list("flt-rand", t, to_vals(t, flt_random(t, rng, 2500 * scale)), K);

  // --- text: all texts over {0,'a','b'} up to length 6, as a sorted list and
  //     all pairs (blocks of 64 x 64, pairwise)
  {
    std::vector<Bytes> ts;
    all_texts(Bytes{0, 'a', 'b'}, 6, ts);
    std::vector<Val> vs;
    for (auto& t : ts) vs.push_back(mk_text(t));
    emit_sorted_list("text-all6", TEXT, vs, K);
    std::stable_sort(ts.begin(), ts.end(), [](const Bytes& a, const Bytes& b) { return text_norm(a) < text_norm(b); });
    const std::size_t B = 64, nb = (ts.size() + B - 1) / B;
    for (std::size_t i = 0; i < nb; ++i)
      for (std::size_t j = i; j < nb; ++j) {
        std::vector<Bytes> blk(ts.begin() + static_cast<long>(i * B),
                               ts.begin() + static_cast<long>(std::min(ts.size(), (i + 1) * B)));
        if (j != i)
          blk.insert(blk.end(), ts.begin() + static_cast<long>(j * B),
                     ts.begin() + static_cast<long>(std::min(ts.size(), (j + 1) * B)));
        emit_batch("text-pairs6", Schema{TEXT}, single(blk), FRESH, true, true, 400);
      }
  }
  // --- text around maxlen: lengths maxlen-2..maxlen+2 (and +70000 once), the
  //     last four kept bytes and the first bytes beyond maxlen in {0,'z'}
  {
    std::vector<Bytes> ts;
    const int tails = P.thorough ? 16 : 4;
    for (long d = -2; d <= 2; ++d)
      for (int tail = 0; tail < tails; ++tail) {
        const int pat = P.thorough ? tail : (tail * 5 + 1 + static_cast<int>(d + 2)) % 16;
        Bytes t(static_cast<std::size_t>(static_cast<long>(maxlen) + d), 'm');
        t[0] = static_cast<std::uint8_t>('a' + (tail % 3));
        for (int b = 0; b < 4; ++b) {  // bytes maxlen-2, maxlen-1 (kept), maxlen, maxlen+1 (cut)
          const std::size_t pos = maxlen - 2 + static_cast<std::size_t>(b);
          if (pos < t.size()) t[pos] = (pat >> b) & 1 ? 'z' : 0;
        }
        ts.push_back(std::move(t));
      }
    // twins: equal but for the last kept byte (must differ) / the first cut byte (must be equal)
    for (std::size_t len : {maxlen, maxlen + 1, maxlen + 2}) {
      Bytes t(len, 'n');
      ts.push_back(t);
      t[maxlen - 1] = 'o';
      ts.push_back(t);
      if (len > maxlen) {
        t[maxlen] = 'o';
        ts.push_back(t);
      }
    }
    ts.push_back(Bytes(maxlen + 70000, 'q'));
    ts.push_back(Bytes(maxlen, 0));          // nothing but padding
    ts.push_back(Bytes(maxlen + 2, 0));
    {
      Bytes t(maxlen + 1, 0);                // one byte, then padding up to the cut, then a byte beyond
      t[0] = 'k';
      t[maxlen] = 'x';
      ts.push_back(std::move(t));
    }
    for (std::size_t i = 0; i < ts.size(); i += 6) {
      std::vector<Bytes> part(ts.begin() + static_cast<long>(i), ts.begin() + static_cast<long>(std::min(ts.size(), i + 7)));
      emit_batch("text-maxlen", Schema{TEXT}, single(part), (i / 6) % 3 == 1 ? RESET : FRESH, false, true, 2500);
    }
  }
  // --- texts of 64 KiB and more (the length no longer fits the encoder's 16-bit size type): they are cut at
  //     maxlen like any other over-long text, so all of them normalise to the same value as the maxlen-long
  //     text and none of them to a short one (seeds c11c / c15b: length reduced mod 65536 before the cut)
  {
    std::vector<Bytes> ts;
    ts.push_back(Bytes{});
    ts.push_back(Bytes(1, 'n'));
    ts.push_back(Bytes(5, 'n'));
    ts.push_back(Bytes(maxlen, 'n'));
    for (std::size_t len : {std::size_t{65535}, std::size_t{65536}, std::size_t{65537}, std::size_t{65541},
                            std::size_t{131072}, std::size_t{131077}, std::size_t{200000}})
      ts.push_back(Bytes(len, 'n'));
    emit_batch("text-64k", Schema{TEXT}, single(ts), FRESH, true, true, 2500);
    std::vector<Bytes> t2;
    t2.push_back(Bytes(3, 'p'));
    t2.push_back(Bytes(65536 + 3, 'p'));
    t2.push_back(Bytes(maxlen + 1, 'p'));
    emit_batch("text-64k", Schema{TEXT}, single(t2), RESET, true, true, 1000);
  }
  // --- text with embedded / trailing pads, random zero-free text
  for (std::size_t rep = 0; rep < 6 * scale; ++rep) {
    std::vector<Bytes> ts;
    for (int i = 0; i < 100; ++i) {
      Bytes t = rand_text(rng, rng.below(12), false);
      if (rng.chance(50)) t.insert(t.end(), rng.below(4), 0);
      if (rng.chance(30) && !t.empty()) t[rng.below(t.size())] = 0;
      ts.push_back(std::move(t));
    }
    emit_batch("text-pads", Schema{TEXT}, single(ts), rep % 2 ? RESET : FRESH, false);
  }
  for (std::size_t rep = 0; rep < 8 * scale; ++rep) {
    std::vector<Bytes> ts;
    for (int i = 0; i < 120; ++i) {
      std::size_t len = rng.below(24);
      if (i % 40 == 0) len = 250 + rng.below(12);   // around the 256-byte internal buffer
      if (i % 60 == 1) len = 300 + rng.below(4000);
      Bytes t = rand_text(rng, len, true);
      ts.push_back(t);
      if (i % 5 == 0) {                              // an extension and a padded twin
        Bytes u = t;
        u.push_back(static_cast<std::uint8_t>(1 + rng.below(255)));
        ts.push_back(std::move(u));
        t.push_back(0);
        ts.push_back(std::move(t));
      }
    }
    emit_batch("text-rand", Schema{TEXT}, single(ts), rep % 3 == 2 ? GROWN : FRESH, false);
  }
  // --- random tuples of equal schema (2..5 components), correlated
  const Ty all_ty[] = {U8, I8, U16, I16, U32, I32, U64, I64, F32, F64, TEXT};
  for (std::size_t rep = 0; rep < 40 * scale; ++rep) {
    Schema sch;
    const std::size_t nc = 2 + rng.below(4);
    for (std::size_t i = 0; i < nc; ++i) sch.push_back(all_ty[rng.below(i + 1 == nc && rep % 4 == 0 ? 10 : 11)]);
    if (rep % 5 == 0) sch[rng.below(nc - 1)] = TEXT;  // a text in the middle
    std::vector<std::vector<Val>> pools(nc);
    for (std::size_t i = 0; i < nc; ++i)
      for (int j = 0; j < 3; ++j) pools[i].push_back(rand_val(sch[i], rng, {}));
    std::vector<Key> keys;
    for (int i = 0; i < 64; ++i) {
      Key k;
      for (std::size_t c = 0; c < nc; ++c) k.push_back(rand_val(sch[c], rng, pools[c]));
      keys.push_back(std::move(k));
    }
    emit_batch("tuple-rand", sch, std::move(keys), static_cast<Mode>(rep % 3), false);
  }
  // --- reuse after reset / growth across the 256-byte internal buffer: keys
  //     of many components whose length crosses 256, 512, 1024, ... at every
  //     alignment of the crossing component
  for (std::size_t rep = 0; rep < 12 * scale; ++rep) {
    Schema sch;
    const std::size_t lead = 240 + rng.below(20);  // u8 components up to just below / above 256
    for (std::size_t i = 0; i < lead; ++i) sch.push_back(U8);
    const Ty tail_ty[] = {U64, I64, F64, U32, I16, TEXT, F32, U64, U64, TEXT};
    const std::size_t nt = 2 + rng.below(rep % 3 == 0 ? 130 : 8);
    for (std::size_t i = 0; i < nt; ++i) sch.push_back(tail_ty[rng.below(10)]);
    std::vector<Key> keys;
    for (int i = 0; i < 6; ++i) {
      Key k;
      for (Ty t : sch) k.push_back(rand_val(t, rng, {}));
      if (i % 2 && !keys.empty())
        for (std::size_t c = 0; c + 1 < k.size(); ++c) k[c] = keys.back()[c];  // differ in the last component only
      keys.push_back(std::move(k));
    }
    emit_batch("grow", sch, std::move(keys), static_cast<Mode>(rep % 3), false, true, 600);
  }
#ifndef NDEBUG
  // --- an encoder whose buffer growth FAILED once (allocation failure injected at the append that crosses the
  //     internal buffer), reused after reset(): it must still yield the bytes of a fresh encoder (seed c12c:
  //     the capacity was recorded before the allocation)
  for (std::size_t fill = 246; fill <= 256; ++fill) {
    for (Ty last : {U8, U16, U64, F64}) {
      const std::size_t lsz = last == U8 ? 1 : last == U16 ? 2 : 8;
      if (fill + lsz <= 256) continue;  // no growth needed
      auto enc = std::make_unique<unodb::key_encoder>();
      for (std::size_t i = 0; i < fill; ++i) enc->encode(static_cast<std::uint8_t>(i * 7 + fill));
      bool threw = false;
      unodb::test::allocation_failure_injector::fail_on_nth_allocation(1);
      try {
        if (last == U8) enc->encode(static_cast<std::uint8_t>(0x5A));
        else if (last == U16) enc->encode(static_cast<std::uint16_t>(0x5A5A));
        else if (last == U64) enc->encode(static_cast<std::uint64_t>(0x5A5A5A5A5A5A5A5AULL));
        else enc->encode(1.5);
      } catch (const std::bad_alloc&) {
        threw = true;
      }
      unodb::test::allocation_failure_injector::reset();
      if (!threw) continue;
      // reused after the failure: keys just above the internal buffer, and longer ones
      Schema sch;
      for (std::size_t i = 0; i < 257 + (fill % 3) * 130; ++i) sch.push_back(U8);
      sch.push_back(last);
      std::vector<Key> keys;
      for (int i = 0; i < 2; ++i) {
        Key k;
        for (Ty t : sch) k.push_back(rand_val(t, rng, {}));
        keys.push_back(std::move(k));
      }
      g_preset_encoder = std::move(enc);
      emit_batch("grow-fault", sch, std::move(keys), RESET, false, true, 300);
    }
  }
#endif
  // --- optional: the boundary of C15's domain found by TLC (KeyCodecMC
  //     "textizp"): t and t ++ 00 ++ BE16(maxlen - |t|) ++ 01
  if (P.izp) {
    std::vector<Bytes> ts;
    for (const Bytes& t : {Bytes{}, Bytes{'a'}, Bytes{'a', 'b', 'c'}}) {
      ts.push_back(t);
      Bytes u = t;
      const std::size_t run = maxlen - t.size();
      u.push_back(0);
      u.push_back(static_cast<std::uint8_t>(run >> 8));
      u.push_back(static_cast<std::uint8_t>(run & 0xFF));
      u.push_back(1);
      ts.push_back(std::move(u));
    }
    emit_batch("izp", Schema{TEXT}, single(ts), FRESH, true);
  }
}

// ------------------------------------------------------------------ native sweep (thorough): C++ monitor
// successor in the value order of KeyCodec (FloatSucc for binary32); returns
// false at the end of the order
static bool succ32(Ty t, std::uint32_t x, std::uint32_t& out) {
  if (t == U32) {
    if (x == 0xFFFFFFFFu) return false;
    out = x + 1;
    return true;
  }
  if (t == I32) {
    if (x == 0x7FFFFFFFu) return false;
    out = x + 1;
    return true;
  }
  const std::uint32_t s = x >> 31, mag = x & 0x7FFFFFFFu;
  if (mag > 0x7F800000u) return false;  // NaN
  if (s) {
    if (mag == 0) { out = 0; return true; }          // -0 -> +0
    out = 0x80000000u | (mag - 1);                    // -inf -> -max, ... (magnitude decreases)
    return true;
  }
  out = mag + 1;                                      // ..., max -> +inf, +inf -> a NaN
  return true;
}

static int run_sweep32(Ty t, const std::string& out_path, unsigned threads) {
  std::vector<std::vector<std::pair<std::uint32_t, std::uint32_t>>> bad(threads);
  std::vector<std::uint64_t> counts(threads, 0);
  std::vector<std::thread> th;
  const std::uint64_t total = 1ULL << 32;
  for (unsigned w = 0; w < threads; ++w)
    th.emplace_back([&, w] {
      const std::uint64_t lo = total * w / threads, hi = total * (w + 1) / threads;
      unodb::key_encoder e1, e2;
      std::uint64_t cnt = 0;
      std::vector<std::pair<std::uint32_t, std::uint32_t>> mybad;
      for (std::uint64_t i = lo; i < hi; ++i) {
        const auto x = static_cast<std::uint32_t>(i);
        std::uint32_t y = 0;
        const bool has = succ32(t, x, y);
        const Val vx = mk(t, x), vy = mk(t, has ? y : x);
        e1.reset();
        e2.reset();
        encode_comp(e1, vx);
        encode_comp(e2, vy);
        const auto a = e1.get_key_view(), b = e2.get_key_view();
        bool ok = a.size() == 4 && b.size() == 4;
        const int c = ok ? std::memcmp(a.data(), b.data(), 4) : 0;
        const bool nan = t == F32 && (x & 0x7FFFFFFFu) > 0x7F800000u;
        if (has) ok = ok && c < 0;                        // strictly increasing along the value order
        if (nan) {                                        // every NaN: the bytes of the canonical NaN
          e2.reset();
          encode_comp(e2, mk(F32, 0x7FC00000u));
          const auto q = e2.get_key_view();
          ok = ok && q.size() == 4 && std::memcmp(a.data(), q.data(), 4) == 0;
        }
        unodb::key_decoder d(a);                          // round trip
        std::uint32_t back = 0;
        if (t == U32) d.decode(back);
        else if (t == I32) { std::int32_t v; d.decode(v); back = static_cast<std::uint32_t>(v); }
        else { float v; d.decode(v); back = std::bit_cast<std::uint32_t>(v); }
        if (nan) ok = ok && (back & 0x7FC00000u) == 0x7FC00000u;   // a quiet NaN
        else ok = ok && back == x;
        if (!ok && mybad.size() < 200) mybad.push_back({x, has ? y : x});
        ++cnt;
      }
      counts[w] = cnt;
      bad[w] = std::move(mybad);
    });
  for (auto& x : th) x.join();
  std::uint64_t n = 0;
  std::vector<std::pair<std::uint32_t, std::uint32_t>> all;
  for (unsigned w = 0; w < threads; ++w) {
    n += counts[w];
    all.insert(all.end(), bad[w].begin(), bad[w].end());
  }
  // would-be violations become ordinary events for TLC; plus a sparse sample
  // of pairs so that the monitor's own predicate is cross-checked by TLC
  g_out.dir = out_path;
  g_out.items_per_file = 1 << 30;
  g_out.need(1);
  for (const auto& p : all) {
    std::vector<Key> keys{Key{mk(t, p.first)}, Key{mk(t, p.second)}};
    emit_batch("sweep32-violation", Schema{t}, std::move(keys), FRESH, true, false);
  }
  std::vector<Val> sample;
  for (std::uint64_t i = 0; i < total; i += (1ULL << 20) - 1) {
    sample.push_back(mk(t, i));
    std::uint32_t y;
    if (succ32(t, static_cast<std::uint32_t>(i), y)) sample.push_back(mk(t, y));
  }
  emit_sorted_list("sweep32-sample", t, sample, 128);
  g_out.close();
  std::printf("{\"sweep\":\"%s\",\"values_hi\":%llu,\"values_lo\":%llu,\"violations\":%zu,\"threads\":%u}\n", kTyName[t],
              static_cast<unsigned long long>(n >> 20), static_cast<unsigned long long>(n & 0xFFFFF), all.size(), threads);
  return 0;
}

// ------------------------------------------------------------------ main
static std::string make_header(const Plan& P) {
  // what the real decoder returns for the encoded standard quiet NaN
  std::string h = "{\"e\":\"hdr\",\"maxlen\":" + std::to_string(unodb::key_encoder::maxlen) +
                  ",\"lenbytes\":" + std::to_string(sizeof(unodb::key_encoder::size_type)) +
                  ",\"pad\":" + std::to_string(static_cast<unsigned>(unodb::key_encoder::pad)) +
                  ",\"ibuf\":" + std::to_string(unodb::detail::INITIAL_BUFFER_CAPACITY) + ",\"seed\":" +
                  std::to_string(P.seed) + ",\"canon\":{";
  bool first = true;
  for (Ty t : {F32, F64}) {
    unodb::key_encoder e;
    const Val q = t == F32 ? mk(t, std::bit_cast<std::uint32_t>(std::numeric_limits<float>::quiet_NaN()))
                           : mk(t, std::bit_cast<std::uint64_t>(std::numeric_limits<double>::quiet_NaN()));
    const Encoded r = encode_key(e, Key{q});
    const auto d = decode_key(r.enc, Schema{t});
    if (!first) h += ',';
    first = false;
    h += std::string("\"") + kTyName[t] + "\":";
    repr(h, d[0]);
  }
  h += "}}\n";
  return h;
}

int main(int argc, char** argv) {
  Plan P;
  std::string out, sweep;
  unsigned threads = 8;
  long ipf = 6000;
  for (int i = 1; i < argc; ++i) {
    const std::string a = argv[i];
    if (a == "--seed" && i + 1 < argc) P.seed = std::strtoull(argv[++i], nullptr, 10);
    else if (a == "--out" && i + 1 < argc) out = argv[++i];
    else if (a == "--tier" && i + 1 < argc) P.thorough = std::string(argv[++i]) == "thorough";
    else if (a == "--items-per-file" && i + 1 < argc) ipf = std::strtol(argv[++i], nullptr, 10);
    else if (a == "--izp") P.izp = true;
    else if (a == "--sweep32" && i + 1 < argc) sweep = argv[++i];
    else if (a == "--threads" && i + 1 < argc) threads = static_cast<unsigned>(std::strtoul(argv[++i], nullptr, 10));
    else {
      std::fprintf(stderr, "unknown argument %s\n", a.c_str());
      return 3;
    }
  }
  if (out.empty()) {
    std::fprintf(stderr, "--out required\n");
    return 3;
  }
  struct sigaction sa {};
  sa.sa_sigaction = on_signal;
  sa.sa_flags = SA_SIGINFO | SA_NODEFER;
  sigemptyset(&sa.sa_mask);
  for (int s : {SIGSEGV, SIGBUS, SIGABRT, SIGFPE, SIGILL}) sigaction(s, &sa, nullptr);
  GuardArena arena;
  g_arena = &arena;
  g_out.hdr = make_header(P);
  if (!sweep.empty()) {
    const Ty t = sweep == "u32" ? U32 : sweep == "i32" ? I32 : F32;
    return run_sweep32(t, out, std::max(1u, threads));
  }
  g_out.dir = out;
  g_out.items_per_file = ipf;
  run_plan(P);
  g_out.close();
  // summary (counts only) for the evidence file
  std::string s = "{\"files\":" + std::to_string(g_out.file_no) + ",\"batches\":" + std::to_string(g_out.total_batches) +
                  ",\"items\":" + std::to_string(g_out.total_items) + ",\"faults\":" + std::to_string(g_out.faults) +
                  ",\"per_stratum\":{";
  bool first = true;
  for (const auto& [k, v] : g_out.per_stratum) {
    if (!first) s += ',';
    first = false;
    s += "\"" + k + "\":" + std::to_string(v);
  }
  s += "},\"per_type_components\":{";
  first = true;
  for (const auto& [k, v] : g_out.per_type) {
    if (!first) s += ',';
    first = false;
    s += "\"" + k + "\":" + std::to_string(v);
  }
  s += "}}\n";
  FILE* f = std::fopen((out + "/summary.json").c_str(), "w");
  if (f) {
    std::fputs(s.c_str(), f);
    std::fclose(f);
  }
  std::fputs(s.c_str(), stdout);
  return 0;
}
