// Shared helpers for the /verif drivers: ndjson trace writer, seeded RNG,
// byte-string helpers, allocation registry fed by the H_ALLOC/H_FREE hooks.
#ifndef VERIF_HARNESS_COMMON_HPP
#define VERIF_HARNESS_COMMON_HPP

#include "global.hpp"

#include <algorithm>
#include <atomic>
#include <cinttypes>
#include <cstddef>
#include <cstdint>
#include <cstdio>
#include <cstdlib>
#include <cstring>
#include <map>
#include <mutex>
#include <span>
#include <string>
#include <unordered_map>
#include <vector>

#include "verif_hooks.hpp"

namespace vh {

using Bytes = std::vector<std::uint8_t>;

// ---------------------------------------------------------------- RNG
struct Rng {
  std::uint64_t s;
  // the seed is mixed, not just multiplied by the stream increment: otherwise
  // adjacent seeds give the same stream shifted by one draw
  explicit Rng(std::uint64_t seed) : s(mix(seed + 0x1234567ULL)) {}
  static std::uint64_t mix(std::uint64_t z) {
    z = (z ^ (z >> 30)) * 0xBF58476D1CE4E5B9ULL;
    z = (z ^ (z >> 27)) * 0x94D049BB133111EBULL;
    return z ^ (z >> 31);
  }
  std::uint64_t next() {
    std::uint64_t z = (s += 0x9E3779B97F4A7C15ULL);
    z = (z ^ (z >> 30)) * 0xBF58476D1CE4E5B9ULL;
    z = (z ^ (z >> 27)) * 0x94D049BB133111EBULL;
    return z ^ (z >> 31);
  }
  std::uint64_t below(std::uint64_t n) { return n == 0 ? 0 : next() % n; }
  bool chance(unsigned pct) { return below(100) < pct; }
  template <class T> const T& pick(const std::vector<T>& v) { return v[below(v.size())]; }
};

// ---------------------------------------------------------------- JSON line writer
class Json {
 public:
  explicit Json(FILE* f) : f_(f) {}
  Json& begin(const char* ev) {
    buf_.clear();
    buf_ += "{\"e\":\"";
    buf_ += ev;
    buf_ += "\"";
    return *this;
  }
  Json& num(const char* k, long long v) {
    key(k);
    buf_ += std::to_string(v);
    return *this;
  }
  Json& boolean(const char* k, bool v) {
    key(k);
    buf_ += v ? "true" : "false";
    return *this;
  }
  Json& str(const char* k, const char* v) {
    key(k);
    buf_ += '"';
    buf_ += v;
    buf_ += '"';
    return *this;
  }
  Json& bytes(const char* k, const Bytes& b) {
    key(k);
    arr(b);
    return *this;
  }
  template <class T>
  Json& nums(const char* k, const std::vector<T>& v) {
    key(k);
    buf_ += '[';
    for (std::size_t i = 0; i < v.size(); ++i) {
      if (i) buf_ += ',';
      buf_ += std::to_string(static_cast<long long>(v[i]));
    }
    buf_ += ']';
    return *this;
  }
  Json& bytes_list(const char* k, const std::vector<Bytes>& v) {
    key(k);
    buf_ += '[';
    for (std::size_t i = 0; i < v.size(); ++i) {
      if (i) buf_ += ',';
      arr(v[i]);
    }
    buf_ += ']';
    return *this;
  }
  Json& raw(const char* k, const std::string& json) {
    key(k);
    buf_ += json;
    return *this;
  }
  void end() {
    buf_ += "}\n";
    std::fwrite(buf_.data(), 1, buf_.size(), f_);
    ++lines_;
  }
  void flush() { std::fflush(f_); }
  long lines() const { return lines_; }

 private:
  void key(const char* k) {
    buf_ += ",\"";
    buf_ += k;
    buf_ += "\":";
  }
  void arr(const Bytes& b) {
    buf_ += '[';
    for (std::size_t i = 0; i < b.size(); ++i) {
      if (i) buf_ += ',';
      buf_ += std::to_string(static_cast<unsigned>(b[i]));
    }
    buf_ += ']';
  }
  FILE* f_;
  std::string buf_;
  long lines_ = 0;
};

// ---------------------------------------------------------------- bytes helpers
inline Bytes u64_to_bytes(std::uint64_t k) {
  Bytes b(8);
  for (int i = 7; i >= 0; --i) {
    b[static_cast<std::size_t>(i)] = static_cast<std::uint8_t>(k & 0xFF);
    k >>= 8;
  }
  return b;
}
inline std::uint64_t bytes_to_u64(const Bytes& b) {
  std::uint64_t k = 0;
  for (std::size_t i = 0; i < 8 && i < b.size(); ++i) k = (k << 8) | b[i];
  return k;
}
inline Bytes span_to_bytes(std::span<const std::byte> s) {
  Bytes b(s.size());
  if (!s.empty()) std::memcpy(b.data(), s.data(), s.size());
  return b;
}
inline std::size_t lcp(const Bytes& a, const Bytes& b) {
  std::size_t i = 0;
  while (i < a.size() && i < b.size() && a[i] == b[i]) ++i;
  return i;
}

// Representation of a value in the trace: the bytes themselves when short,
// otherwise a digest <<256, len lo, len hi, 4 hash bytes, first 2, last 2>>.
inline std::vector<int> value_repr(std::span<const std::byte> v) {
  std::vector<int> r;
  if (v.size() <= 12) {
    for (auto b : v) r.push_back(static_cast<int>(b));
    return r;
  }
  std::uint32_t h = 2166136261U;
  for (auto b : v) {
    h ^= static_cast<std::uint32_t>(b);
    h *= 16777619U;
  }
  r.push_back(256);
  r.push_back(static_cast<int>(v.size() & 0xFFFF));
  r.push_back(static_cast<int>((v.size() >> 16) & 0xFFFF));
  for (int i = 0; i < 4; ++i) r.push_back(static_cast<int>((h >> (8 * i)) & 0xFF));
  r.push_back(static_cast<int>(v[0]));
  r.push_back(static_cast<int>(v[1]));
  r.push_back(static_cast<int>(v[v.size() - 2]));
  r.push_back(static_cast<int>(v[v.size() - 1]));
  return r;
}

// ---------------------------------------------------------------- allocation registry
// Fed by the heap hooks.  Thread-safe (a plain mutex; only used by drivers
// that do not schedule at heap events).
struct AllocRegistry {
  std::mutex mu;
  std::unordered_map<const void*, std::size_t> live;
  std::size_t held_bytes = 0;
  std::size_t allocs = 0, frees = 0, unknown_frees = 0;
  void on_alloc(const void* p, std::size_t sz) {
    const std::lock_guard g{mu};
    live[p] = sz;
    held_bytes += sz;
    ++allocs;
  }
  void on_free(const void* p) {
    if (p == nullptr) return;
    const std::lock_guard g{mu};
    auto it = live.find(p);
    if (it == live.end()) {
      ++unknown_frees;
      return;
    }
    held_bytes -= it->second;
    live.erase(it);
    ++frees;
  }
  std::size_t held() {
    const std::lock_guard g{mu};
    return held_bytes;
  }
  std::size_t blocks() {
    const std::lock_guard g{mu};
    return live.size();
  }
};

}  // namespace vh

#endif
