// Exact live-heap accounting for the fault-enumeration builds (C08): the link
// uses -Wl,--wrap=malloc,... so every allocation made by code compiled into
// the driver (the header-only library included) is counted; allocations made
// inside shared libraries (e.g. exception objects) are not.
#include <malloc.h>

#include <atomic>
#include <cstddef>
#include <cstdlib>

extern "C" {
void* __real_malloc(std::size_t);
void __real_free(void*);
void* __real_calloc(std::size_t, std::size_t);
void* __real_realloc(void*, std::size_t);
int __real_posix_memalign(void**, std::size_t, std::size_t);
void* __real_aligned_alloc(std::size_t, std::size_t);

static std::atomic<long> g_live{0};
static std::atomic<long> g_count{0};
// optional trace of the last calls (debugging aid): +size / -size
long vh_trace[64];
int vh_trace_n = 0;
int vh_trace_on = 0;
// accounting is suspended while the harness's own monitors allocate
int vh_pause = 0;
static void tr(long v) {
  if (vh_pause) return;
  if (vh_trace_on && vh_trace_n < 64) vh_trace[vh_trace_n++] = v;
}

long vh_live_bytes() { return g_live.load(std::memory_order_relaxed); }
long vh_live_blocks() { return g_count.load(std::memory_order_relaxed); }

void* __wrap_malloc(std::size_t n) {
  void* p = __real_malloc(n);
  if (p) {
    if (!vh_pause) g_live += static_cast<long>(malloc_usable_size(p));
    tr(static_cast<long>(malloc_usable_size(p)));
    if (!vh_pause) ++g_count;
  }
  return p;
}
void __wrap_free(void* p) {
  if (p) {
    tr(-static_cast<long>(malloc_usable_size(p)));
    if (!vh_pause) g_live -= static_cast<long>(malloc_usable_size(p));
    if (!vh_pause) --g_count;
  }
  __real_free(p);
}
void* __wrap_calloc(std::size_t a, std::size_t b) {
  void* p = __real_calloc(a, b);
  if (p) {
    if (!vh_pause) g_live += static_cast<long>(malloc_usable_size(p));
    if (!vh_pause) ++g_count;
  }
  return p;
}
void* __wrap_realloc(void* q, std::size_t n) {
  if (q) {
    if (!vh_pause) g_live -= static_cast<long>(malloc_usable_size(q));
    if (!vh_pause) --g_count;
  }
  void* p = __real_realloc(q, n);
  if (p) {
    if (!vh_pause) g_live += static_cast<long>(malloc_usable_size(p));
    if (!vh_pause) ++g_count;
  } else if (q && n != 0) {
    if (!vh_pause) g_live += static_cast<long>(malloc_usable_size(q));
    if (!vh_pause) ++g_count;
  }
  return p;
}
int __wrap_posix_memalign(void** out, std::size_t al, std::size_t n) {
  const int r = __real_posix_memalign(out, al, n);
  if (r == 0 && *out) {
    tr(100000 + static_cast<long>(malloc_usable_size(*out)));
    if (!vh_pause) g_live += static_cast<long>(malloc_usable_size(*out));
    if (!vh_pause) ++g_count;
  }
  return r;
}
void* __wrap_aligned_alloc(std::size_t al, std::size_t n) {
  void* p = __real_aligned_alloc(al, n);
  if (p) {
    if (!vh_pause) g_live += static_cast<long>(malloc_usable_size(p));
    if (!vh_pause) ++g_count;
  }
  return p;
}
}
