// lock_driver: replays behaviours of spec/OptLock.tla, step by step, into a
// real unodb::optimistic_lock guarding two in_critical_section<uint64_t>
// words, with real threads under the baton scheduler (every atomic access is
// a scheduling point).  After every step it prints the observable state; the
// comparison with the state TLC predicted is done by tools/check_lock.py.
//
// input (stdin or file), one behaviour per line:
//   <threads> <sections> <tid><code> <tid><code> ...
// codes: BR BW BO (Begin with kind), L load, P spin, 1 read d1, C check,
//        2 read d2, U try_read_unlock, G upgrade, X write d1, Y write d2,
//        V write_unlock, O write_unlock_and_obsolete.   tid is 1-based.
// output, one line per behaviour:
//   R <nsteps_done> <lockstep_ok 0|1> then per step: "|t pend word d1 d2 out r1 r2 ver"
// mode --random N: seeded random schedules of random programs, recorded in the same
// format but with the action codes inferred from the pending hook.
#include "common.hpp"
#include "sched.hpp"

#include <sstream>
#include <deque>
#include <iostream>

#include "optimistic_lock.hpp"

using unodb::verif::ev;

namespace {

struct Shared {
  unodb::optimistic_lock lock;
  unodb::in_critical_section<std::uint64_t> d1{0};
  unodb::in_critical_section<std::uint64_t> d2{0};
  // Where the lock word lives inside the object is learnt from the hooks (the address passed with the first
  // L_LOAD of a probing read section), not assumed from the class layout.
  const void* word_addr = nullptr;
  static inline const void* probe_addr = nullptr;
  static void probe_cb(ev e, const void* a, std::uint64_t) noexcept {
    if (e == ev::L_LOAD && probe_addr == nullptr) probe_addr = a;
  }
  Shared() {
    probe_addr = nullptr;
    const auto prev = unodb::verif::g_hook.exchange(&Shared::probe_cb);
    {
      auto rcs = lock.try_read_lock();
      (void)rcs.try_read_unlock();
    }
    unodb::verif::g_hook.store(prev);
    word_addr = probe_addr != nullptr ? probe_addr : static_cast<const void*>(&lock);
  }
  std::uint64_t raw_word() const {
    std::uint64_t w;
    std::memcpy(&w, word_addr, sizeof w);
    return w;
  }
  // --word-offset: the execution starts from a lock that has already seen offset/4 write sections (a legitimate
  // state of any long-lived lock); the reported words are relative to it, so the specification's small versions
  // apply unchanged.  With an offset just below 2^32 the words cross the 32-bit boundary during the run.
  static inline std::uint64_t offset = 0;
  void preset() {
    if (offset != 0) std::memcpy(const_cast<void*>(word_addr), &offset, sizeof offset);
  }
  std::uint64_t word() const {
    const auto w = raw_word();
    return w == 1 ? 1 : w - offset;
  }
};

struct Local {
  const char* out = "none";
  std::uint64_t r1 = 0, r2 = 0, ver = 0;
};

void section(Shared& s, Local& l, char k) {
  l.out = "none";
  auto rcs = s.lock.try_read_lock();  // L_LOAD (SPIN while write-locked)
  if (rcs.must_restart()) {
    l.out = "obsolete";
    return;
  }
  l.out = "locked";
  l.ver = rcs.get();
  l.r1 = s.d1.load();  // F_LOAD
  if (k == 'R') {
    if (!rcs.check()) {  // L_CHECK
      l.out = "check_fail";
      return;
    }
    l.out = "check_ok";
  }
  l.r2 = s.d2.load();  // F_LOAD
  if (k == 'R') {
    l.out = rcs.try_read_unlock() ? "unlock_ok" : "unlock_fail";  // L_CHECK
    return;
  }
  unodb::optimistic_lock::write_guard wg{std::move(rcs)};  // L_CAS
  if (wg.must_restart()) {
    l.out = "upgrade_fail";
    return;
  }
  l.out = "upgrade_ok";
  s.d1.store(l.r1 + 1);  // F_STORE
  s.d2.store(l.r1 + 1);  // F_STORE
  if (k == 'W') {
    wg.unlock();  // L_UNLOCK
    l.out = "unlocked";
  } else {
    wg.unlock_and_obsolete();  // L_OBSOLETE
    l.out = "obsoleted";
  }
}

const char* pend_name(const vs::Pending& p) {
  switch (p.pk) {
    case vs::pkind::START: return "START";
    case vs::pkind::CHOICE: return "CHOICE";
    case vs::pkind::USER: return "USER";
    case vs::pkind::FINISHED: return "FINISHED";
    case vs::pkind::HOOK: break;
  }
  switch (p.kind) {
    case ev::L_LOAD: return "L_LOAD";
    case ev::L_CHECK: return "L_CHECK";
    case ev::L_CAS: return "L_CAS";
    case ev::L_UNLOCK: return "L_UNLOCK";
    case ev::L_OBSOLETE: return "L_OBSOLETE";
    case ev::F_LOAD: return "F_LOAD";
    case ev::F_STORE: return "F_STORE";
    case ev::SPIN: return "SPIN";
    default: return "OTHER";
  }
}

const char* expected_pend(char code) {
  switch (code) {
    case 'B': return "CHOICE";
    case 'L': return "L_LOAD";
    case 'P': return "SPIN";
    case '1': case '2': return "F_LOAD";
    case 'C': case 'U': return "L_CHECK";
    case 'G': return "L_CAS";
    case 'X': case 'Y': return "F_STORE";
    case 'V': return "L_UNLOCK";
    case 'O': return "L_OBSOLETE";
    default: return "?";
  }
}

struct Step {
  int t;
  char code;
  char kind;
};

void run_behaviour(int nthreads, int nsections, const std::vector<Step>& steps, vh::Rng* rng, int random_steps,
                   std::string& outline) {
  auto sh = std::make_unique<Shared>();
  sh->preset();
  std::vector<Local> locals(static_cast<std::size_t>(nthreads));
  vs::Sched sched(&vs::Sched::every_access);
  for (int t = 0; t < nthreads; ++t) {
    sched.add_thread(
        [&, t]() {
          for (int i = 0; i < nsections; ++i) {
            const int c = vs::Sched::choose();
            section(*sh, locals[static_cast<std::size_t>(t)], static_cast<char>(c));
          }
        },
        false);
    sched.step(t);  // START -> first CHOICE
  }
  std::ostringstream os;
  int done = 0;
  bool lockstep = true;
  auto emit = [&](int t, const char* pend) {
    const auto& l = locals[static_cast<std::size_t>(t)];
    os << "|" << (t + 1) << ' ' << pend << ' ' << sh->word() << ' ' << sh->d1.load() << ' ' << sh->d2.load() << ' '
       << l.out << ' ' << l.r1 << ' ' << l.r2 << ' ' << (l.ver >= Shared::offset ? l.ver - Shared::offset : l.ver);
  };
  if (rng == nullptr) {
    // Lockstep with the spec behaviour as long as the code's step structure
    // agrees with it.  After a divergence the rest of the behaviour is still
    // executed as a schedule (thread ids only; section kinds queue up), so that
    // the interleaving TLC chose is applied to whatever the code does instead;
    // those steps are judged by LockTrace.tla, not by the state graph.
    std::vector<std::deque<char>> kinds(static_cast<std::size_t>(nthreads));
    for (const auto& st : steps) {
      const int t = st.t - 1;
      auto& kq = kinds[static_cast<std::size_t>(t)];
      if (lockstep) {
        const bool fin = sched.finished(t);
        const char* pn = fin ? "FINISHED" : pend_name(sched.pending(t));
        if (std::strcmp(pn, expected_pend(st.code)) == 0) {
          if (st.code == 'B') sched.tcb(t).choice = st.kind;
          sched.step(t);
          ++done;
          emit(t, pn);
          continue;
        }
        lockstep = false;  // divergence in step structure: reported, judged by the checker
      }
      if (st.code == 'B') kq.push_back(st.kind);
      if (sched.finished(t)) continue;
      const char* pn = pend_name(sched.pending(t));
      if (sched.pending(t).pk == vs::pkind::CHOICE) {
        sched.tcb(t).choice = kq.empty() ? 'R' : kq.front();
        if (!kq.empty()) kq.pop_front();
      }
      sched.step(t);
      emit(t, pn);
    }
  } else {
    // random schedule of random programs; codes are inferred from the pending point
    // per run: how sticky the scheduler is (narrow windows need one thread to
    // run several accesses in a row) and how often a section ends in obsolete
    const std::uint64_t stick = rng->below(4);       // keep the thread with probability 0, 1/2, 3/4, 7/8
    const std::uint64_t obs_in_10 = 1 + rng->below(3);  // 10%..30% of sections
    int t = static_cast<int>(rng->below(static_cast<std::uint64_t>(nthreads)));
    for (int i = 0; i < random_steps && !sched.all_finished(); ++i) {
      if (stick == 0 || rng->below(1ULL << stick) == 0 || sched.finished(t) ||
          pend_name(sched.pending(t))[0] == 'S')
        t = static_cast<int>(rng->below(static_cast<std::uint64_t>(nthreads)));
      while (sched.finished(t)) t = (t + 1) % nthreads;
      const char* pn = pend_name(sched.pending(t));
      if (sched.pending(t).pk == vs::pkind::CHOICE) {
        const char kinds[3] = {'R', 'W', 'O'};
        const auto r = rng->below(10);
        sched.tcb(t).choice = kinds[r < obs_in_10 ? 2 : r < 5 ? 1 : 0];
        os << "|c" << static_cast<char>(sched.tcb(t).choice);
      }
      sched.step(t);
      ++done;
      emit(t, pn);
    }
  }
  // drain: finish every thread (round-robin so that spinners see their writer leave)
  long guard = 0;
  while (!sched.all_finished() && guard++ < 100000) {
    for (int t = 0; t < nthreads; ++t) {
      if (sched.finished(t)) continue;
      const char* pn = pend_name(sched.pending(t));
      if (sched.pending(t).pk == vs::pkind::CHOICE) sched.tcb(t).choice = 'R';
      sched.step(t);
      if (guard < 2000) emit(t, pn);
    }
  }
  const bool hung = !sched.all_finished();
  if (hung) {
    // cannot join: report and bail out of the process
    std::printf("R %d 0 HUNG%s\n", done, os.str().c_str());
    std::fflush(stdout);
    _exit(3);
  }
  sched.join_all();
  os << "|F " << sh->word() << ' ' << sh->d1.load() << ' ' << sh->d2.load();
  outline = "R " + std::to_string(done) + (lockstep ? " 1" : " 0") + os.str();
}

}  // namespace

int main(int argc, char** argv) {
  const char* inp = nullptr;
  long random_n = 0;
  std::uint64_t seed = 1;
  int rthreads = 3, rsections = 3;
  for (int i = 1; i < argc; ++i) {
    const std::string a = argv[i];
    if (a == "--in" && i + 1 < argc) inp = argv[++i];
    else if (a == "--random" && i + 1 < argc) random_n = std::atol(argv[++i]);
    else if (a == "--seed" && i + 1 < argc) seed = std::strtoull(argv[++i], nullptr, 10);
    else if (a == "--threads" && i + 1 < argc) rthreads = std::atoi(argv[++i]);
    else if (a == "--sections" && i + 1 < argc) rsections = std::atoi(argv[++i]);
    else if (a == "--word-offset" && i + 1 < argc) Shared::offset = std::strtoull(argv[++i], nullptr, 10);
  }
#ifdef NDEBUG
  std::printf("H ndebug\n");
#else
  std::printf("H debug\n");
#endif
  std::string line, out;
  if (random_n > 0) {
    vh::Rng rng(seed);
    for (long i = 0; i < random_n; ++i) {
      run_behaviour(rthreads, rsections, {}, &rng, 400, out);
      std::printf("%d %d %s\n", rthreads, rsections, out.c_str());
    }
    return 0;
  }
  FILE* f = inp ? std::fopen(inp, "r") : stdin;
  if (!f) return 2;
  std::vector<char> buf(1 << 20);
  while (std::fgets(buf.data(), static_cast<int>(buf.size()), f)) {
    std::istringstream is(buf.data());
    int nt = 0, ns = 0;
    is >> nt >> ns;
    std::vector<Step> steps;
    std::string tok;
    while (is >> tok) {
      Step s{};
      if (tok.size() < 2) continue;
      s.t = tok[0] - '0';  // thread ids are single digits
      s.code = tok[1];
      s.kind = (s.code == 'B' && tok.size() > 2) ? tok[2] : 0;
      steps.push_back(s);
    }
    run_behaviour(nt, ns, steps, nullptr, 0, out);
    std::puts(out.c_str());
  }
  return 0;
}
