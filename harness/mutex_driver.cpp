// mutex_driver: free-running std::threads against ONE real unodb::mutex_db,
// recorded as call/ret/hold/drop events for validation against
// spec/MutexTrace.tla (property C13).
//
// Build-time selection: -DMUTEX_KEY=0|1 (std::uint64_t, unodb::key_view).
//
// One process = many runs; one run = one small history (fresh index, 2-8
// threads, 20-60 calls in total) introduced by a "reset" event.
//
// Real-time order: ONE global atomic counter.  A call event takes its stamp
// BEFORE the method is invoked, a ret event AFTER it returned, a drop event
// BEFORE the get_result is let go.  Events are buffered per thread and merged
// by stamp when every thread has been joined, so "a before b in the file"
// is implied by "a happened before b" and never the other way round; no wall
// clock is involved.
//
// Driver rules the trace specification relies on:
//   * a thread issues no call while it holds a get_result;
//   * every get is followed by a drop event; after a hit the thread first
//     re-reads the value bytes through the returned view a few times (hold
//     events) while the other threads keep calling;
//   * the driver never judges: it logs what it saw (results, owns_lock(),
//     bytes).  Generation (thread count, keys, operations, perturbation) is a
//     function of the seed only; the schedule is the operating system's.
//
// A run that does not finish within the watchdog period is reported on stderr
// as "HANG ..." and the process exits with 75; a fatal signal is reported as
// "CRASH ..." and exit code 70.  Completed runs are already in the file.
#include "common.hpp"

#include <array>
#include <chrono>
#include <csignal>
#include <memory>
#include <thread>
#include <unistd.h>

#include "art.hpp"
#include "mutex_art.hpp"

#ifndef MUTEX_KEY
#define MUTEX_KEY 0
#endif

using vh::Bytes;

#if MUTEX_KEY == 0
using KeyT = std::uint64_t;
static const char* const kKeyName = "u64";
#else
using KeyT = unodb::key_view;
static const char* const kKeyName = "kv";
#endif
using DbT = unodb::mutex_db<KeyT, unodb::value_view>;

constexpr int kMaxThreads = 8;

enum OpKind : std::uint8_t { INS, REM, GET, EMPTY, CLEAR, SCAN, LEAVES };
static const char* const kOpNames[] = {"ins", "rem", "get", "empty", "clear", "scan", "leaves"};
enum EvKind : std::uint8_t { E_CALL, E_RET, E_HOLD, E_DROP };

// ------------------------------------------------------------------ plan (generated from the seed)
struct Delay {
  std::uint8_t kind = 0;  // 0 none, 1 yield, 2 spin, 3 sleep (microseconds)
  std::uint16_t n = 0;
};
struct Op {
  OpKind kind = GET;
  int k = 0;
  Bytes v;
  bool fwd = true;
  Delay before;
  std::array<Delay, 4> hold{};
  int nreads = 0;
};

// ------------------------------------------------------------------ events
struct Event {
  std::uint64_t seq = 0;
  EvKind e = E_CALL;
  std::uint8_t t = 0;
  OpKind op = GET;
  int k = 0;
  bool fwd = true;
  bool res = false;
  bool owns = false;
  bool has_val = false;
  long long n = 0;                 // leaves: the reported leaf count
  std::vector<int> val;            // value bytes (ins argument, get result, re-read)
  std::vector<int> ks;             // scan: key ids in visiting order
  std::vector<std::vector<int>> vs;  // scan: values in visiting order
};

// The stamp counter.  External linkage and compiler barriers around every
// stamp: mutex_db::get is declared [[gnu::pure]], and a "pure" call must not
// be moved across the stamps by the optimiser.
std::atomic<std::uint64_t> g_seq{0};
#define STAMP_BARRIER() asm volatile("" ::: "memory")
static inline std::uint64_t stamp() {
  STAMP_BARRIER();
  const auto s = g_seq.fetch_add(1, std::memory_order_seq_cst);
  STAMP_BARRIER();
  return s;
}
static std::atomic<int> g_ready{0};
static std::atomic<bool> g_go{false};
static std::atomic<int> g_done{0};

// crash / hang attribution
static std::atomic<int> g_run{-1};
static std::array<std::atomic<int>, kMaxThreads + 1> g_cur_op{};   // -1 = between calls
static std::array<std::atomic<int>, kMaxThreads + 1> g_ncalls{};
static thread_local int tl_thread = 0;

static void crash_handler(int sig) {
  char buf[160];
  const int t = tl_thread;
  const int op = (t >= 0 && t <= kMaxThreads) ? g_cur_op[static_cast<std::size_t>(t)].load() : -1;
  const int n = std::snprintf(buf, sizeof buf, "CRASH sig=%d run=%d thread=%d op=%s\n", sig, g_run.load(), t,
                              op >= 0 && op <= LEAVES ? kOpNames[op] : "none");
  if (n > 0) (void)!write(2, buf, static_cast<std::size_t>(n));
  _exit(70);
}

static inline void perturb(const Delay& d) {
  switch (d.kind) {
    case 1:
      std::this_thread::yield();
      break;
    case 2:
      for (unsigned i = 0; i < d.n; ++i) __builtin_ia32_pause();
      break;
    case 3:
      std::this_thread::sleep_for(std::chrono::microseconds(d.n));
      break;
    default:
      break;
  }
}

static std::vector<int> value_bytes(unodb::value_view v) {
  // values written by this driver have 0..8 bytes; anything longer is logged in
  // a form that cannot be mistaken for one of them
  std::vector<int> r;
  if (v.size() <= 12) {
    for (const auto b : v) r.push_back(static_cast<int>(b));
  } else {
    r.push_back(256);
    r.push_back(static_cast<int>(v.size() & 0x7FFF));
    for (std::size_t i = 0; i < 4; ++i) r.push_back(static_cast<int>(v[i]));
  }
  return r;
}

// ------------------------------------------------------------------ one run
struct Run {
  int nt = 2;
  int nk = 4;
  int profile = 0;  // 0 mix, 1 hammer (hot key, readers and writers), 2 tight (no perturbation)
  std::vector<Bytes> keys;               // id -> encoded (binary-comparable) key, ascending
  std::map<Bytes, int> key_id;           // encoded key -> id
  std::vector<std::uint64_t> keys_u64;
  std::array<std::vector<Op>, kMaxThreads + 1> plan;
  std::array<std::vector<Event>, kMaxThreads + 1> log;
};

static KeyT make_key(const Run& r, int id) {
#if MUTEX_KEY == 0
  return r.keys_u64[static_cast<std::size_t>(id)];
#else
  const auto& b = r.keys[static_cast<std::size_t>(id)];
  return KeyT{reinterpret_cast<const std::byte*>(b.data()), b.size()};
#endif
}

static Delay gen_delay(vh::Rng& rng, int profile, bool in_hold) {
  Delay d;
  if ((profile == 2 || profile == 3) && !in_hold) return d;  // tight loops
  const auto c = rng.below(100);
  if (in_hold) {
    // the hold phase must be long enough for another thread to complete whole
    // calls if nothing stopped it
    if (c < 35) {
      d.kind = 1;
    } else if (c < 85) {
      d.kind = 2;
      d.n = static_cast<std::uint16_t>(50 + rng.below(3000));
    } else if (c < 93) {
      d.kind = 3;
      d.n = static_cast<std::uint16_t>(1 + rng.below(60));
    } else {
      d.kind = 2;
      d.n = static_cast<std::uint16_t>(1 + rng.below(30));
    }
    return d;
  }
  if (c < 45) return d;
  if (c < 65) {
    d.kind = 1;
  } else if (c < 97) {
    d.kind = 2;
    d.n = static_cast<std::uint16_t>(1 + rng.below(rng.chance(20) ? 2000 : 120));
  } else {
    d.kind = 3;
    d.n = static_cast<std::uint16_t>(1 + rng.below(30));
  }
  return d;
}

static void generate(Run& r, std::uint64_t seed, long run_no, int fixed_threads, int fixed_calls) {
  vh::Rng rng(seed * 1000003ULL + static_cast<std::uint64_t>(run_no) * 7919ULL + 11);
  r.nt = fixed_threads > 0 ? fixed_threads : 2 + static_cast<int>(rng.below(7));
  static const int nks[] = {4, 4, 4, 5, 6, 8, 12, 16};
  r.nk = nks[rng.below(8)];
  r.profile = static_cast<int>(rng.below(10));
  // 0 mix, 1 hammer, 2 tight, 3 stats (observers of the statistics against builders / clearers)
  r.profile = r.profile < 4 ? 0 : r.profile < 7 ? 1 : r.profile < 8 ? 2 : 3;
  int total = fixed_calls > 0 ? fixed_calls : 20 + static_cast<int>(rng.below(41));
  // keys: ascending with the id; several layouts so that the tree has different shapes
  std::vector<std::uint64_t> ks;
  const auto layout = rng.below(4);
  std::uint64_t base = layout == 0 ? 0 : rng.next() >> (8 * rng.below(8));
  for (int i = 0; i < r.nk; ++i) {
    std::uint64_t k = 0;
    switch (layout) {
      case 0: k = static_cast<std::uint64_t>(i); break;                              // dense
      case 1: k = base + static_cast<std::uint64_t>(i) * 0x0101; break;              // two levels
      case 2: k = (static_cast<std::uint64_t>(i) + 1) << (8 * (static_cast<unsigned>(i) % 8)); break;
      default: k = rng.next(); break;
    }
    ks.push_back(k);
  }
  std::sort(ks.begin(), ks.end());
  ks.erase(std::unique(ks.begin(), ks.end()), ks.end());
  while (static_cast<int>(ks.size()) < r.nk) {  // collisions in random layouts
    ks.push_back(ks.back() + 1 + rng.below(1000));
    std::sort(ks.begin(), ks.end());
    ks.erase(std::unique(ks.begin(), ks.end()), ks.end());
  }
  r.keys_u64 = ks;
  r.keys.clear();
  r.key_id.clear();
  for (int i = 0; i < r.nk; ++i) {
    r.keys.push_back(vh::u64_to_bytes(ks[static_cast<std::size_t>(i)]));
    r.key_id[r.keys.back()] = i;
  }
  const int hot = static_cast<int>(rng.below(static_cast<std::uint64_t>(r.nk)));
  const int hot2 = static_cast<int>(rng.below(static_cast<std::uint64_t>(r.nk)));
  const int per_thread = std::max(3, total / r.nt);
  for (int t = 1; t <= r.nt; ++t) {
    vh::Rng tr(seed * 7777ULL + static_cast<std::uint64_t>(run_no) * 131ULL + static_cast<std::uint64_t>(t) * 17ULL);
    auto& plan = r.plan[static_cast<std::size_t>(t)];
    plan.clear();
    // hammer profile: odd threads mostly read the hot key, even threads mostly
    // remove it and insert it again with another value
    const bool reader = r.profile == 1 && (t % 2 == 1);
    const bool writer = r.profile == 1 && !reader;
    // stats profile: ONE builder (thread 2) that fills the index and clears it again, everybody else observes:
    // with no other mutator pending, a count from the middle of the builder's bookkeeping has no explanation
    const bool builder = r.profile == 3 && t == 2;
    const bool observer = r.profile == 3 && !builder;
    unsigned counter = 0;
    const int my_calls = builder ? 16 : observer ? 10 : per_thread;
    for (int i = 0; i < my_calls; ++i) {
      Op op;
      const auto c = tr.below(100);
      if (observer)
        op.kind = c < 70 ? LEAVES : c < 88 ? EMPTY : GET;
      else if (builder)
        op.kind = (i % 8) < 6 ? INS : (i % 8) == 6 ? (c < 50 ? REM : INS) : CLEAR;
      else if (reader)
        op.kind = c < 56 ? GET : c < 68 ? INS : c < 78 ? REM : c < 84 ? EMPTY : c < 90 ? LEAVES : c < 97 ? SCAN : CLEAR;
      else if (writer)
        op.kind = c < 42 ? INS : c < 78 ? REM : c < 87 ? GET : c < 90 ? EMPTY : c < 94 ? LEAVES : c < 97 ? SCAN : CLEAR;
      else
        op.kind = c < 32 ? INS : c < 54 ? REM : c < 78 ? GET : c < 83 ? EMPTY : c < 90 ? LEAVES : c < 96 ? SCAN : CLEAR;
      const auto kc = tr.below(100);
      if (builder)
        op.k = (i * 5 + static_cast<int>(tr.below(2))) % r.nk;   // mostly distinct keys: clear() has work to do
      else if (r.profile == 3)
        op.k = static_cast<int>(tr.below(static_cast<std::uint64_t>(r.nk)));
      else if (r.profile == 1)
        op.k = kc < 70 ? hot : kc < 85 ? hot2 : static_cast<int>(tr.below(static_cast<std::uint64_t>(r.nk)));
      else
        op.k = kc < 35 ? hot : static_cast<int>(tr.below(static_cast<std::uint64_t>(r.nk)));
      if (op.kind == INS) {
        // distinguishable per (thread, counter); 3..8 bytes -- and, one in seven, a
        // short value of 0..2 bytes (an empty value is a value: a hit on it pins too)
        ++counter;
        const std::size_t len = tr.below(7) == 0 ? tr.below(3) : 3 + tr.below(6);
        op.v = {static_cast<std::uint8_t>(t), static_cast<std::uint8_t>(counter & 0xFF),
                static_cast<std::uint8_t>(0xA0 + (run_no & 0xF))};
        op.v.resize(std::min<std::size_t>(len, 3));
        while (op.v.size() < len) op.v.push_back(static_cast<std::uint8_t>(op.v.size() * 31 + counter + 16 * static_cast<unsigned>(t)));
      }
      op.fwd = tr.chance(70);
      op.before = gen_delay(tr, r.profile, false);
      if (observer) {
        // spread the observations over the builder's lifetime (its critical sections are held open for up to
        // 300 us per heap event)
        op.before.kind = 3;
        op.before.n = static_cast<std::uint16_t>(40 + tr.below(500));
      }
      op.nreads = 2 + static_cast<int>(tr.below(3));
      for (auto& d : op.hold) d = gen_delay(tr, r.profile, true);
      plan.push_back(std::move(op));
    }
  }
}

// Timing perturbation INSIDE the index's critical sections: the heap notifications (allocate / free) fire
// while a mutator is in the middle of its bookkeeping (clear() un-counting leaves one by one, a growing
// insert with the new node counted and the old one not yet un-counted); a short pause there lets the
// other threads run into that window -- where they must be waiting for the mutex.
static std::atomic<std::uint64_t> g_calls_completed{0};
static std::atomic<int> g_perturb_cs{0};   // 0 off, 1 light, 2 heavy (profile "stats")
static thread_local std::uint64_t tl_hook_rng = 0x9E3779B97F4A7C15ULL;
static void heap_hook(unodb::verif::ev e, const void*, std::uint64_t) noexcept {
  if (e != unodb::verif::ev::H_ALLOC && e != unodb::verif::ev::H_FREE) return;
  const int level = g_perturb_cs.load(std::memory_order_relaxed);
  if (level == 0 || tl_thread == 0) return;
  tl_hook_rng ^= tl_hook_rng << 13;
  tl_hook_rng ^= tl_hook_rng >> 7;
  tl_hook_rng ^= tl_hook_rng << 17;
  const auto c = tl_hook_rng % 16;
  if (level == 2 && c < 8) {
    // profile "stats": hold the critical section open until some other thread has completed a whole call
    // (it cannot, if that call waits for the mutex as it must) or 300 us have passed
    const auto seen = g_calls_completed.load(std::memory_order_acquire);
    const auto t0 = std::chrono::steady_clock::now();
    while (g_calls_completed.load(std::memory_order_acquire) == seen &&
           std::chrono::steady_clock::now() - t0 < std::chrono::microseconds(300))
      std::this_thread::yield();
  } else if (level == 1 && c == 3) {
    std::this_thread::sleep_for(std::chrono::microseconds(20 + (tl_hook_rng >> 20) % 120));
  } else if (c >= 13) {
    std::this_thread::yield();
  }
}

static void worker(DbT* db, Run* run, int t) {
  tl_thread = t;
  tl_hook_rng = 0x9E3779B97F4A7C15ULL * static_cast<std::uint64_t>(t + 1) + static_cast<std::uint64_t>(g_run.load()) * 1000003ULL;
  auto& log = run->log[static_cast<std::size_t>(t)];
  const auto& plan = run->plan[static_cast<std::size_t>(t)];
  auto& cur = g_cur_op[static_cast<std::size_t>(t)];
  g_ready.fetch_add(1);
  while (!g_go.load(std::memory_order_acquire)) __builtin_ia32_pause();
  for (const auto& op : plan) {
    perturb(op.before);
    Event c;
    c.e = E_CALL;
    c.t = static_cast<std::uint8_t>(t);
    c.op = op.kind;
    c.k = op.k;
    c.fwd = op.fwd;
    if (op.kind == INS)
      for (auto b : op.v) c.val.push_back(b);
    Event r;
    r.e = E_RET;
    r.t = c.t;
    r.op = op.kind;
    cur.store(op.kind, std::memory_order_relaxed);
    switch (op.kind) {
      case INS: {
        const KeyT key = make_key(*run, op.k);
        const unodb::value_view v{reinterpret_cast<const std::byte*>(op.v.data()), op.v.size()};
        c.seq = stamp();
        const bool res = db->insert(key, v);
        r.seq = stamp();
        r.res = res;
        log.push_back(std::move(c));
        log.push_back(std::move(r));
        break;
      }
      case REM: {
        const KeyT key = make_key(*run, op.k);
        c.seq = stamp();
        const bool res = db->remove(key);
        r.seq = stamp();
        r.res = res;
        log.push_back(std::move(c));
        log.push_back(std::move(r));
        break;
      }
      case EMPTY: {
        c.seq = stamp();
        const bool res = db->empty();
        r.seq = stamp();
        r.res = res;
        log.push_back(std::move(c));
        log.push_back(std::move(r));
        break;
      }
      case LEAVES: {
        // a statistics getter: must report the number of entries of some moment at which it owned the mutex
        c.seq = stamp();
        const auto n = db->template get_node_count<unodb::node_type::LEAF>();
        r.seq = stamp();
        r.res = true;
        r.n = static_cast<long long>(n);
        log.push_back(std::move(c));
        log.push_back(std::move(r));
        break;
      }
      case CLEAR: {
        c.seq = stamp();
        db->clear();
        r.seq = stamp();
        r.res = true;
        log.push_back(std::move(c));
        log.push_back(std::move(r));
        break;
      }
      case SCAN: {
        auto fn = [&](const auto& v) {
          const auto kb = vh::span_to_bytes(v.get_key());
          const auto it = run->key_id.find(kb);
          r.ks.push_back(it == run->key_id.end() ? -1 : it->second);
          r.vs.push_back(value_bytes(v.get_value()));
          return false;
        };
        c.seq = stamp();
        db->scan(fn, op.fwd);
        r.seq = stamp();
        r.res = true;
        log.push_back(std::move(c));
        log.push_back(std::move(r));
        break;
      }
      case GET: {
        const KeyT key = make_key(*run, op.k);
        c.seq = stamp();
        {
          const auto result = db->get(key);
          r.seq = stamp();
          r.res = result.first.has_value();
          r.owns = result.second.owns_lock();
          if (r.res) {
            r.has_val = true;
            r.val = value_bytes(*result.first);
          }
          log.push_back(std::move(c));
          log.push_back(std::move(r));
          if (result.first.has_value()) {
            // hold phase: the view must keep showing the same bytes while the
            // other threads go on calling
            for (int i = 0; i < op.nreads; ++i) {
              perturb(op.hold[static_cast<std::size_t>(i)]);
              Event h;
              h.e = E_HOLD;
              h.t = static_cast<std::uint8_t>(t);
              h.val = value_bytes(*result.first);
              h.seq = stamp();
              log.push_back(std::move(h));
            }
          }
          Event d;
          d.e = E_DROP;
          d.t = static_cast<std::uint8_t>(t);
          d.seq = stamp();  // before the handle is let go
          log.push_back(std::move(d));
        }  // get_result destroyed here: unlocks iff it owns the mutex
        break;
      }
    }
    cur.store(-1, std::memory_order_relaxed);
    g_ncalls[static_cast<std::size_t>(t)].fetch_add(1, std::memory_order_relaxed);
    g_calls_completed.fetch_add(1, std::memory_order_release);
  }
  g_done.fetch_add(1);
}

static void write_event(vh::Json& out, const Event& e) {
  static const char* const names[] = {"call", "ret", "hold", "drop"};
  out.begin(names[e.e]).num("t", e.t);
  switch (e.e) {
    case E_CALL:
      out.str("op", kOpNames[e.op]);
      if (e.op == INS || e.op == REM || e.op == GET) out.num("k", e.k);
      if (e.op == INS) out.nums("v", e.val);
      if (e.op == SCAN) out.boolean("fwd", e.fwd);
      break;
    case E_RET:
      out.boolean("res", e.res);
      if (e.op == GET) {
        if (e.has_val) out.nums("val", e.val);
        out.boolean("owns", e.owns);
      }
      if (e.op == LEAVES) out.num("n", e.n);
      if (e.op == SCAN) {
        out.nums("ks", e.ks);
        std::string s = "[";
        for (std::size_t i = 0; i < e.vs.size(); ++i) {
          if (i) s += ',';
          s += '[';
          for (std::size_t j = 0; j < e.vs[i].size(); ++j) {
            if (j) s += ',';
            s += std::to_string(e.vs[i][j]);
          }
          s += ']';
        }
        s += ']';
        out.raw("vs", s);
      }
      break;
    case E_HOLD:
      out.nums("val", e.val);
      break;
    case E_DROP:
      break;
  }
  out.num("seq", static_cast<long long>(e.seq));
  out.end();
}

int main(int argc, char** argv) {
  std::uint64_t seed = 1;
  long runs = 20, first_run = 0;
  int threads = 0, calls = 0;
  long watchdog_s = 30;
  const char* outp = nullptr;
  for (int i = 1; i < argc; ++i) {
    const std::string a = argv[i];
    if (a == "--seed" && i + 1 < argc) seed = std::strtoull(argv[++i], nullptr, 10);
    else if (a == "--runs" && i + 1 < argc) runs = std::atol(argv[++i]);
    else if (a == "--first-run" && i + 1 < argc) first_run = std::atol(argv[++i]);
    else if (a == "--threads" && i + 1 < argc) threads = std::atoi(argv[++i]);
    else if (a == "--calls" && i + 1 < argc) calls = std::atoi(argv[++i]);
    else if (a == "--watchdog" && i + 1 < argc) watchdog_s = std::atol(argv[++i]);
    else if (a == "--out" && i + 1 < argc) outp = argv[++i];
    else {
      std::fprintf(stderr, "unknown arg %s\n", a.c_str());
      return 2;
    }
  }
  if (threads > kMaxThreads) threads = kMaxThreads;
  FILE* f = outp ? std::fopen(outp, "w") : stdout;
  if (!f) return 2;
  std::signal(SIGABRT, crash_handler);
  std::signal(SIGSEGV, crash_handler);
  std::signal(SIGBUS, crash_handler);
  std::signal(SIGFPE, crash_handler);
  std::signal(SIGILL, crash_handler);
  unodb::verif::g_hook.store(heap_hook);
  vh::Json out(f);
  out.begin("init").str("db", "mutex").str("key", kKeyName);
#ifdef NDEBUG
  out.boolean("ndebug", true);
#else
  out.boolean("ndebug", false);
#endif
  out.num("seed", static_cast<long long>(seed & 0x7FFFFFFF)).end();
  out.flush();  // a crash handler cannot flush: keep the file well-formed at every point
  static const char* const profiles[] = {"mix", "hammer", "tight", "stats"};
  for (long rn = first_run; rn < first_run + runs; ++rn) {
    auto run = std::make_unique<Run>();
    generate(*run, seed, rn, threads, calls);
    for (int t = 1; t <= run->nt; ++t) {
      run->log[static_cast<std::size_t>(t)].reserve(run->plan[static_cast<std::size_t>(t)].size() * 8);
      g_cur_op[static_cast<std::size_t>(t)].store(-1);
      g_ncalls[static_cast<std::size_t>(t)].store(0);
    }
    g_run.store(static_cast<int>(rn));
    // every second run pauses inside the critical sections (heap notifications)
    g_perturb_cs.store(run->profile == 3 ? 2 : rn % 2 == 1 ? 1 : 0);
    g_seq.store(1);
    g_ready.store(0);
    g_done.store(0);
    g_go.store(false);
    auto db = std::make_unique<DbT>();
    std::vector<std::thread> th;
    for (int t = 1; t <= run->nt; ++t) th.emplace_back(worker, db.get(), run.get(), t);
    while (g_ready.load() < run->nt) std::this_thread::yield();
    g_go.store(true, std::memory_order_release);
    // watchdog: a call that never returns (the mutex was left locked, or the
    // unsynchronised tree was corrupted into a cycle) must not hang the check
    const auto t0 = std::chrono::steady_clock::now();
    while (g_done.load() < run->nt) {
      std::this_thread::sleep_for(std::chrono::microseconds(100));
      if (std::chrono::steady_clock::now() - t0 > std::chrono::seconds(watchdog_s)) {
        std::fprintf(stderr, "HANG run=%ld threads=%d after %lds:", rn, run->nt, watchdog_s);
        for (int t = 1; t <= run->nt; ++t) {
          const int op = g_cur_op[static_cast<std::size_t>(t)].load();
          std::fprintf(stderr, " t%d:%s(after %d calls)", t, op >= 0 ? kOpNames[op] : "done",
                       g_ncalls[static_cast<std::size_t>(t)].load());
        }
        std::fprintf(stderr, "\n");
        // best effort: what the threads had logged when the run got stuck (the
        // buffers never reallocate; blocked threads do not write)
        std::vector<const Event*> part;
        for (int t = 1; t <= run->nt; ++t)
          for (const auto& e : run->log[static_cast<std::size_t>(t)]) part.push_back(&e);
        std::sort(part.begin(), part.end(), [](const Event* a, const Event* b) { return a->seq < b->seq; });
        vh::Json err(stderr);
        std::fprintf(stderr, "PARTIAL-HISTORY (calls without ret are not shown; %zu events)\n", part.size());
        for (std::size_t i = part.size() > 80 ? part.size() - 80 : 0; i < part.size(); ++i) write_event(err, *part[i]);
        std::fflush(stderr);
        std::fflush(f);
        _exit(75);
      }
    }
    for (auto& x : th) x.join();
    g_cur_op[0].store(-1);
    // merge by stamp
    std::vector<const Event*> all;
    for (int t = 1; t <= run->nt; ++t)
      for (const auto& e : run->log[static_cast<std::size_t>(t)]) all.push_back(&e);
    std::sort(all.begin(), all.end(), [](const Event* a, const Event* b) { return a->seq < b->seq; });
    out.begin("reset").num("run", rn).num("nt", run->nt).num("nk", run->nk);
    out.str("prof", profiles[run->profile]).bytes_list("keys", run->keys).end();
    for (const auto* e : all) write_event(out, *e);
    out.flush();
    db.reset();  // destroys the index (single-threaded)
  }
  out.flush();
  if (outp) std::fclose(f);
  return 0;
}
