// olc_driver: concurrent scenarios on a real unodb::olc_db<std::uint64_t> with
// real qsbr_threads under the baton scheduler.  Scheduling points: every
// lock-word access, every spin-wait body, and the first protected-field access
// of a segment (DESIGN.md 2.3).  QSBR atomics do not yield here.
//
// Exploration per scenario:
//   --pb P        every schedule with at most P preemptions (CHESS-style search
//                 over re-executions; non-preemptive default continuation)
//   --random N    N seeded random schedules (switch probability per step)
//   --sched "..." one explicit schedule: "pos:thread,pos:thread,..."
// Every execution runs in a forked child.  Distinct histories are written as
// ndjson for spec/OlcTrace.tla; statistics go to stderr as one JSON line.
//
// scenario file lines:
//   S <name> init=<k>,<k>,... q=each|end
//   T <op> <op> ...        one line per thread; ops:
//     g<k>  i<k>  r<k>  s<f|r>[h<n>]  f<f|r><k>[h<n>]  R<k>-<k>[h<n>]
//   E                      end of scenario
#include "common.hpp"
#include "sched.hpp"

#include <cerrno>
#include <chrono>
#include <csignal>
#include <cstring>
#include <poll.h>
#include <map>
#include <set>
#include <sstream>
#include <sys/wait.h>
#include <unistd.h>
#include <unordered_set>

#include "olc_art.hpp"
#include "qsbr.hpp"

using unodb::verif::ev;
using Db = unodb::olc_db<std::uint64_t, unodb::value_view>;

namespace {

struct OpSpec {
  char kind = 'g';  // g i r s f R
  std::uint64_t k = 0, k2 = 0;
  bool fwd = true;
  int halt = 0;
};
struct Scenario {
  std::string name;
  std::vector<std::uint64_t> init;
  bool q_each = true;
  std::vector<std::vector<OpSpec>> progs;
};

// ---------------------------------------------------------------- block registry / monitors
struct Block {
  std::uintptr_t base;
  std::size_t size;
  int id;
  bool freed;
  std::set<int> touchers;  // threads that touched it since their last quiescent state
  bool published = false;  // its address has been stored into the root slot or into another node
  int holder = -1;         // thread holding its write lock (from the observed lock events)
};

struct Exec {
  const Scenario* sc = nullptr;
  std::string events;
  std::map<std::uintptr_t, Block> blocks;  // by base
  int next_block = 1;
  std::size_t held = 0;
  bool spin_overrun = false;
  long main_spins = 0;

  void log(const std::string& s) {
    events += s;
    events += '\n';
  }
  Block* find(const void* a) {
    const auto u = reinterpret_cast<std::uintptr_t>(a);
    auto it = blocks.upper_bound(u);
    if (it == blocks.begin()) return nullptr;
    --it;
    if (u < it->second.base + it->second.size) return &it->second;
    return nullptr;
  }
  void on_alloc(const void* a, std::size_t sz) {
    const auto u = reinterpret_cast<std::uintptr_t>(a);
    // the allocator reuses addresses: forget freed blocks overlapping the new one
    for (auto it = blocks.begin(); it != blocks.end();) {
      if (it->second.freed && it->second.base < u + sz && u < it->second.base + it->second.size)
        it = blocks.erase(it);
      else
        ++it;
    }
    blocks[u] = Block{u, sz, next_block++, false, {}, false, -1};
    held += sz;
  }
  void on_free(const void* a, int by) {
    if (a == nullptr) return;
    const auto u = reinterpret_cast<std::uintptr_t>(a);
    auto it = blocks.find(u);
    if (it == blocks.end()) return;  // not a tree node (e.g. key buffers of other code)
    if (it->second.freed) {
      log("{\"e\":\"dblfree\",\"b\":" + std::to_string(it->second.id) + "}");
      return;
    }
    std::string ts;
    for (int t : it->second.touchers) {
      if (!ts.empty()) ts += ',';
      ts += std::to_string(t);
    }
    log("{\"e\":\"free\",\"b\":" + std::to_string(it->second.id) + ",\"by\":" + std::to_string(by) + ",\"touchers\":[" + ts + "]}");
    it->second.freed = true;
    held -= it->second.size;
  }
  void on_access(const void* a, int t) {
    Block* b = find(a);
    if (b == nullptr) return;
    if (b->freed) {
      log("{\"e\":\"uaf\",\"t\":" + std::to_string(t) + ",\"b\":" + std::to_string(b->id) + "}");
      return;
    }
    b->touchers.insert(t);
  }
  // --- write discipline (the precondition of C07 as used by the tree): a protected field
  // of a published node (or the root slot) is stored to only by the holder of its write lock
  const void* root_lock_addr = nullptr;
  int root_holder = -1;
  static std::uint64_t word_at(const void* a) {
    std::uint64_t w;
    std::memcpy(&w, a, sizeof w);
    return w;
  }
  void on_cas(const void* a, int t, std::uint64_t expected) {
    if (word_at(a) != expected) return;  // the CAS that follows will fail
    Block* b = find(a);
    if (b != nullptr) b->holder = t;
    else {
      root_lock_addr = a;
      root_holder = t;
    }
  }
  void on_unlock(const void* a, int t) {
    Block* b = find(a);
    if (b != nullptr) {
      if (b->holder == t) b->holder = -1;
    } else if (root_holder == t) {
      root_holder = -1;
    }
  }
  void on_store(const void* a, int t, std::uint64_t v) {
    // a stored tagged node pointer publishes the block it points to
    Block* target = find(reinterpret_cast<const void*>(static_cast<std::uintptr_t>(v & ~static_cast<std::uint64_t>(7))));
    Block* b = find(a);
    if (t != 0) {
      if (b != nullptr) {
        // an obsolete node fails every reader's validation: stores into it are harmless
        if (b->published && !b->freed && b->holder != t && word_at(reinterpret_cast<const void*>(b->base)) != 1)
          log("{\"e\":\"wdisc\",\"t\":" + std::to_string(t) + ",\"b\":" + std::to_string(b->id) + ",\"holder\":" + std::to_string(b->holder) + "}");
      } else if (root_lock_addr != nullptr && root_holder != t) {
        log("{\"e\":\"wdisc\",\"t\":" + std::to_string(t) + ",\"b\":0,\"holder\":" + std::to_string(root_holder) + "}");
      }
    }
    if (target != nullptr && target->base == static_cast<std::uintptr_t>(v & ~static_cast<std::uint64_t>(7)) && (b == nullptr || b->published || t == 0))
      target->published = true;
  }
  void on_quiescent(int t) {
    for (auto& kv : blocks) kv.second.touchers.erase(t);
  }
};

Exec* g_ex = nullptr;

void observer(vs::TCB* tcb, ev e, const void* a, std::uint64_t v) {
  if (g_ex == nullptr) return;
  const int t = tcb ? tcb->id + 1 : 0;
  switch (e) {
    case ev::H_ALLOC:
      g_ex->on_alloc(a, static_cast<std::size_t>(v));
      break;
    case ev::H_FREE:
      g_ex->on_free(a, t);
      break;
    case ev::L_CAS:
      g_ex->on_access(a, t);
      g_ex->on_cas(a, t, v);
      break;
    case ev::L_UNLOCK:
    case ev::L_OBSOLETE:
      g_ex->on_access(a, t);
      g_ex->on_unlock(a, t);
      break;
    case ev::F_STORE:
      g_ex->on_access(a, t);
      g_ex->on_store(a, t, v);
      break;
    case ev::L_LOAD:
    case ev::L_CHECK:
    case ev::F_LOAD:
      g_ex->on_access(a, t);
      break;
    case ev::SPIN:
      if (tcb == nullptr && ++g_ex->main_spins > 20000) {
        // the single-threaded sweep waits for a lock nobody will release (C14)
        g_ex->log("{\"e\":\"stuck\",\"where\":\"sweep\"}");
        std::string out = g_ex->events;
        (void)!write(3, out.data(), out.size());
        _exit(0);
      }
      break;
    default:
      break;
  }
}

// segment policy
bool policy(vs::TCB& t, ev e, const void*, std::uint64_t) {
  switch (e) {
    case ev::L_LOAD:
    case ev::L_CHECK:
    case ev::L_CAS:
    case ev::L_UNLOCK:
    case ev::L_OBSOLETE:
    case ev::SPIN:
      t.in_segment = false;
      return true;
    case ev::F_LOAD:
    case ev::F_STORE:
      if (t.in_segment) return false;
      t.in_segment = true;
      return true;
    default:
      return false;
  }
}
bool policy_fine(vs::TCB& t, ev e, const void* a, std::uint64_t v) {
  if (e == ev::F_LOAD || e == ev::F_STORE) return true;
  return policy(t, e, a, v);
}

// ---------------------------------------------------------------- values
std::array<std::byte, 2> val_bytes(int id) {
  return {static_cast<std::byte>(id & 0xFF), static_cast<std::byte>((id >> 8) & 0xFF)};
}
int val_id(std::span<const std::byte> s) {
  if (s.size() != 2) return -2;
  return static_cast<int>(s[0]) | (static_cast<int>(s[1]) << 8);
}
template <class V>
std::span<const std::byte> raw_span(const V& v) {
  return {v.begin().get(), v.size()};
}

struct View {
  std::uint64_t k;
  const std::byte* p;
  std::size_t n;
  int v0;
};

// ---------------------------------------------------------------- thread body
void thread_body(Exec& ex, Db& db, int t, const std::vector<OpSpec>& prog, bool q_each) {
  const std::string ts = std::to_string(t + 1);
  std::vector<View> views;
  vs::Sched::user_point(0);  // the thread's first step starts its first call
  auto quiesce = [&]() {
    for (const auto& w : views)
      ex.log("{\"e\":\"recheck\",\"t\":" + ts + ",\"k\":" + std::to_string(w.k) + ",\"v0\":" + std::to_string(w.v0) +
             ",\"v\":" + std::to_string(val_id({w.p, w.n})) + "}");
    views.clear();
    unodb::this_thread().quiescent();
    ex.on_quiescent(t + 1);
  };
  int opi = 0;
  for (const auto& op : prog) {
    ++opi;
    const int vid = (t + 1) * 100 + opi;
    switch (op.kind) {
      case 'g': {
        ex.log("{\"e\":\"call\",\"t\":" + ts + ",\"op\":\"get\",\"k\":" + std::to_string(op.k) + "}");
        const auto r = db.get(op.k);
        if (r.has_value()) {
          const auto sp = raw_span(*r);
          const int v = val_id(sp);
          views.push_back({op.k, sp.data(), sp.size(), v});
          ex.log("{\"e\":\"ret\",\"t\":" + ts + ",\"r\":true,\"v\":" + std::to_string(v) + "}");
        } else {
          ex.log("{\"e\":\"ret\",\"t\":" + ts + ",\"r\":false}");
        }
        break;
      }
      case 'i': {
        const auto vb = val_bytes(vid);
        ex.log("{\"e\":\"call\",\"t\":" + ts + ",\"op\":\"ins\",\"k\":" + std::to_string(op.k) + ",\"v\":" + std::to_string(vid) + "}");
        const bool r = db.insert(op.k, unodb::value_view{vb.data(), vb.size()});
        ex.log(std::string("{\"e\":\"ret\",\"t\":") + ts + ",\"r\":" + (r ? "true" : "false") + "}");
        break;
      }
      case 'r': {
        ex.log("{\"e\":\"call\",\"t\":" + ts + ",\"op\":\"rem\",\"k\":" + std::to_string(op.k) + "}");
        const bool r = db.remove(op.k);
        ex.log(std::string("{\"e\":\"ret\",\"t\":") + ts + ",\"r\":" + (r ? "true" : "false") + "}");
        break;
      }
      case 's':
      case 'f':
      case 'R': {
        const char* kind = op.kind == 's' ? "all" : op.kind == 'f' ? "from" : "range";
        ex.log("{\"e\":\"scall\",\"t\":" + ts + ",\"kind\":\"" + kind + "\",\"from\":" + std::to_string(op.k) + ",\"to\":" +
               std::to_string(op.k2) + ",\"fwd\":" + (op.fwd ? "true" : "false") + ",\"halt\":" + std::to_string(op.halt) + "}");
        int calls = 0;
        auto fn = [&](const auto& v) {
          ++calls;
          const auto kv = v.get_key();
          std::uint64_t k = 0;
          for (std::size_t i = 0; i < kv.size() && i < 8; ++i) k = (k << 8) | static_cast<std::uint64_t>(kv[i]);
          const auto val = v.get_value();
          const auto sp = raw_span(val);
          const int vv = val_id(sp);
          views.push_back({k, sp.data(), sp.size(), vv});
          ex.log("{\"e\":\"visit\",\"t\":" + ts + ",\"k\":" + std::to_string(k) + ",\"v\":" + std::to_string(vv) + "}");
          return op.halt > 0 && calls == op.halt;
        };
        if (op.kind == 's')
          db.scan(fn, op.fwd);
        else if (op.kind == 'f')
          db.scan_from(op.k, fn, op.fwd);
        else
          db.scan_range(op.k, op.k2, fn);
        ex.log("{\"e\":\"sret\",\"t\":" + ts + "}");
        break;
      }
      default:
        break;
    }
    // quiescent state after every operation but the last: the thread's exit (below) is its
    // final quiescent state, reached with whatever requests are still pending
    if (q_each && opi < static_cast<int>(prog.size())) quiesce();
  }
  // the thread exits: value views are re-read one last time; qsbr_pause() is what the
  // thread-exit path runs (called here so that it happens under the scheduler's control)
  for (const auto& w : views)
    ex.log("{\"e\":\"recheck\",\"t\":" + ts + ",\"k\":" + std::to_string(w.k) + ",\"v0\":" + std::to_string(w.v0) +
           ",\"v\":" + std::to_string(val_id({w.p, w.n})) + "}");
  views.clear();
  unodb::this_thread().qsbr_pause();
  ex.on_quiescent(t + 1);
}

// ---------------------------------------------------------------- one execution (in the child)
struct Switch {
  long pos;
  int thread;
  bool free = false;  // taken where the running thread had just finished: not a preemption
};

struct StepRec {
  int ran;
  unsigned alive;  // bitmask of unfinished threads before the step
};

// exact_len: the first exact_len steps follow sched_in literally (a behaviour of spec/OlcArt.tla, in
// which a spinning thread may keep being scheduled); afterwards a spinning thread lets the others run
void run_exec(const Scenario& sc, const std::vector<Switch>& sched_in, vh::Rng* rng, bool fine, Exec& ex,
              std::vector<StepRec>& steps, long budget, long exact_len = 0) {
  g_ex = &ex;
  ex.sc = &sc;
  vs::Sched sched(fine ? vs::Sched::Policy(policy_fine) : vs::Sched::Policy(policy));
  sched.set_observer(observer);
  auto db = std::make_unique<Db>();
  {
    std::string ks, vs_;
    int i = 0;
    for (auto k : sc.init) {
      const int vid = 9000 + (++i);
      const auto vb = val_bytes(vid);
      (void)db->insert(k, unodb::value_view{vb.data(), vb.size()});
      if (!ks.empty()) {
        ks += ',';
        vs_ += ',';
      }
      ks += std::to_string(k);
      vs_ += std::to_string(vid);
    }
    ex.log("{\"e\":\"reset\",\"keys\":[" + ks + "],\"vals\":[" + vs_ + "],\"threads\":" + std::to_string(sc.progs.size()) + "}");
  }
  unodb::this_thread().quiescent();
  unodb::this_thread().qsbr_pause();
  ex.on_quiescent(0);
  const int n = static_cast<int>(sc.progs.size());
  for (int t = 0; t < n; ++t) {
    sched.add_thread([&ex, &db, &sc, t]() { thread_body(ex, *db, t, sc.progs[static_cast<std::size_t>(t)], sc.q_each); }, true);
    sched.step(t);  // START -> first scheduling point
  }
  // --- the schedule
  int cur = 0;
  std::size_t si = 0;
  long pos = 0;
  auto lowest_unfinished = [&](int after) {
    for (int d = 1; d <= n; ++d) {
      const int u = (after + d) % n;
      if (!sched.finished(u)) return u;
    }
    return -1;
  };
  while (!sched.all_finished()) {
    if (pos >= budget) {
      ex.log("{\"e\":\"budget\",\"steps\":" + std::to_string(pos) + "}");
      std::string out = ex.events;
      (void)!write(3, out.data(), out.size());
      _exit(0);
    }
    if (rng != nullptr) {
      if (rng->chance(15) || sched.finished(cur)) {
        std::vector<int> c;
        for (int t = 0; t < n; ++t)
          if (!sched.finished(t)) c.push_back(t);
        cur = c[rng->below(c.size())];
      }
    } else if (si < sched_in.size() && sched_in[si].pos == pos) {
      if (!sched.finished(sched_in[si].thread)) cur = sched_in[si].thread;
      ++si;
    }
    if (sched.finished(cur)) cur = lowest_unfinished(cur);
    // leaving the literally replayed prefix: a forced schedule may have made a thread spin many times while
    // the lock holder was not scheduled, so the spin counts say nothing about progress yet
    if (exact_len > 0 && pos == exact_len)
      for (int t = 0; t < n; ++t) sched.tcb(t).spin_streak = 0;
    // a thread waiting in a spin loop lets the others run (not a preemption)
    if (pos >= exact_len && sched.tcb(cur).spin_streak > 0) {
      int other = -1;
      bool all_wait = true;
      int min_streak = 1 << 30;
      for (int d = 1; d <= n; ++d) {
        const int u = (cur + d) % n;
        if (sched.finished(u)) continue;
        min_streak = std::min(min_streak, sched.tcb(u).spin_streak);
        if (sched.tcb(u).spin_streak == 0) {
          all_wait = false;
          if (other < 0) other = u;
        }
      }
      if (!all_wait) {
        cur = other;
      } else if (min_streak >= 6) {
        // every unfinished thread has been spinning: nobody can release anything (C14)
        ex.log("{\"e\":\"stuck\",\"where\":\"all threads spinning\"}");
        std::string out = ex.events;
        (void)!write(3, out.data(), out.size());
        _exit(0);
      } else {
        const int nx = lowest_unfinished(cur);
        if (nx >= 0) cur = nx;
      }
    }
    unsigned alive = 0;
    for (int t = 0; t < n; ++t)
      if (!sched.finished(t)) alive |= 1U << t;
    steps.push_back({cur, alive});
    if (std::getenv("OLC_SIGLOG") != nullptr) {
      // ground truth for spec/OlcArt.tla: the scheduling point about to be executed
      const auto& pd = sched.pending(cur);
      static const char* names[] = {"L_LOAD", "L_CHECK", "L_CAS", "L_UNLOCK", "L_OBSOLETE", "F_LOAD", "F_STORE", "SPIN"};
      const char* kn = pd.pk == vs::pkind::HOOK && static_cast<int>(pd.kind) < 8 ? names[static_cast<int>(pd.kind)]
                       : pd.pk == vs::pkind::USER ? "START" : "?";
      Block* b = pd.addr ? ex.find(pd.addr) : nullptr;
      ex.log("{\"e\":\"step\",\"t\":" + std::to_string(cur + 1) + ",\"k\":\"" + kn + "\",\"b\":" +
             std::to_string(b ? b->id : 0) + ",\"off\":" +
             std::to_string(b ? static_cast<long>(reinterpret_cast<std::uintptr_t>(pd.addr) - b->base) : 0) + "}");
    }
    sched.step(cur);
    ++pos;
  }
  sched.join_all();
  // --- single-threaded sweep (C14) and final state
  unodb::this_thread().qsbr_resume();
  std::set<std::uint64_t> universe(sc.init.begin(), sc.init.end());
  for (const auto& p : sc.progs)
    for (const auto& op : p)
      if (op.kind == 'g' || op.kind == 'i' || op.kind == 'r') universe.insert(op.k);
  // point lookups of every key any thread used (a misplaced leaf is found by a scan, not by get)
  std::string gets;
  for (auto k : universe) {
    const auto r = db->get(k);
    if (!gets.empty()) gets += ',';
    gets += "[" + std::to_string(k) + "," + (r.has_value() ? "1," + std::to_string(val_id(raw_span(*r))) : "0,-1") + "]";
  }
  std::string ks, vals;
  long nk = 0;
  db->scan([&](const auto& v) {
    const auto kv = v.get_key();
    std::uint64_t k = 0;
    for (std::size_t i = 0; i < kv.size() && i < 8; ++i) k = (k << 8) | static_cast<std::uint64_t>(kv[i]);
    const auto val = v.get_value();
    if (nk++) {
      ks += ',';
      vals += ',';
    }
    ks += std::to_string(k);
    vals += std::to_string(val_id(raw_span(val)));
    return false;
  });
  long back = 0;
  db->scan([&](const auto&) { ++back; return false; }, false);
  // probes next to every key: every parent gets write-locked once
  {
    const auto vb = val_bytes(1);
    for (auto k : universe) {
      const std::uint64_t probe = k ^ 0x8000U;
      if (universe.count(probe)) continue;
      if (db->insert(probe, unodb::value_view{vb.data(), vb.size()})) (void)db->remove(probe);
    }
  }
  unodb::this_thread().quiescent();
  ex.on_quiescent(0);
  unodb::this_thread().quiescent();
  const auto mem = db->get_current_memory_use();
  const auto held = ex.held;
  std::string st;
  {
    using unodb::node_type;
    st = std::to_string(db->template get_node_count<node_type::LEAF>()) + "," +
         std::to_string(db->template get_node_count<node_type::I4>()) + "," +
         std::to_string(db->template get_node_count<node_type::I16>()) + "," +
         std::to_string(db->template get_node_count<node_type::I48>()) + "," +
         std::to_string(db->template get_node_count<node_type::I256>());
    // growth / shrink counters per class (I4, I16, I48, I256)
    st += "," + std::to_string(db->template get_growing_inode_count<node_type::I4>()) + "," +
          std::to_string(db->template get_growing_inode_count<node_type::I16>()) + "," +
          std::to_string(db->template get_growing_inode_count<node_type::I48>()) + "," +
          std::to_string(db->template get_growing_inode_count<node_type::I256>()) + "," +
          std::to_string(db->template get_shrinking_inode_count<node_type::I4>()) + "," +
          std::to_string(db->template get_shrinking_inode_count<node_type::I16>()) + "," +
          std::to_string(db->template get_shrinking_inode_count<node_type::I48>()) + "," +
          std::to_string(db->template get_shrinking_inode_count<node_type::I256>());
  }
  const std::string sizes = std::to_string(sizeof(unodb::detail::olc_inode_4<std::uint64_t, unodb::value_view>)) + "," +
                            std::to_string(sizeof(unodb::detail::olc_inode_16<std::uint64_t, unodb::value_view>)) + "," +
                            std::to_string(sizeof(unodb::detail::olc_inode_48<std::uint64_t, unodb::value_view>)) + "," +
                            std::to_string(sizeof(unodb::detail::olc_inode_256<std::uint64_t, unodb::value_view>));
  const auto leafbase = Db::leaf_type::compute_size(0, 0);
  db.reset();
  unodb::this_thread().quiescent();
  unodb::this_thread().quiescent();
  ex.log("{\"e\":\"final\",\"keys\":[" + ks + "],\"vals\":[" + vals + "],\"gets\":[" + gets + "],\"held\":" + std::to_string(held) + ",\"mem\":" +
         std::to_string(mem) + ",\"st\":[" + st + "],\"sizes\":[" + sizes + "],\"leafbase\":" + std::to_string(leafbase) + ",\"leaked\":" + std::to_string(ex.held) + ",\"locked\":0,\"back\":" + std::to_string(back) + "}");
  g_ex = nullptr;
}

// ---------------------------------------------------------------- parsing
OpSpec parse_op(const std::string& s) {
  OpSpec o;
  o.kind = s[0];
  const char* p = s.c_str() + 1;
  auto num = [&]() {
    char* e = nullptr;
    const auto v = std::strtoull(p, &e, 10);
    p = e;
    return static_cast<std::uint64_t>(v);
  };
  if (o.kind == 'g' || o.kind == 'i' || o.kind == 'r') {
    o.k = num();
  } else if (o.kind == 's') {
    o.fwd = (*p++ == 'f');
  } else if (o.kind == 'f') {
    o.fwd = (*p++ == 'f');
    o.k = num();
  } else if (o.kind == 'R') {
    o.k = num();
    ++p;  // '-'
    o.k2 = num();
  }
  if (*p == 'h') {
    ++p;
    o.halt = static_cast<int>(num());
  }
  return o;
}

std::vector<Scenario> parse_scenarios(const char* path) {
  std::vector<Scenario> out;
  FILE* f = std::fopen(path, "r");
  if (!f) return out;
  char buf[8192];
  Scenario cur;
  bool open = false;
  while (std::fgets(buf, sizeof buf, f)) {
    std::istringstream is(buf);
    std::string tag;
    is >> tag;
    if (tag == "S") {
      cur = Scenario{};
      open = true;
      is >> cur.name;
      std::string kv;
      while (is >> kv) {
        if (kv.rfind("init=", 0) == 0) {
          std::istringstream ks(kv.substr(5));
          std::string x;
          while (std::getline(ks, x, ','))
            if (!x.empty()) cur.init.push_back(std::strtoull(x.c_str(), nullptr, 10));
        } else if (kv.rfind("q=", 0) == 0) {
          cur.q_each = kv.substr(2) == "each";
        }
      }
    } else if (tag == "T" && open) {
      std::vector<OpSpec> prog;
      std::string op;
      while (is >> op) prog.push_back(parse_op(op));
      cur.progs.push_back(prog);
    } else if (tag == "E" && open) {
      out.push_back(cur);
      open = false;
    }
  }
  std::fclose(f);
  return out;
}

std::uint64_t fnv(const std::string& s) {
  std::uint64_t h = 1469598103934665603ULL;
  for (unsigned char c : s) {
    h ^= c;
    h *= 1099511628211ULL;
  }
  return h;
}

}  // namespace

int main(int argc, char** argv) {
  const char* scen = nullptr;
  const char* evp = nullptr;
  int pb = -1;
  long random_n = 0;
  std::uint64_t seed = 1;
  bool fine = false;
  const char* one_sched = nullptr;
  const char* sched_file = nullptr;  // one schedule per line: "pos:thread,...;<exact_len>"
  long budget = 4000;
  long max_exec = 200000;
  bool keep_all = false;
  for (int i = 1; i < argc; ++i) {
    const std::string a = argv[i];
    if (a == "--scenarios" && i + 1 < argc) scen = argv[++i];
    else if (a == "--events" && i + 1 < argc) evp = argv[++i];
    else if (a == "--pb" && i + 1 < argc) pb = std::atoi(argv[++i]);
    else if (a == "--random" && i + 1 < argc) random_n = std::atol(argv[++i]);
    else if (a == "--seed" && i + 1 < argc) seed = std::strtoull(argv[++i], nullptr, 10);
    else if (a == "--fine") fine = true;
    else if (a == "--sched" && i + 1 < argc) one_sched = argv[++i];
    else if (a == "--sched-file" && i + 1 < argc) sched_file = argv[++i];
    else if (a == "--budget" && i + 1 < argc) budget = std::atol(argv[++i]);
    else if (a == "--max-exec" && i + 1 < argc) max_exec = std::atol(argv[++i]);
    else if (a == "--keep-all") keep_all = true;
  }
  if (!scen) return 2;
  const auto scs = parse_scenarios(scen);
  FILE* evf = evp ? std::fopen(evp, "w") : stdout;
  if (!evf) return 2;
  long total_exec = 0, distinct = 0, crashes = 0;
  std::string per_scenario = "[";

  for (const auto& sc : scs) {
    std::unordered_set<std::uint64_t> seen;
    long sc_exec = 0, sc_distinct = 0;
    // run one execution in a forked child; returns events text and step records
    long exact_len = 0;
    auto run_one = [&](const std::vector<Switch>& sw, vh::Rng* rng, std::string& events, std::vector<StepRec>& steps) {
      int pe[2], ps[2];
      if (pipe(pe) != 0 || pipe(ps) != 0) std::abort();
      std::fflush(nullptr);
      const pid_t pid = fork();
      if (pid == 0) {
        close(pe[0]);
        close(ps[0]);
        dup2(pe[1], 3);  // fd 3: events (also used by the monitors on abnormal ends)
        alarm(20);
        static Exec* sex = nullptr;
        Exec ex;
        sex = &ex;
        // async-signal-safe: no allocation in the handlers (a crash inside malloc/free -- glibc aborting on a
        // corrupted heap -- holds the arena lock; a handler that allocates would wait for it for ever)
        auto die = [](int sig) {
          if (sex) (void)!write(3, sex->events.data(), sex->events.size());
          const char* tail = sig == SIGABRT ? "{\"e\":\"crash\",\"sig\":6}\n"
                             : sig == SIGSEGV ? "{\"e\":\"crash\",\"sig\":11}\n"
                                              : "{\"e\":\"crash\",\"sig\":7}\n";
          (void)!write(3, tail, std::strlen(tail));
          _exit(70);
        };
        std::signal(SIGABRT, die);
        std::signal(SIGSEGV, die);
        std::signal(SIGBUS, die);
        std::signal(SIGALRM, [](int) {
          if (sex) (void)!write(3, sex->events.data(), sex->events.size());
          static const char tail[] = "{\"e\":\"hang\"}\n";
          (void)!write(3, tail, sizeof tail - 1);
          _exit(72);
        });
        std::vector<StepRec> st;
        run_exec(sc, sw, rng, fine, ex, st, budget, exact_len);
        (void)!write(3, ex.events.data(), ex.events.size());
        std::string so;
        for (const auto& r : st) so += std::to_string(r.ran) + ":" + std::to_string(r.alive) + " ";
        so += "\n";
        (void)!write(ps[1], so.data(), so.size());
        _exit(0);
      }
      close(pe[1]);
      close(ps[1]);
      // watchdog on the parent's side as well: a child that neither finishes nor dies within 45 s is killed
      const auto deadline = std::chrono::steady_clock::now() + std::chrono::seconds(45);
      auto slurp = [&](int fd) {
        std::string s;
        char b[65536];
        while (true) {
          struct pollfd pfd {fd, POLLIN, 0};
          const auto left = std::chrono::duration_cast<std::chrono::milliseconds>(deadline - std::chrono::steady_clock::now()).count();
          const int pr = poll(&pfd, 1, left > 0 ? static_cast<int>(left) : 0);
          if (pr == 0) {
            kill(pid, SIGKILL);
            s.resize(s.rfind('\n') == std::string::npos ? 0 : s.rfind('\n') + 1);  // drop a partial line
            if (s.find("\"hang\"") == std::string::npos && s.find("\"crash\"") == std::string::npos) s += "{\"e\":\"hang\"}\n";
            break;
          }
          if (pr < 0) {
            if (errno == EINTR) continue;
            break;
          }
          const ssize_t k = read(fd, b, sizeof b);
          if (k <= 0) break;
          s.append(b, static_cast<std::size_t>(k));
        }
        close(fd);
        return s;
      };
      events = slurp(pe[0]);
      const std::string so = slurp(ps[0]);
      int status = 0;
      waitpid(pid, &status, 0);
      if (!(WIFEXITED(status) && WEXITSTATUS(status) == 0)) {
        ++crashes;
        if (events.find("\"crash\"") == std::string::npos && events.find("\"hang\"") == std::string::npos)
          events += "{\"e\":\"crash\",\"sig\":" + std::to_string(WIFSIGNALED(status) ? WTERMSIG(status) : 1000 + WEXITSTATUS(status)) + "}\n";
      }
      std::istringstream is(so);
      std::string tok;
      while (is >> tok) {
        const auto c = tok.find(':');
        steps.push_back({std::atoi(tok.substr(0, c).c_str()), static_cast<unsigned>(std::atoi(tok.substr(c + 1).c_str()))});
      }
    };
    auto emit = [&](const std::string& events, const std::vector<Switch>& sw) {
      ++sc_exec;
      const auto h = fnv(events);
      if (!keep_all && !seen.insert(h).second) return;
      ++sc_distinct;
      std::string ss;
      for (const auto& s : sw) ss += std::to_string(s.pos) + ":" + std::to_string(s.thread) + ",";
      // the schedule is carried in the reset event (ignored by the spec)
      std::string ev2 = events;
      const auto p = ev2.find("\"threads\"");
      if (p != std::string::npos) ev2.insert(p, "\"scenario\":\"" + sc.name + "\",\"sched\":\"" + ss + "\",");
      std::fwrite(ev2.data(), 1, ev2.size(), evf);
    };

    auto parse_sched = [](const std::string& text) {
      std::vector<Switch> sw;
      std::istringstream is(text);
      std::string tok;
      while (std::getline(is, tok, ',')) {
        const auto c = tok.find(':');
        if (c == std::string::npos) continue;
        sw.push_back({std::atol(tok.substr(0, c).c_str()), std::atoi(tok.substr(c + 1).c_str())});
      }
      return sw;
    };
    if (sched_file != nullptr) {
      // replay of specification behaviours: every line is executed (and kept) in file order
      FILE* sf = std::fopen(sched_file, "r");
      if (!sf) return 2;
      char buf[65536];
      while (std::fgets(buf, sizeof buf, sf)) {
        std::string line(buf);
        while (!line.empty() && (line.back() == '\n' || line.back() == '\r')) line.pop_back();
        if (line.empty()) continue;
        const auto semi = line.find(';');
        exact_len = semi == std::string::npos ? 0 : std::atol(line.c_str() + semi + 1);
        const auto sw = parse_sched(line.substr(0, semi));
        std::string evs;
        std::vector<StepRec> st;
        run_one(sw, nullptr, evs, st);
        emit(evs, sw);
      }
      std::fclose(sf);
      exact_len = 0;
    } else if (one_sched != nullptr) {
      const auto sw = parse_sched(one_sched);
      std::string evs;
      std::vector<StepRec> st;
      run_one(sw, nullptr, evs, st);
      emit(evs, sw);
    } else if (random_n > 0) {
      vh::Rng rng(seed ^ fnv(sc.name));
      for (long i = 0; i < random_n; ++i) {
        vh::Rng r2(rng.next());
        std::string evs;
        std::vector<StepRec> st;
        run_one({}, &r2, evs, st);
        emit(evs, {{-1, static_cast<int>(i)}});
      }
    } else {
      // preemption-bounded search over re-executions
      std::vector<std::vector<Switch>> work;
      const int n = static_cast<int>(sc.progs.size());
      for (int t = 0; t < n; ++t) work.push_back({{0, t}});
      std::size_t wi = 0;
      while (wi < work.size() && sc_exec < max_exec) {
        const auto sw = work[wi++];
        std::string evs;
        std::vector<StepRec> st;
        run_one(sw, nullptr, evs, st);
        emit(evs, sw);
        int used = -1;  // the initial choice is not a preemption
        for (const auto& x : sw)
          if (!x.free) ++used;
        const long from = sw.back().pos + 1;
        for (long i = from; i < static_cast<long>(st.size()); ++i) {
          // where the thread that ran before has finished, the choice of who continues costs nothing (otherwise
          // the explored set would depend on the order in which the scenario lists its threads)
          const bool after_exit =
              i > 0 && !(st[static_cast<std::size_t>(i)].alive & (1U << st[static_cast<std::size_t>(i - 1)].ran));
          if (!after_exit && used >= pb) continue;
          for (int t = 0; t < n; ++t) {
            if (t == st[static_cast<std::size_t>(i)].ran) continue;
            if (!(st[static_cast<std::size_t>(i)].alive & (1U << t))) continue;
            auto child = sw;
            child.push_back({i, t, after_exit});
            work.push_back(std::move(child));
          }
        }
      }
    }
    total_exec += sc_exec;
    distinct += sc_distinct;
    per_scenario += std::string(per_scenario.size() > 1 ? "," : "") + "{\"name\":\"" + sc.name + "\",\"executions\":" + std::to_string(sc_exec) +
                    ",\"distinct_histories\":" + std::to_string(sc_distinct) + "}";
  }
  per_scenario += "]";
  std::fflush(evf);
  if (evp) std::fclose(evf);
  std::fprintf(stderr, "{\"executions\":%ld,\"distinct\":%ld,\"abnormal\":%ld,\"scenarios\":%s}\n", total_exec, distinct, crashes,
               per_scenario.c_str());
  _exit(0);
}
