// C17 driver: real unodb::qsbr_ptr<const std::byte> / qsbr_ptr_span<const std::byte>
// objects in placement-new storage, driven step by step.
//
//   ptr_driver --replay <behaviours.txt> --out <ndjson> --nw W --ns S --nb B --n N
//       spec -> code: executes the behaviours computed from TLC's state graph /
//       simulation (tools/check_ptr.py) and records what the code returned.
//       Input lines:  "B <id>"  begin behaviour (all slots are absent)
//                     "S <op> <x> <y> <z> <u> <probe>"  one call of spec action <op>
//                     "E <probe>" end: remaining objects are destroyed (recorded as
//                               ordinary Destroy/SpanDestroy events, "cl":1)
//       --probe-mod M: only every M-th requested probe is made; the run always ends
//       with both probes in the initial state.
//   ptr_driver --random --seed S --seqs K --ops L --probe-pct P --out <ndjson> --nw .. --n .. [--foreign]
//       code -> spec: seeded random legal call sequences, recorded the same way.
//       --foreign: a second QSBR thread holds a wrapper of its own meanwhile (see below).
//
// After a step the observable state is recorded: get() of every live wrapper
// as (buffer, offset), begin().get() and size() of every live span.  A probe
// (bit 1: quiescent(); bit 2: qsbr_pause() then qsbr_resume()) forks; the child
// makes the call(s) and _exit(0)s, the parent records the signal that killed it
// (6 = assertion) and how far it got.  The driver records, it never judges; the
// only checks it makes are the preconditions of the next call on the *actual*
// values (to stay clear of undefined behaviour); if one fails it records
// "Stuck" and abandons the behaviour.
#include "global.hpp"

#include <fcntl.h>
#include <sys/mman.h>
#include <sys/resource.h>
#include <sys/wait.h>
#include <unistd.h>

#include <atomic>
#include <csignal>
#include <cstddef>
#include <cstdio>
#include <cstdlib>
#include <cstring>
#include <iterator>
#include <new>
#include <span>
#include <string>
#include <thread>
#include <utility>
#include <vector>

#include "common.hpp"
#include "qsbr.hpp"
#include "qsbr_ptr.hpp"

namespace {

// element type of the wrapped buffers (-DPTR_ELEM=n): the specification speaks of positions in a buffer, the
// element size must not matter (seed c17d: a span length computed in bytes)
#ifndef PTR_ELEM
#define PTR_ELEM 0
#endif
#if PTR_ELEM == 0
using Elem = std::byte;
inline Elem mk_elem(int v) { return static_cast<std::byte>(v); }
inline long elem_val(const Elem& e) { return static_cast<long>(e); }
#elif PTR_ELEM == 1
using Elem = std::uint32_t;
inline Elem mk_elem(int v) { return static_cast<std::uint32_t>(v); }
inline long elem_val(const Elem& e) { return static_cast<long>(e); }
#else
struct Elem {   // 24 bytes
  std::uint64_t a;
  std::uint32_t v;
  std::uint32_t b;
  std::uint64_t c;
};
inline Elem mk_elem(int v) { return Elem{0x1111111111111111ULL, static_cast<std::uint32_t>(v), 0x22222222U, 0x3333333333333333ULL}; }
inline long elem_val(const Elem& e) { return static_cast<long>(e.v); }
#endif
using P = unodb::qsbr_ptr<const Elem>;
using S = unodb::qsbr_ptr_span<const Elem>;
using StdSpan = std::span<const Elem>;

constexpr int MAXW = 8, MAXS = 8, MAXB = 4, MAXN = 15, PAD = 64;

int NW = 3, NS = 2, NB = 2, N = 4;

// buffers: far apart (never adjacent), element o of buffer b holds 16 b + o + 1
Elem g_buf[MAXB + 1][MAXN + 1 + PAD];

alignas(P) unsigned char g_wmem[MAXW + 1][sizeof(P)];
alignas(S) unsigned char g_smem[MAXS + 1][sizeof(S)];
bool g_wlive[MAXW + 1], g_slive[MAXS + 1];

P& W(int d) { return *std::launder(reinterpret_cast<P*>(g_wmem[d])); }
S& SP(int t) { return *std::launder(reinterpret_cast<S*>(g_smem[t])); }

struct Loc {
  int b, o;  // (0,0) null; (-1, x) not inside any buffer
};

Loc loc(const Elem* p) {
  if (p == nullptr) return {0, 0};
  for (int b = 1; b <= NB; ++b) {
    const Elem* base = &g_buf[b][0];
    if (p >= base && p <= base + N) return {b, static_cast<int>(p - base)};
  }
  return {-1, static_cast<int>(reinterpret_cast<std::uintptr_t>(p) & 0xFFFF)};
}
const Elem* addr(int b, int o) { return b == 0 ? nullptr : &g_buf[b][0] + o; }

Loc wloc(int d) { return loc(W(d).get()); }
Loc sloc(int t) { return loc(SP(t).begin().get()); }

enum Op {
  Construct, DefaultConstruct, CopyConstruct, MoveConstruct, Destroy, CopyAssign, MoveAssign,
  PreInc, PreDec, PostInc, PostDec, AddAssign, SubAssign, Plus, IntPlus, Minus, Diff,
  Eq, Ne, Lt, Le, Gt, Ge, Deref, Index, Arrow,
  SpanFromStd, SpanDefault, SpanCopy, SpanMove, SpanCopyAssign, SpanMoveAssign, SpanDestroy,
  SpanBegin, SpanEnd, SpanSize, SpanElems, NOPS
};
const char* const OPN[NOPS] = {
    "Construct", "DefaultConstruct", "CopyConstruct", "MoveConstruct", "Destroy", "CopyAssign",
    "MoveAssign", "PreInc", "PreDec", "PostInc", "PostDec", "AddAssign", "SubAssign", "Plus",
    "IntPlus", "Minus", "Diff", "Eq", "Ne", "Lt", "Le", "Gt", "Ge", "Deref", "Index", "Arrow",
    "SpanFromStd", "SpanDefault", "SpanCopy", "SpanMove", "SpanCopyAssign", "SpanMoveAssign",
    "SpanDestroy", "SpanBegin", "SpanEnd", "SpanSize", "SpanElems"};

int op_by_name(const char* s) {
  for (int i = 0; i < NOPS; ++i)
    if (std::strcmp(s, OPN[i]) == 0) return i;
  return -1;
}

bool wl(int d) { return d >= 1 && d <= NW && g_wlive[d]; }
bool wf(int d) { return d >= 1 && d <= NW && !g_wlive[d]; }
bool sl(int t) { return t >= 1 && t <= NS && g_slive[t]; }
bool sf(int t) { return t >= 1 && t <= NS && !g_slive[t]; }
bool can_add(Loc p, int n) {
  if (p.b < 0) return false;
  if (p.b == 0) return n == 0;
  return p.o + n >= 0 && p.o + n <= N;
}
bool same_array(Loc p, Loc q) {
  if (p.b < 0 || q.b < 0) return false;
  return p.b == q.b;  // both null, or the same buffer
}
bool can_deref(Loc p, int n) { return p.b > 0 && p.o + n >= 0 && p.o + n < N; }
bool span_usable(int t) {  // not moved-from, start inside a buffer, length fits
  const Loc p = sloc(t);
  const auto n = SP(t).size();
  if (p.b < 0) return false;
  if (p.b == 0) return n == 0;
  return n <= static_cast<std::size_t>(N - p.o);
}

// precondition of the call on the actual values (defined behaviour on raw pointers)
bool legal(int op, int x, int y, int z, int u) {
  switch (op) {
    case Construct: return wf(x) && ((y == 0 && z == 0) || (y >= 1 && y <= NB && z >= 0 && z <= N));
    case DefaultConstruct: return wf(x);
    case CopyConstruct: case MoveConstruct: return wf(x) && wl(y);
    case Destroy: return wl(x);
    case CopyAssign: case MoveAssign: return x != y && wl(x) && wl(y);
    case PreInc: return wl(x) && wloc(x).b > 0 && can_add(wloc(x), 1);
    case PreDec: return wl(x) && wloc(x).b > 0 && can_add(wloc(x), -1);
    case PostInc: return wl(x) && wf(y) && wloc(x).b > 0 && can_add(wloc(x), 1);
    case PostDec: return wl(x) && wf(y) && wloc(x).b > 0 && can_add(wloc(x), -1);
    case AddAssign: return wl(x) && can_add(wloc(x), z);
    case SubAssign: return wl(x) && can_add(wloc(x), -z);
    case Plus: case IntPlus: return wf(x) && wl(y) && can_add(wloc(y), z);
    case Minus: return wf(x) && wl(y) && can_add(wloc(y), -z);
    case Diff: case Lt: case Le: case Gt: case Ge:
      return wl(x) && wl(y) && same_array(wloc(x), wloc(y));
    case Eq: case Ne: return wl(x) && wl(y);
    case Deref: return wl(x) && can_deref(wloc(x), 0);
    case Index: return wl(x) && can_deref(wloc(x), z);
    case Arrow: return wl(x);
    case SpanFromStd:
      return sf(x) && ((y == 0 && z == 0 && u == 0) ||
                       (y >= 1 && y <= NB && z >= 0 && z <= N && u >= 0 && u <= N - z));
    case SpanDefault: return sf(x);
    case SpanCopy: case SpanMove: return sf(x) && sl(y);
    case SpanCopyAssign: case SpanMoveAssign: return x != y && sl(x) && sl(y);
    case SpanDestroy: return sl(x);
    case SpanBegin: return wf(x) && sl(y);
    case SpanEnd: return wf(x) && sl(y) && span_usable(y);
    case SpanSize: case SpanElems: return sl(x) && span_usable(x);
    default: return false;
  }
}

// ---------------------------------------------------------------- recording
FILE* g_out = nullptr;
long g_bid = 0, g_i = 0;
const char* volatile g_cur_op = "none";

void log_state(vh::Json& j) {
  std::string ws = "[";
  for (int d = 1; d <= NW; ++d) {
    if (d > 1) ws += ',';
    if (g_wlive[d]) {
      const Loc p = wloc(d);
      ws += "[1," + std::to_string(p.b) + "," + std::to_string(p.o) + "]";
    } else {
      ws += "[0,0,0]";
    }
  }
  ws += "]";
  std::string ss = "[";
  for (int t = 1; t <= NS; ++t) {
    if (t > 1) ss += ',';
    if (g_slive[t]) {
      const Loc p = sloc(t);
      const auto n = SP(t).size();
      ss += "[1," + std::to_string(p.b) + "," + std::to_string(p.o) + "," +
            std::to_string(n > 1000000 ? 1000000 : static_cast<long>(n)) + "]";
    } else {
      ss += "[0,0,0,0]";
    }
  }
  ss += "]";
  j.raw("w", ws).raw("s", ss);
}

// One call of the wrapper API.  res: the call's value(s); ref: 1/0 whether the
// returned reference is the object itself, -1 when the call returns no reference.
void execute(int op, int x, int y, int z, int u, std::vector<long>& res, int& ref) {
  ref = -1;
  switch (op) {
    case Construct: new (g_wmem[x]) P(addr(y, z)); g_wlive[x] = true; break;
    case DefaultConstruct: new (g_wmem[x]) P(); g_wlive[x] = true; break;
    case CopyConstruct: new (g_wmem[x]) P(std::as_const(W(y))); g_wlive[x] = true; break;
    case MoveConstruct: new (g_wmem[x]) P(std::move(W(y))); g_wlive[x] = true; break;
    case Destroy: W(x).~P(); g_wlive[x] = false; break;
    case CopyAssign: { P& r = (W(x) = std::as_const(W(y))); ref = (&r == &W(x)); break; }
    case MoveAssign: { P& r = (W(x) = std::move(W(y))); ref = (&r == &W(x)); break; }
    case PreInc: { P& r = ++W(x); ref = (&r == &W(x)); break; }
    case PreDec: { P& r = --W(x); ref = (&r == &W(x)); break; }
    case PostInc: new (g_wmem[y]) P(W(x)++); g_wlive[y] = true; break;
    case PostDec: new (g_wmem[y]) P(W(x)--); g_wlive[y] = true; break;
    case AddAssign: { P& r = (W(x) += z); ref = (&r == &W(x)); break; }
    case SubAssign: { P& r = (W(x) -= z); ref = (&r == &W(x)); break; }
    case Plus: new (g_wmem[x]) P(std::as_const(W(y)) + z); g_wlive[x] = true; break;
    case IntPlus: new (g_wmem[x]) P(static_cast<std::ptrdiff_t>(z) + std::as_const(W(y))); g_wlive[x] = true; break;
    case Minus: new (g_wmem[x]) P(std::as_const(W(y)) - static_cast<std::ptrdiff_t>(z)); g_wlive[x] = true; break;
    case Diff: res.push_back(static_cast<long>(W(x) - W(y))); break;
    case Eq: res.push_back(W(x) == W(y) ? 1 : 0); break;
    case Ne: res.push_back(W(x) != W(y) ? 1 : 0); break;
    case Lt: res.push_back(W(x) < W(y) ? 1 : 0); break;
    case Le: res.push_back(W(x) <= W(y) ? 1 : 0); break;
    case Gt: res.push_back(W(x) > W(y) ? 1 : 0); break;
    case Ge: res.push_back(W(x) >= W(y) ? 1 : 0); break;
    case Deref: res.push_back(elem_val(*W(x))); break;
    case Index: res.push_back(elem_val(W(x)[z])); break;
    case Arrow: {
      const Loc p = loc(W(x).operator->());
      res.push_back(p.b);
      res.push_back(p.o);
      break;
    }
    case SpanFromStd: {
      const StdSpan s = (y == 0) ? StdSpan{} : StdSpan{addr(y, z), static_cast<std::size_t>(u)};
      new (g_smem[x]) S(s);
      g_slive[x] = true;
      break;
    }
    case SpanDefault: new (g_smem[x]) S(); g_slive[x] = true; break;
    case SpanCopy: new (g_smem[x]) S(std::as_const(SP(y))); g_slive[x] = true; break;
    case SpanMove: new (g_smem[x]) S(std::move(SP(y))); g_slive[x] = true; break;
    case SpanCopyAssign: { S& r = (SP(x) = std::as_const(SP(y))); ref = (&r == &SP(x)); break; }
    case SpanMoveAssign: { S& r = (SP(x) = std::move(SP(y))); ref = (&r == &SP(x)); break; }
    case SpanDestroy: SP(x).~S(); g_slive[x] = false; break;
    case SpanBegin: new (g_wmem[x]) P(std::as_const(SP(y)).begin()); g_wlive[x] = true; break;
    case SpanEnd: new (g_wmem[x]) P(std::as_const(SP(y)).end()); g_wlive[x] = true; break;
    case SpanSize: res.push_back(static_cast<long>(SP(x).size())); break;
    case SpanElems: {
      // the element sequence as a range-for sees it: begin(), end(), !=, ++, *
      int guard = 0;
      for (const Elem& e : std::as_const(SP(x))) {
        res.push_back(elem_val(e));
        if (++guard > 4 * MAXN) break;
      }
      break;
    }
    default: break;
  }
}

struct Shared {
  volatile int stage;
};
Shared* g_shared = nullptr;

// kind 1: quiescent(); kind 2: qsbr_pause(), qsbr_resume()
void probe(vh::Json& j, int kind) {
  std::fflush(g_out);
  g_shared->stage = 0;
  const pid_t pid = fork();
  if (pid < 0) {
    std::perror("fork");
    std::_Exit(2);
  }
  if (pid == 0) {
    std::signal(SIGABRT, SIG_DFL);
    const int fd = open("/dev/null", 1);
    if (fd >= 0) dup2(fd, 2);
    if (kind == 1) {
      unodb::this_thread().quiescent();
      g_shared->stage = 1;
    } else {
      unodb::this_thread().qsbr_pause();
      g_shared->stage = 1;
      unodb::this_thread().qsbr_resume();
      g_shared->stage = 2;
    }
    _exit(0);
  }
  int st = 0;
  while (waitpid(pid, &st, 0) < 0) {
  }
  const int sig = WIFSIGNALED(st) ? WTERMSIG(st) : 0;
  const int code = WIFEXITED(st) ? WEXITSTATUS(st) : -1;
  j.begin("Probe").str("k", kind == 1 ? "q" : "p").num("sig", sig).num("stage", g_shared->stage)
      .num("exit", code).num("bid", g_bid).num("i", g_i).end();
}

bool step(vh::Json& j, int op, int x, int y, int z, int u, int probes, bool cleanup) {
  if (!legal(op, x, y, z, u)) {
    j.begin("Stuck").str("op", OPN[op]).num("x", x).num("y", y).num("z", z).num("u", u)
        .num("bid", g_bid).num("i", g_i);
    log_state(j);
    j.end();
    return false;
  }
  g_cur_op = OPN[op];
  std::vector<long> res;
  int ref = -1;
  execute(op, x, y, z, u, res, ref);
  j.begin(OPN[op]).num("x", x).num("y", y).num("z", z).num("u", u).nums("res", res).num("ref", ref);
  log_state(j);
  j.num("bid", g_bid).num("i", g_i);
  if (cleanup) j.num("cl", 1);
  j.end();
  g_cur_op = "none";
  if (probes & 1) probe(j, 1);
  if (probes & 2) probe(j, 2);
  ++g_i;
  return true;
}

void cleanup(vh::Json& j, int final_probes) {
  for (int t = 1; t <= NS; ++t)
    if (g_slive[t]) step(j, SpanDestroy, t, 0, 0, 0, 0, true);
  for (int d = 1; d <= NW; ++d)
    if (g_wlive[d]) step(j, Destroy, d, 0, 0, 0, 0, true);
  if (final_probes & 1) probe(j, 1);
  if (final_probes & 2) probe(j, 2);
}

void crash_handler(int sig) {
  if (g_out != nullptr) {
    std::fprintf(g_out, "{\"e\":\"Crash\",\"sig\":%d,\"op\":\"%s\",\"bid\":%ld,\"i\":%ld}\n", sig, g_cur_op, g_bid, g_i);
    std::fflush(g_out);
  }
  std::fprintf(stderr, "CRASH sig=%d op=%s bid=%ld i=%ld\n", sig, g_cur_op, g_bid, g_i);
  _exit(3);
}

// ---------------------------------------------------------------- foreign thread
// --foreign: a second QSBR thread keeps a non-null wrapper of its own alive while the
// main thread runs; on every tick it destroys it, passes through a quiescent state of
// its own (whatever the main thread holds at that moment) and creates it again.  The
// registries are per thread: neither thread's verdicts may depend on the other's wrappers.
std::atomic<int> g_f_req{0}, g_f_ack{0};
std::atomic<bool> g_f_stop{false};

void foreign_body() {
  int seen = 0;
  {
    P mine{&g_buf[1][0]};
    g_f_ack.store(-1);
    while (!g_f_stop.load()) {
      const int r = g_f_req.load();
      if (r == seen) {
        std::this_thread::yield();
        continue;
      }
      seen = r;
      {
        P gone{std::move(mine)};
      }
      unodb::this_thread().quiescent();
      mine = P{&g_buf[1][0] + (r % (N + 1))};
      g_f_ack.store(r);
    }
  }
  unodb::this_thread().quiescent();
}

void foreign_tick(vh::Json& j) {
  const int r = g_f_req.load() + 1;
  g_f_req.store(r);
  while (g_f_ack.load() != r) std::this_thread::yield();
  j.begin("Foreign").num("tick", r).num("bid", g_bid).num("i", g_i).end();
}

// ---------------------------------------------------------------- random generator
struct Cand {
  int op, x, y, z, u;
};

int pick_w(vh::Rng& rng, bool live) {
  int c[MAXW + 1], n = 0;
  for (int d = 1; d <= NW; ++d)
    if (g_wlive[d] == live) c[n++] = d;
  return n == 0 ? 0 : c[rng.below(static_cast<unsigned>(n))];
}
int pick_s(vh::Rng& rng, bool live) {
  int c[MAXS + 1], n = 0;
  for (int t = 1; t <= NS; ++t)
    if (g_slive[t] == live) c[n++] = t;
  return n == 0 ? 0 : c[rng.below(static_cast<unsigned>(n))];
}
// an offset n with can_add(p, sign * n), uniformly; 0 if there is none but 0
int pick_off(vh::Rng& rng, Loc p, int sign) {
  if (p.b <= 0) return 0;
  const int lo = -p.o, hi = N - p.o;  // p + k legal for k in lo..hi
  const int k = lo + static_cast<int>(rng.below(static_cast<unsigned>(hi - lo + 1)));
  return sign * k;
}

// Chooses the next call: the operation uniformly, its operands among those for
// which the call is defined on the actual values.  When the operation needs a
// free slot and none is left, a destruction is chosen instead.
bool random_step(vh::Rng& rng, Cand& c) {
  for (int tries = 0; tries < 400; ++tries) {
    c = Cand{static_cast<int>(rng.below(NOPS)), 0, 0, 0, 0};
    switch (c.op) {
      case Construct: case DefaultConstruct: case CopyConstruct: case MoveConstruct:
      case Plus: case IntPlus: case Minus: case SpanBegin: case SpanEnd:
        c.x = pick_w(rng, false);
        if (c.x == 0) c = Cand{Destroy, pick_w(rng, true), 0, 0, 0};
        break;
      case PostInc: case PostDec:
        c.y = pick_w(rng, false);
        if (c.y == 0) c = Cand{Destroy, pick_w(rng, true), 0, 0, 0};
        break;
      case SpanFromStd: case SpanDefault: case SpanCopy: case SpanMove:
        c.x = pick_s(rng, false);
        if (c.x == 0) c = Cand{SpanDestroy, pick_s(rng, true), 0, 0, 0};
        break;
      case Destroy: case SpanDestroy:
        if (rng.chance(60)) continue;  // created objects should live for a while
        break;
      default: break;
    }
    switch (c.op) {
      case Construct:
        c.y = rng.chance(12) ? 0 : 1 + static_cast<int>(rng.below(static_cast<unsigned>(NB)));
        c.z = c.y == 0 ? 0 : static_cast<int>(rng.below(static_cast<unsigned>(N + 1)));
        break;
      case DefaultConstruct: break;
      case CopyConstruct: case MoveConstruct: c.y = pick_w(rng, true); break;
      case Destroy: if (c.x == 0) c.x = pick_w(rng, true); break;
      case CopyAssign: case MoveAssign: case Diff: case Eq: case Ne: case Lt: case Le: case Gt: case Ge:
        c.x = pick_w(rng, true);
        c.y = pick_w(rng, true);
        break;
      case PreInc: case PreDec: case Deref: case Arrow: c.x = pick_w(rng, true); break;
      case PostInc: case PostDec: c.x = pick_w(rng, true); break;
      case AddAssign: c.x = pick_w(rng, true); if (c.x) c.z = pick_off(rng, wloc(c.x), 1); break;
      case SubAssign: c.x = pick_w(rng, true); if (c.x) c.z = pick_off(rng, wloc(c.x), -1); break;
      case Index:
        c.x = pick_w(rng, true);
        if (c.x) c.z = pick_off(rng, wloc(c.x), 1);
        break;
      case Plus: case IntPlus: c.y = pick_w(rng, true); if (c.y) c.z = pick_off(rng, wloc(c.y), 1); break;
      case Minus: c.y = pick_w(rng, true); if (c.y) c.z = pick_off(rng, wloc(c.y), -1); break;
      case SpanFromStd:
        c.y = rng.chance(10) ? 0 : 1 + static_cast<int>(rng.below(static_cast<unsigned>(NB)));
        if (c.y != 0) {
          c.z = static_cast<int>(rng.below(static_cast<unsigned>(N + 1)));
          c.u = static_cast<int>(rng.below(static_cast<unsigned>(N - c.z + 1)));
        }
        break;
      case SpanDefault: break;
      case SpanCopy: case SpanMove: c.y = pick_s(rng, true); break;
      case SpanCopyAssign: case SpanMoveAssign: c.x = pick_s(rng, true); c.y = pick_s(rng, true); break;
      case SpanDestroy: if (c.x == 0) c.x = pick_s(rng, true); break;
      case SpanBegin: case SpanEnd: c.y = pick_s(rng, true); break;
      case SpanSize: case SpanElems: c.x = pick_s(rng, true); break;
      default: break;
    }
    if (legal(c.op, c.x, c.y, c.z, c.u)) return true;
  }
  return false;
}

}  // namespace

int main(int argc, char** argv) {
  std::uint64_t seed = 1;
  long seqs = 10, nops = 100;
  unsigned probe_pct = 100;
  long probe_mod = 1, probe_ctr = 0;  // replay: only every probe_mod-th requested probe is made
  const char* outp = nullptr;
  const char* replay = nullptr;
  bool random_mode = false, foreign = false;
  for (int i = 1; i < argc; ++i) {
    const std::string a = argv[i];
    auto val = [&]() { return (i + 1 < argc) ? argv[++i] : "0"; };
    if (a == "--seed") seed = std::strtoull(val(), nullptr, 10);
    else if (a == "--seqs") seqs = std::atol(val());
    else if (a == "--ops") nops = std::atol(val());
    else if (a == "--probe-mod") probe_mod = std::atol(val());
    else if (a == "--probe-pct") probe_pct = static_cast<unsigned>(std::atol(val()));
    else if (a == "--out") outp = val();
    else if (a == "--replay") replay = val();
    else if (a == "--random") random_mode = true;
    else if (a == "--foreign") foreign = true;
    else if (a == "--nw") NW = std::atoi(val());
    else if (a == "--ns") NS = std::atoi(val());
    else if (a == "--nb") NB = std::atoi(val());
    else if (a == "--n") N = std::atoi(val());
    else {
      std::fprintf(stderr, "unknown arg %s\n", a.c_str());
      return 2;
    }
  }
  if (NW < 0 || NW > MAXW || NS < 0 || NS > MAXS || NB < 1 || NB > MAXB || N < 1 || N > MAXN) return 2;
  if (!random_mode && replay == nullptr) return 2;
  FILE* f = outp ? std::fopen(outp, "w") : stdout;
  if (!f) return 2;
  g_out = f;
  struct rlimit rl {0, 0};
  setrlimit(RLIMIT_CORE, &rl);
  g_shared = static_cast<Shared*>(mmap(nullptr, 4096, PROT_READ | PROT_WRITE, MAP_SHARED | MAP_ANONYMOUS, -1, 0));
  if (g_shared == MAP_FAILED) return 2;
  for (int b = 1; b <= MAXB; ++b)
    for (int o = 0; o < MAXN + 1 + PAD; ++o) g_buf[b][o] = mk_elem(o < N ? 16 * b + o + 1 : 0xEE);
  std::signal(SIGABRT, crash_handler);
  std::signal(SIGSEGV, crash_handler);
  std::signal(SIGBUS, crash_handler);
  std::signal(SIGFPE, crash_handler);
  std::signal(SIGILL, crash_handler);

  vh::Json j(f);
#ifdef NDEBUG
  const bool assertions = false;
#else
  const bool assertions = true;
#endif
  {
    std::string data = "[";
    for (int b = 1; b <= NB; ++b) {
      if (b > 1) data += ',';
      data += '[';
      for (int o = 0; o < N; ++o) {
        if (o) data += ',';
        data += std::to_string(elem_val(g_buf[b][o]));
      }
      data += ']';
    }
    data += "]";
    std::string ops = "[";
    for (int i = 0; i < NOPS; ++i) ops += std::string("\"") + OPN[i] + "\",";
    ops += "\"ProbeRejected\",\"ProbeAccepted\"]";
    j.begin("hdr").boolean("assertions", assertions).num("NW", NW).num("NS", NS).num("NB", NB).num("N", N)
        .raw("data", data).raw("ops", ops).boolean("foreign", foreign).str("mode", random_mode ? "random" : "replay").num("seed", static_cast<long long>(seed)).end();
  }

  if (random_mode) {
    vh::Rng rng(seed);
    unodb::qsbr_thread other;
    if (foreign) {
      other = unodb::qsbr_thread{foreign_body};
      while (g_f_ack.load() != -1) std::this_thread::yield();
    }
    for (long s = 0; s < seqs; ++s) {
      g_bid = s;
      g_i = 0;
      for (long k = 0; k < nops; ++k) {
        Cand c{};
        if (!random_step(rng, c)) break;
        const int probes = rng.chance(probe_pct) ? 3 : 0;
        if (!step(j, c.op, c.x, c.y, c.z, c.u, probes, false)) break;
        if (foreign && rng.chance(4)) foreign_tick(j);
      }
      cleanup(j, 3);
    }
    if (foreign) {
      g_f_stop.store(true);
      other.join();
    }
  } else {
    FILE* in = std::fopen(replay, "r");
    if (!in) return 2;
    char line[256];
    bool abandoned = false;
    while (std::fgets(line, sizeof line, in)) {
      if (line[0] == 'B') {
        g_bid = std::atol(line + 1);
        g_i = 0;
        abandoned = false;
        cleanup(j, 0);
      } else if (line[0] == 'S' && !abandoned) {
        char name[40];
        int x = 0, y = 0, z = 0, u = 0, pr = 0;
        if (std::sscanf(line + 1, "%39s %d %d %d %d %d", name, &x, &y, &z, &u, &pr) != 6) return 2;
        const int op = op_by_name(name);
        if (op < 0) return 2;
        if (pr != 0 && (probe_ctr++ % probe_mod) != 0) pr = 0;
        if (!step(j, op, x, y, z, u, pr, false)) abandoned = true;
      } else if (line[0] == 'E') {
        int pr = std::atoi(line + 1);
        if (pr != 0 && (probe_ctr++ % probe_mod) != 0) pr = 0;
        cleanup(j, pr);
      }
    }
    std::fclose(in);
    cleanup(j, 3);  // the run always ends with both probes in the initial state
  }
  j.begin("end").num("bid", g_bid).end();
  std::fflush(f);
  if (outp) std::fclose(f);
  g_out = nullptr;
  return 0;
}
