// qsbr_driver: client programs over {quiescent, retire, take/drop reference,
// pause, resume, exit} on real unodb::qsbr_thread's under the baton scheduler;
// every QSBR atomic access is a scheduling point.
//
// Two sources of schedules:
//  --in FILE     behaviours of spec/Qsbr.tla (one per line) followed step by step
//                (lock step while the code's scheduling points match, thread order
//                as a hint afterwards);
//  --random N    seeded random programs under seeded random schedules.
// Every execution runs in a forked child (fresh QSBR singleton state, crash
// isolation) and ends with the drain phase of C06.  Output:
//  --events FILE ndjson for spec/QsbrTrace.tla (call/ret/take/drop/free/quiet/drain)
//  --obs FILE    per execution: the decoded state word after every replayed step
//                (lock-step statistics for tools/check_qsbr.py)
//
// behaviour line: <threads> <objects> tok tok ...   tok = <t><code>[arg], t 1-based digit
//   client: Q quiescent, D<o> retire, T<o> take ref, X drop refs, P pause, R resume
//   library step: l STATE_LOAD, c STATE_CAS, d STATE_DEC, x ORPHAN_XCHG, a ORPHAN_CAS,
//                 o ORPHAN_LOAD, t ORPHAN_TAIL
#include "common.hpp"
#include "sched.hpp"

#include <cerrno>
#include <chrono>
#include <csignal>
#include <cstring>
#include <poll.h>
#include <set>
#include <unordered_set>
#include <sstream>
#include <sys/wait.h>
#include <unistd.h>

#include "heap.hpp"
#include "qsbr.hpp"

using unodb::verif::ev;

namespace {

enum Op : int { OP_END = 0, OP_Q, OP_RETIRE, OP_TAKE, OP_DROP, OP_PAUSE, OP_RESUME };

struct Exec {
  int nthreads = 0, nobjs = 0;
  std::vector<void*> obj;
  std::vector<bool> retired, freed;
  std::vector<std::set<int>> refs;  // per thread
  std::vector<bool> paused;
  std::string events;  // ndjson
  std::string obs;
  long nevents = 0;
  volatile unsigned sink = 0;

  void log(const std::string& s) {
    events += s;
    events += '\n';
    ++nevents;
  }
  int obj_id(const void* p) const {
    for (int i = 0; i < nobjs; ++i)
      if (obj[static_cast<std::size_t>(i)] == p) return i;
    return -1;
  }
  // a thread that holds references reads through them (ASan build: a read of
  // freed memory is reported by the sanitizer)
  void touch(int t) {
    for (int o : refs[static_cast<std::size_t>(t)]) {
      if (freed[static_cast<std::size_t>(o)]) {
        // the block has been handed back to the allocator: the trace spec rejects the
        // free event; reading it would be a use-after-free, reported here for ASan builds
#if defined(__has_feature)
#if __has_feature(address_sanitizer)
        sink = sink + *static_cast<volatile unsigned char*>(obj[static_cast<std::size_t>(o)]);
#endif
#endif
        continue;
      }
      sink = sink + *static_cast<volatile unsigned char*>(obj[static_cast<std::size_t>(o)]);
    }
  }
};

Exec* g_ex = nullptr;

bool policy(vs::TCB&, ev e, const void*, std::uint64_t) {
  switch (e) {
    case ev::Q_STATE_LOAD:
    case ev::Q_STATE_CAS:
    case ev::Q_STATE_DEC:
    case ev::Q_ORPHAN_LOAD:
    case ev::Q_ORPHAN_CAS:
    case ev::Q_ORPHAN_XCHG:
    case ev::Q_ORPHAN_TAIL:
      return true;
    default:
      return false;
  }
}

void observer(vs::TCB* tcb, ev e, const void* a, std::uint64_t) {
  if (e != ev::H_FREE || g_ex == nullptr) return;
  const int o = g_ex->obj_id(a);
  if (o < 0) return;
  g_ex->log("{\"e\":\"free\",\"o\":" + std::to_string(o) + ",\"t\":" + std::to_string(tcb ? tcb->id + 1 : 0) + "}");
  g_ex->freed[static_cast<std::size_t>(o)] = true;
}

void retire(void* p) {
  unodb::this_thread().on_next_epoch_deallocate(p
#ifdef UNODB_DETAIL_WITH_STATS
                                                ,
                                                64
#endif
#ifndef NDEBUG
                                                ,
                                                nullptr
#endif
  );
}

void thread_body(Exec& ex, int t) {
  const std::string ts = std::to_string(t + 1);
  auto call = [&](const char* op, int o = -1) {
    ex.log("{\"e\":\"call\",\"t\":" + ts + ",\"op\":\"" + op + "\"" + (o >= 0 ? ",\"o\":" + std::to_string(o) : "") + "}");
  };
  auto ret = [&](const char* op) { ex.log("{\"e\":\"ret\",\"t\":" + ts + ",\"op\":\"" + op + "\"}"); };
  while (true) {
    const int c = vs::Sched::choose();
    const int op = c & 0xFF, o = c >> 8;
    ex.touch(t);
    switch (op) {
      case OP_END:
        return;
      case OP_Q:
        call("q");
        unodb::this_thread().quiescent();
        ret("q");
        break;
      case OP_RETIRE:
        ex.retired[static_cast<std::size_t>(o)] = true;
        ex.refs[static_cast<std::size_t>(t)].erase(o);
        call("retire", o);
        retire(ex.obj[static_cast<std::size_t>(o)]);
        ret("retire");
        break;
      case OP_TAKE:
        ex.refs[static_cast<std::size_t>(t)].insert(o);
        ex.log("{\"e\":\"take\",\"t\":" + ts + ",\"o\":" + std::to_string(o) + "}");
        ex.touch(t);
        break;
      case OP_DROP:
        ex.refs[static_cast<std::size_t>(t)].clear();
        ex.log("{\"e\":\"drop\",\"t\":" + ts + "}");
        break;
      case OP_PAUSE:
        call("pause");
        unodb::this_thread().qsbr_pause();
        ex.paused[static_cast<std::size_t>(t)] = true;
        ret("pause");
        break;
      case OP_RESUME:
        call("resume");
        unodb::this_thread().qsbr_resume();
        ex.paused[static_cast<std::size_t>(t)] = false;
        ret("resume");
        break;
      default:
        break;
    }
  }
}

struct Tok {
  int t;
  char code;
  int arg;
};

char hook_code(ev e) {
  switch (e) {
    case ev::Q_STATE_LOAD: return 'l';
    case ev::Q_STATE_CAS: return 'c';
    case ev::Q_STATE_DEC: return 'd';
    case ev::Q_ORPHAN_XCHG: return 'x';
    case ev::Q_ORPHAN_CAS: return 'a';
    case ev::Q_ORPHAN_LOAD: return 'o';
    case ev::Q_ORPHAN_TAIL: return 't';
    default: return '?';
  }
}

int client_op(char code) {
  switch (code) {
    case 'Q': return OP_Q;
    case 'D': return OP_RETIRE;
    case 'T': return OP_TAKE;
    case 'X': return OP_DROP;
    case 'P': return OP_PAUSE;
    case 'R': return OP_RESUME;
    default: return -1;
  }
}

int g_epoch_offset = 0;

void obs_state(Exec& ex, int t, char code) {
  const auto w = unodb::qsbr::instance().get_state();
  int nf = 0;
  for (bool f : ex.freed) nf += f ? 1 : 0;
  ex.obs += " " + std::to_string(t + 1) + code + ":" +
            std::to_string((unodb::qsbr_state::get_epoch(w).get_val() + 4U - static_cast<unsigned>(g_epoch_offset & 3)) & 3U) + "," +
            std::to_string(unodb::qsbr_state::get_thread_count(w)) + "," +
            std::to_string(unodb::qsbr_state::get_threads_in_previous_epoch(w)) + "," + std::to_string(nf);
}

// runs in the forked child
void run_exec(int nthreads, int nobjs, const std::vector<Tok>& toks, vh::Rng* rng, int budget, Exec& ex) {
  ex.nthreads = nthreads;
  ex.nobjs = nobjs;
  ex.obj.resize(static_cast<std::size_t>(nobjs));
  ex.retired.assign(static_cast<std::size_t>(nobjs), false);
  ex.freed.assign(static_cast<std::size_t>(nobjs), false);
  ex.refs.assign(static_cast<std::size_t>(nthreads), {});
  ex.paused.assign(static_cast<std::size_t>(nthreads), false);
  for (int i = 0; i < nobjs; ++i) {
    ex.obj[static_cast<std::size_t>(i)] = unodb::detail::allocate_aligned(64);
    std::memset(ex.obj[static_cast<std::size_t>(i)], 0x5A, 64);
  }
  g_ex = &ex;
  vs::Sched sched(policy);
  sched.set_observer(observer);
  ex.log("{\"e\":\"reset\",\"threads\":" + std::to_string(nthreads) + "}");
  for (int t = 0; t < nthreads; ++t) {
    sched.add_thread([&ex, t]() { thread_body(ex, t); }, true);
    sched.step(t);  // START -> first CHOICE
  }
  auto at_choice = [&](int t) { return !sched.finished(t) && sched.pending(t).pk == vs::pkind::CHOICE; };
  auto quiet = [&]() {
    for (int t = 0; t < nthreads; ++t)
      if (!sched.finished(t) && !at_choice(t)) return;
    const auto w = unodb::qsbr::instance().get_state();
    ex.log("{\"e\":\"quiet\",\"tc\":" + std::to_string(unodb::qsbr_state::get_thread_count(w)) + "}");
  };
  auto apply_choice = [&](int t, int op, int o) {
    sched.tcb(t).choice = op | (o << 8);
    sched.step(t);
  };
  // run a thread until it is back at a call boundary; others are stepped round-robin if it spins
  auto finish_call = [&](int t) {
    long guard = 0;
    while (!sched.finished(t) && !at_choice(t) && guard++ < 100000) {
      sched.step(t);
      if (guard % 64 == 0)
        for (int u = 0; u < nthreads; ++u)
          if (u != t && !sched.finished(u) && !at_choice(u)) sched.step(u);
    }
  };
  std::vector<bool> live(static_cast<std::size_t>(nobjs), true);
  int lockstep = 1;
  long done = 0;
  if (rng == nullptr) {
    for (const auto& k : toks) {
      const int t = k.t - 1;
      if (t < 0 || t >= nthreads || sched.finished(t)) continue;
      if (k.code == 'F') {  // run the thread's current call to completion (prefix of a behaviour)
        finish_call(t);
        quiet();
        continue;
      }
      const int cop = client_op(k.code);
      if (cop >= 0) {
        if (!at_choice(t)) {  // the real call takes more steps than the model predicted
          lockstep = 0;
          finish_call(t);
        }
        // client contract: only enabled operations (hint mode may have changed the state)
        const auto ti = static_cast<std::size_t>(t);
        bool ok = true;
        if (cop == OP_Q || cop == OP_PAUSE) ok = !ex.paused[ti] && ex.refs[ti].empty();
        if (cop == OP_RETIRE) ok = !ex.paused[ti] && k.arg < nobjs && live[static_cast<std::size_t>(k.arg)];
        if (cop == OP_TAKE) ok = !ex.paused[ti] && k.arg < nobjs && live[static_cast<std::size_t>(k.arg)];
        if (cop == OP_RESUME) ok = ex.paused[ti];
        if (!ok) {
          lockstep = 0;
          continue;
        }
        if (cop == OP_RETIRE) live[static_cast<std::size_t>(k.arg)] = false;
        apply_choice(t, cop, k.arg);
      } else {
        if (at_choice(t) || sched.pending(t).pk != vs::pkind::HOOK || hook_code(sched.pending(t).kind) != k.code) {
          lockstep = 0;  // step structure differs: keep the thread order as a hint
          if (at_choice(t)) continue;
        }
        sched.step(t);
      }
      ++done;
      obs_state(ex, t, k.code);
      quiet();
    }
  } else {
    std::vector<int> left(static_cast<std::size_t>(nthreads), budget);
    for (long i = 0; i < 4000; ++i) {
      std::vector<int> cand;
      for (int t = 0; t < nthreads; ++t) {
        if (sched.finished(t)) continue;
        if (at_choice(t) && left[static_cast<std::size_t>(t)] <= 0 && ex.refs[static_cast<std::size_t>(t)].empty()) continue;
        cand.push_back(t);
      }
      if (cand.empty()) break;
      const int t = cand[rng->below(cand.size())];
      const auto ti = static_cast<std::size_t>(t);
      if (!at_choice(t)) {
        sched.step(t);
      } else {
        std::vector<std::pair<int, int>> ops;
        if (left[ti] > 0) {
          if (ex.paused[ti]) {
            ops.push_back({OP_RESUME, 0});
          } else {
            if (ex.refs[ti].empty()) {
              ops.push_back({OP_Q, 0});
              ops.push_back({OP_Q, 0});
              ops.push_back({OP_PAUSE, 0});
            }
            for (int o = 0; o < nobjs; ++o)
              if (live[static_cast<std::size_t>(o)]) {
                ops.push_back({OP_RETIRE, o});
                if (!ex.refs[ti].count(o)) ops.push_back({OP_TAKE, o});
              }
          }
        }
        if (!ex.refs[ti].empty()) ops.push_back({OP_DROP, 0});
        if (ops.empty()) {
          left[ti] = 0;
          continue;
        }
        const auto [op, o] = ops[rng->below(ops.size())];
        if (op != OP_TAKE && op != OP_DROP) --left[ti];
        if (op == OP_RETIRE) live[static_cast<std::size_t>(o)] = false;
        apply_choice(t, op, o);
      }
      ++done;
      quiet();
    }
  }
  // ---- drain phase (C06)
  for (int rr = 0; rr < 1000; ++rr) {
    bool any = false;
    for (int t = 0; t < nthreads; ++t)
      if (!sched.finished(t) && !at_choice(t)) {
        sched.step(t);
        any = true;
      }
    if (!any) break;
  }
  bool stuck = false;
  for (int t = 0; t < nthreads; ++t)
    if (!sched.finished(t) && !at_choice(t)) stuck = true;
  if (stuck) {
    ex.log("{\"e\":\"stuck\"}");
    return;
  }
  quiet();
  for (int t = 0; t < nthreads; ++t)
    if (!ex.refs[static_cast<std::size_t>(t)].empty()) apply_choice(t, OP_DROP, 0);
  const int L = 0;
  for (int t = 0; t < nthreads; ++t) {
    if (t == L || ex.paused[static_cast<std::size_t>(t)]) continue;
    apply_choice(t, OP_PAUSE, 0);
    finish_call(t);
    quiet();
  }
  if (ex.paused[L]) {
    apply_choice(L, OP_RESUME, 0);
    finish_call(L);
  }
  for (int i = 0; i < 2; ++i) {
    apply_choice(L, OP_Q, 0);
    finish_call(L);
    quiet();
  }
  {
    int unfreed = 0;
    for (int o = 0; o < nobjs; ++o)
      if (ex.retired[static_cast<std::size_t>(o)] && !ex.freed[static_cast<std::size_t>(o)]) ++unfreed;
    const bool pe = unodb::qsbr::instance().previous_interval_orphaned_requests_empty();
    const bool ce = unodb::qsbr::instance().current_interval_orphaned_requests_empty();
    ex.log(std::string("{\"e\":\"drain\",\"unfreed\":") + std::to_string(unfreed) + ",\"orphP\":" + (pe ? "true" : "false") +
           ",\"orphC\":" + (ce ? "true" : "false") + "}");
  }
  apply_choice(L, OP_PAUSE, 0);
  finish_call(L);
  for (int t = 0; t < nthreads; ++t) {
    apply_choice(t, OP_END, 0);
  }
  sched.join_all();
  ex.obs = "O " + std::to_string(done) + " " + std::to_string(lockstep) + ex.obs;
  g_ex = nullptr;
}

bool write_all(int fd, const std::string& s) {
  std::size_t off = 0;
  while (off < s.size()) {
    const auto n = write(fd, s.data() + off, s.size() - off);
    if (n <= 0) return false;
    off += static_cast<std::size_t>(n);
  }
  return true;
}

}  // namespace

int main(int argc, char** argv) {
  const char* inp = nullptr;
  const char* evp = nullptr;
  const char* obsp = nullptr;
  long random_n = 0;
  std::uint64_t seed = 1;
  int rthreads = 3, robjs = 2, rbudget = 5;
  for (int i = 1; i < argc; ++i) {
    const std::string a = argv[i];
    if (a == "--in" && i + 1 < argc) inp = argv[++i];
    else if (a == "--events" && i + 1 < argc) evp = argv[++i];
    else if (a == "--obs" && i + 1 < argc) obsp = argv[++i];
    else if (a == "--random" && i + 1 < argc) random_n = std::atol(argv[++i]);
    else if (a == "--seed" && i + 1 < argc) seed = std::strtoull(argv[++i], nullptr, 10);
    else if (a == "--threads" && i + 1 < argc) rthreads = std::atoi(argv[++i]);
    else if (a == "--objs" && i + 1 < argc) robjs = std::atoi(argv[++i]);
    else if (a == "--budget" && i + 1 < argc) rbudget = std::atoi(argv[++i]);
    else if (a == "--epoch-offset" && i + 1 < argc) g_epoch_offset = std::atoi(argv[++i]);
  }
  FILE* evf = evp ? std::fopen(evp, "w") : stdout;
  FILE* obsf = obsp ? std::fopen(obsp, "w") : nullptr;
  if (!evf) return 2;
  // --epoch-offset k: the only registered thread passes through k quiescent states first, each of which advances
  // the global epoch: the executions then start from epoch k instead of 0, so that the 2-bit epoch wraps around
  // within the few epoch changes an execution makes (a long-running process is an ordinary state)
  for (int i = 0; i < g_epoch_offset; ++i) unodb::this_thread().quiescent();
  // the main thread leaves QSBR: every execution starts from "no thread registered"
  unodb::this_thread().qsbr_pause();

  std::unordered_set<std::uint64_t> seen;
  long n_exec = 0, n_distinct = 0;
  auto run_one = [&](int nt, int no, const std::vector<Tok>& toks, vh::Rng* rng) {
    int pe[2], po[2];
    if (pipe(pe) != 0 || pipe(po) != 0) std::abort();
    std::fflush(nullptr);
    const pid_t pid = fork();
    if (pid == 0) {
      close(pe[0]);
      close(po[0]);
      alarm(20);
      Exec ex;
      // library assertions / sanitizer reports end the child; what was recorded so far is flushed
      struct Flush {
        Exec& ex;
        int fe, fo;
        ~Flush() {}
      };
      static Exec* sex = nullptr;
      static int sfe = -1;
      sex = &ex;
      sfe = pe[1];
      // async-signal-safe handlers: no allocation (a crash inside malloc/free holds the arena lock)
      static auto raw = [](const char* tail) {
        if (sex) (void)!write(sfe, sex->events.data(), sex->events.size());
        (void)!write(sfe, tail, std::strlen(tail));
      };
      std::signal(SIGABRT, [](int) {
        raw("{\"e\":\"crash\",\"sig\":6}\n");
        _exit(70);
      });
      std::signal(SIGSEGV, [](int) {
        raw("{\"e\":\"crash\",\"sig\":11}\n");
        _exit(71);
      });
      std::signal(SIGALRM, [](int) {
        raw("{\"e\":\"hang\"}\n");
        _exit(72);
      });
      run_exec(nt, no, toks, rng, rbudget, ex);
      write_all(pe[1], ex.events);
      write_all(po[1], ex.obs + "\n");
      _exit(0);
    }
    close(pe[1]);
    close(po[1]);
    // watchdog on the parent's side as well: a child that neither finishes nor dies within 45 s is killed
    const auto deadline = std::chrono::steady_clock::now() + std::chrono::seconds(45);
    bool killed = false;
    auto slurp = [&](int fd) {
      std::string s;
      char buf[65536];
      while (true) {
        struct pollfd pfd {fd, POLLIN, 0};
        const auto left = std::chrono::duration_cast<std::chrono::milliseconds>(deadline - std::chrono::steady_clock::now()).count();
        const int pr = poll(&pfd, 1, left > 0 ? static_cast<int>(left) : 0);
        if (pr == 0) {
          kill(pid, SIGKILL);
          killed = true;
          s.resize(s.rfind('\n') == std::string::npos ? 0 : s.rfind('\n') + 1);  // drop a partial line
          break;
        }
        if (pr < 0) {
          if (errno == EINTR) continue;
          break;
        }
        const ssize_t n = read(fd, buf, sizeof buf);
        if (n <= 0) break;
        s.append(buf, static_cast<std::size_t>(n));
      }
      close(fd);
      return s;
    };
    // read both pipes (events may be large: drain it first in a loop with poll-free approach)
    std::string es = slurp(pe[0]);
    std::string os = slurp(po[0]);
    if (killed && es.find("\"hang\"") == std::string::npos && es.find("\"crash\"") == std::string::npos) es += "{\"e\":\"hang\"}\n";
    int status = 0;
    waitpid(pid, &status, 0);
    if (!(WIFEXITED(status) && WEXITSTATUS(status) == 0)) {
      if (es.find("\"crash\"") == std::string::npos && es.find("\"hang\"") == std::string::npos)
        es += "{\"e\":\"crash\",\"sig\":" + std::to_string(WIFSIGNALED(status) ? WTERMSIG(status) : 1000 + WEXITSTATUS(status)) + "}\n";
      if (os.empty()) os = "O 0 0 DIED\n";
    }
    // identical event sequences are validated once
    std::uint64_t h = 1469598103934665603ULL;
    for (unsigned char c : es) {
      h ^= c;
      h *= 1099511628211ULL;
    }
    ++n_exec;
    if (seen.insert(h).second) {
      ++n_distinct;
      std::fwrite(es.data(), 1, es.size(), evf);
    }
    if (obsf) std::fwrite(os.data(), 1, os.size(), obsf);
  };

  if (random_n > 0) {
    vh::Rng rng(seed);
    for (long i = 0; i < random_n; ++i) {
      vh::Rng r2(rng.next());
      run_one(rthreads, robjs, {}, &r2);
    }
  } else {
    FILE* f = inp ? std::fopen(inp, "r") : stdin;
    if (!f) return 2;
    std::vector<char> buf(1 << 20);
    while (std::fgets(buf.data(), static_cast<int>(buf.size()), f)) {
      std::istringstream is(buf.data());
      int nt = 0, no = 0;
      is >> nt >> no;
      if (nt <= 0) continue;
      std::vector<Tok> toks;
      std::string tok;
      while (is >> tok) {
        if (tok.size() < 2) continue;
        Tok k{tok[0] - '0', tok[1], tok.size() > 2 ? std::atoi(tok.c_str() + 2) : 0};
        toks.push_back(k);
      }
      run_one(nt, no, toks, nullptr);
    }
  }
  std::fflush(evf);
  if (obsf) std::fclose(obsf);
  if (evp) std::fclose(evf);
  std::fprintf(stderr, "{\"executions\":%ld,\"distinct\":%ld}\n", n_exec, n_distinct);
  _exit(0);
}
