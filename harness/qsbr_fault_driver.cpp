// qsbr_fault_driver (C08): fail the k-th allocation, k = 1.., of qsbr_resume(),
// qsbr_thread construction and on_next_epoch_deallocate() (with two registered
// threads), and record the observable QSBR state before/after each failed call.
// Events for spec/QsbrFaultTrace.tla:
//   obs(vec)  fail(op,n,hb,ha)  ok(op)
// vec = [registered threads, orphP empty, orphC empty, own previous empty,
//        own current empty, tracked block still allocated]
#include "common.hpp"

#include <atomic>
#include <thread>

#include "heap.hpp"
#include "qsbr.hpp"
#include "test_heap.hpp"

extern "C" long vh_live_bytes();
extern "C" int vh_pause;

namespace {
bool g_block_live = false;
void* g_block = nullptr;
void hook_cb(unodb::verif::ev e, const void* a, std::uint64_t) noexcept {
  if (e == unodb::verif::ev::H_FREE && a == g_block) g_block_live = false;
}
std::string obs() {
  const auto w = unodb::qsbr::instance().get_state();
  auto& q = unodb::qsbr::instance();
  const bool paused = unodb::this_thread().is_qsbr_paused();
  std::string s = "{\"e\":\"obs\",\"vec\":[";
  s += std::to_string(unodb::qsbr_state::get_thread_count(w)) + ",";
  s += std::string(q.previous_interval_orphaned_requests_empty() ? "1" : "0") + ",";
  s += std::string(q.current_interval_orphaned_requests_empty() ? "1" : "0") + ",";
  s += std::string(paused || unodb::this_thread().previous_interval_requests_empty() ? "1" : "0") + ",";
  s += std::string(paused || unodb::this_thread().current_interval_requests_empty() ? "1" : "0") + ",";
  s += std::string(g_block_live ? "1" : "0") + "]}";
  return s;
}
template <class F>
void enumerate(const char* op, F f, long& points) {
  std::puts(obs().c_str());
  for (unsigned n = 1; n < 64; ++n) {
    bool threw = false;
    const long hb = vh_live_bytes();
    unodb::test::allocation_failure_injector::fail_on_nth_allocation(n);
    try {
      f();
      unodb::test::allocation_failure_injector::reset();
    } catch (const std::bad_alloc&) {
      unodb::test::allocation_failure_injector::reset();
      threw = true;
    }
    if (!threw) {
      std::printf("{\"e\":\"ok\",\"op\":\"%s\",\"n\":%u}\n", op, n);
      std::puts(obs().c_str());
      return;
    }
    const long ha = vh_live_bytes();
    ++points;
    std::printf("{\"e\":\"fail\",\"op\":\"%s\",\"n\":%u,\"hb\":%ld,\"ha\":%ld}\n", op, n, hb, ha);
    std::puts(obs().c_str());
  }
  std::printf("{\"e\":\"never_succeeds\",\"op\":\"%s\"}\n", op);
}
}  // namespace

// Every family runs on a fresh qsbr_thread (the subject) while the main thread is QSBR-paused, so the subject
// sees the same thread counts as a main thread would.  "Nothing leaked" is judged where it is decidable without
// assumptions about buffers a live thread may legitimately keep (request vectors that retain their capacity,
// pre-allocated list nodes): the heap bytes in use after the subject has exited and everything has been drained
// must equal the bytes in use before it started (events "baseline" / "after").
template <class F>
void on_subject_thread(const char* family, F f) {
  unodb::this_thread().qsbr_pause();
  const long h0 = vh_live_bytes();
  std::printf("{\"e\":\"baseline\",\"op\":\"%s\",\"heap\":%ld}\n", family, h0);
  {
    unodb::qsbr_thread subject{[&]() noexcept { f(); }};
    subject.join();
  }
  unodb::this_thread().qsbr_resume();
  unodb::this_thread().quiescent();
  unodb::this_thread().quiescent();
  unodb::this_thread().quiescent();
  unodb::this_thread().qsbr_pause();
  std::printf("{\"e\":\"after\",\"op\":\"%s\",\"heap\":%ld}\n", family, vh_live_bytes());
  unodb::this_thread().qsbr_resume();
}

int main() {
  std::setvbuf(stdout, nullptr, _IOLBF, 0);  // whole lines even if the process dies
  unodb::verif::g_hook.store(hook_cb);
  long points = 0;
  std::puts("{\"e\":\"reset\"}");
  on_subject_thread("resume", [&] {
    // --- qsbr_resume
    for (int rep = 0; rep < 3; ++rep) {
      unodb::this_thread().qsbr_pause();
      enumerate("resume", [] { unodb::this_thread().qsbr_resume(); }, points);
      unodb::this_thread().quiescent();
    }
  });
  on_subject_thread("start", [&] {
    // --- thread start
    for (int rep = 0; rep < 3; ++rep) {
      unodb::qsbr_thread second;
      std::atomic<bool> go{false};
      enumerate("start", [&] { second = unodb::qsbr_thread{[&go]() noexcept { while (!go.load()) std::this_thread::yield(); }}; }, points);
      go.store(true);
      second.join();
      unodb::this_thread().quiescent();
      unodb::this_thread().quiescent();
    }
  });
  on_subject_thread("retire", [&] {
    // --- deferred deallocation with two registered threads
    for (int rep = 0; rep < 4; ++rep) {
      std::atomic<bool> go{false}, up{false};
      unodb::qsbr_thread second{[&]() noexcept {
        up.store(true);
        while (!go.load()) std::this_thread::yield();
        unodb::this_thread().quiescent();
      }};
      while (!up.load()) std::this_thread::yield();
      // fill the request vector so that different calls meet different capacities
      for (int pre = 0; pre < rep; ++pre) {
        void* p = unodb::detail::allocate_aligned(32);
        unodb::this_thread().on_next_epoch_deallocate(p
  #ifdef UNODB_DETAIL_WITH_STATS
                                                      , 32
  #endif
  #ifndef NDEBUG
                                                      , nullptr
  #endif
        );
      }
      g_block = unodb::detail::allocate_aligned(64);
      g_block_live = true;
      enumerate("retire", [] {
        unodb::this_thread().on_next_epoch_deallocate(g_block
  #ifdef UNODB_DETAIL_WITH_STATS
                                                      , 64
  #endif
  #ifndef NDEBUG
                                                      , nullptr
  #endif
        );
      }, points);
      go.store(true);
      second.join();
      unodb::this_thread().quiescent();
      unodb::this_thread().quiescent();
      unodb::this_thread().quiescent();
      std::printf("{\"e\":\"drained\",\"live\":%d}\n", g_block_live ? 1 : 0);
      g_block = nullptr;
    }
  });
  on_subject_thread("retire_lagging", [&] {
    // --- deferred deallocation by a thread that lags behind the global epoch (the other thread changed the epoch
    // after this thread's last quiescent state): the call rotates the thread's own request lists, which hold
    // `pre` requests of the interval that just ended (seed c08c: an allocation after the request was recorded)
    for (int pre = 0; pre < 5; ++pre) {
      std::atomic<int> cmd{0}, done{0};
      unodb::qsbr_thread second{[&]() noexcept {
        int served = 0;
        while (true) {
          const int c = cmd.load();
          if (c == served) {
            std::this_thread::yield();
            continue;
          }
          if (c < 0) break;
          unodb::this_thread().quiescent();
          served = c;
          done.store(c);
        }
      }};
      auto helper_quiescent = [&](int n) {
        cmd.store(n);
        while (done.load() != n) std::this_thread::yield();
      };
      for (int i = 0; i < pre; ++i) {
        void* p = unodb::detail::allocate_aligned(32);
        unodb::this_thread().on_next_epoch_deallocate(p
  #ifdef UNODB_DETAIL_WITH_STATS
                                                      , 32
  #endif
  #ifndef NDEBUG
                                                      , nullptr
  #endif
        );
      }
      unodb::this_thread().quiescent();  // this thread is quiescent in epoch e ...
      helper_quiescent(1);               // ... the helper is the last one: it changes the epoch to e + 1
      g_block = unodb::detail::allocate_aligned(64);
      g_block_live = true;
      enumerate("retire_lagging", [] {
        unodb::this_thread().on_next_epoch_deallocate(g_block
  #ifdef UNODB_DETAIL_WITH_STATS
                                                      , 64
  #endif
  #ifndef NDEBUG
                                                      , nullptr
  #endif
        );
      }, points);
      cmd.store(-1);
      second.join();
      unodb::this_thread().quiescent();
      unodb::this_thread().quiescent();
      unodb::this_thread().quiescent();
      std::printf("{\"e\":\"drained\",\"live\":%d}\n", g_block_live ? 1 : 0);
      g_block = nullptr;
    }
  });
  on_subject_thread("retire_single", [&] {
    // --- single-thread mode: the request is executed at once
    {
      g_block = unodb::detail::allocate_aligned(64);
      g_block_live = true;
      enumerate("retire_single", [] {
        unodb::this_thread().on_next_epoch_deallocate(g_block
  #ifdef UNODB_DETAIL_WITH_STATS
                                                      , 64
  #endif
  #ifndef NDEBUG
                                                      , nullptr
  #endif
        );
      }, points);
      unodb::this_thread().quiescent();
      std::printf("{\"e\":\"drained\",\"live\":%d}\n", g_block_live ? 1 : 0);
      g_block = nullptr;
    }
  });
  std::printf("{\"e\":\"end\",\"points\":%ld}\n", points);
  return 0;
}
