// Deterministic baton scheduler for real unodb threads (DESIGN.md section 2.3).
//
// Managed threads run real library code.  The verification hooks
// (verif_hooks.hpp) call back *before* every shared-memory access; at a
// scheduling point the thread records what it is about to do and hands the
// baton back to the controller, which decides who runs next.  Exactly one
// thread (a managed one or the controller) runs at any time, so executions
// are sequentially consistent and reproducible.
#ifndef VERIF_HARNESS_SCHED_HPP
#define VERIF_HARNESS_SCHED_HPP

#include "global.hpp"

#include <cstdint>
#include <functional>
#include <memory>
#include <semaphore>
#include <thread>
#include <vector>

#include "qsbr.hpp"
#include "verif_hooks.hpp"

namespace vs {

using unodb::verif::ev;

enum class pkind : std::uint8_t { START, HOOK, CHOICE, USER, FINISHED };

struct Pending {
  pkind pk = pkind::START;
  ev kind{};
  const void* addr = nullptr;
  std::uint64_t operand = 0;
  int user = 0;
};

struct TCB {
  int id = 0;
  std::binary_semaphore go{0};
  Pending pend;
  bool finished = false;
  long steps = 0;
  int choice = 0;          // answer to the last CHOICE point
  bool in_segment = false; // segment policy: a protected-field segment is open
  bool spinning = false;   // last point was a SPIN
  int spin_streak = 0;     // consecutive spin-wait iterations without acquiring the lock
  std::unique_ptr<std::thread> plain;
  std::unique_ptr<unodb::qsbr_thread> qsbr;
};

class Sched {
 public:
  // policy: is this hook event a scheduling point for the calling thread?
  // (also the place to log non-yielding events)
  using Policy = std::function<bool(TCB&, ev, const void*, std::uint64_t)>;
  // observer: sees every hook event of every thread (managed or not), before
  // the policy; tcb is null for unmanaged threads
  using Observer = std::function<void(TCB*, ev, const void*, std::uint64_t)>;
  void set_observer(Observer o) { observer_ = std::move(o); }

  explicit Sched(Policy p) : policy_(std::move(p)) {
    inst_ = this;
    unodb::verif::g_hook.store(&Sched::hook_cb);
  }
  ~Sched() {
    unodb::verif::g_hook.store(nullptr);
    inst_ = nullptr;
  }
  Sched(const Sched&) = delete;
  Sched& operator=(const Sched&) = delete;

  // policies
  static bool every_access(TCB&, ev e, const void*, std::uint64_t) {
    return e != ev::H_ALLOC && e != ev::H_FREE;
  }

  int add_thread(std::function<void()> body, bool qsbr_registered) {
    auto t = std::make_unique<TCB>();
    t->id = static_cast<int>(ts_.size());
    TCB* raw = t.get();
    auto wrapper = [this, raw, body = std::move(body)]() {
      self_ = raw;
      raw->go.acquire();  // wait for the first grant
      body();
      raw->finished = true;
      raw->pend.pk = pkind::FINISHED;
      self_ = nullptr;  // hooks fired by thread exit (TLS destructors) do not yield
      ctl_.release();
    };
    if (qsbr_registered)
      t->qsbr = std::make_unique<unodb::qsbr_thread>(wrapper);
    else
      t->plain = std::make_unique<std::thread>(wrapper);
    ts_.push_back(std::move(t));
    return raw->id;
  }

  // Let thread tid perform its pending access and run up to its next
  // scheduling point (or its end).  Returns false if it had already finished.
  bool step(int tid) {
    TCB& t = *ts_[static_cast<std::size_t>(tid)];
    if (t.finished) return false;
    ++t.steps;
    ++total_steps_;
    t.go.release();
    ctl_.acquire();
    return true;
  }

  // Called by managed thread bodies: a point where the controller supplies a
  // decision (e.g. which operation to run next).
  static int choose() {
    TCB* s = self_;
    s->pend = Pending{pkind::CHOICE, {}, nullptr, 0, 0};
    s->in_segment = false;
    yield();
    return s->choice;
  }
  // Called by managed thread bodies: a named scheduling point of the harness
  // itself (e.g. call/return boundaries).
  static void user_point(int code) {
    TCB* s = self_;
    if (s == nullptr) return;
    s->pend = Pending{pkind::USER, {}, nullptr, 0, code};
    s->in_segment = false;
    yield();
  }

  TCB& tcb(int tid) { return *ts_[static_cast<std::size_t>(tid)]; }
  const Pending& pending(int tid) const { return ts_[static_cast<std::size_t>(tid)]->pend; }
  bool finished(int tid) const { return ts_[static_cast<std::size_t>(tid)]->finished; }
  bool all_finished() const {
    for (const auto& t : ts_)
      if (!t->finished) return false;
    return true;
  }
  int nthreads() const { return static_cast<int>(ts_.size()); }
  long total_steps() const { return total_steps_; }
  static TCB* self() { return self_; }

  void join_all() {
    for (auto& t : ts_) {
      if (t->plain && t->plain->joinable()) t->plain->join();
      if (t->qsbr) t->qsbr->join();
    }
  }

 private:
  static void yield() {
    TCB* s = self_;
    inst_->ctl_.release();
    s->go.acquire();
  }
  static void hook_cb(ev e, const void* a, std::uint64_t v) noexcept {
    TCB* s = self_;
    if (inst_ == nullptr) return;
    if (s != nullptr && inst_->policy_(*s, e, a, v)) {
      s->pend = Pending{pkind::HOOK, e, a, v, 0};
      s->spinning = (e == ev::SPIN);
      if (e == ev::SPIN)
        ++s->spin_streak;
      else if (e != ev::L_LOAD)
        s->spin_streak = 0;
      yield();
    }
    // the observer sees the event when the access is about to be executed (after the
    // thread has been granted the baton), so what it reads from memory is what the access sees
    if (inst_ != nullptr && inst_->observer_) inst_->observer_(s, e, a, v);
  }

  Policy policy_;
  Observer observer_;
  std::binary_semaphore ctl_{0};
  std::vector<std::unique_ptr<TCB>> ts_;
  long total_steps_ = 0;
  static inline thread_local TCB* self_ = nullptr;
  static inline Sched* inst_ = nullptr;
};

}  // namespace vs

#endif
