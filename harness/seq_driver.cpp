// seq_driver: drives one index class sequentially (db / mutex_db / olc_db,
// uint64 or key_view keys) with generated histories and records every call
// and its observable outcome as ndjson for validation against ArtSeqTrace.tla.
//
// Build-time selection: -DSEQ_DB=0|1|2 (db, mutex_db, olc_db), -DSEQ_KEY=0|1
// (std::uint64_t, key_view).
//
// The driver never judges results: the shadow key set below is used only to
// aim generators at structural cases (guidance), all oracles are in the spec.
#include "common.hpp"

#include <malloc.h>

#include <array>
#include <functional>
#include <optional>
#include <set>
#include <stdexcept>
#include <tuple>

#include "art.hpp"
#include "mutex_art.hpp"
#include "olc_art.hpp"
#include "qsbr.hpp"

#ifndef SEQ_DB
#define SEQ_DB 0
#endif
#ifndef SEQ_KEY
#define SEQ_KEY 0
#endif

using vh::Bytes;

#if SEQ_KEY == 0
using KeyT = std::uint64_t;
static const char* kKeyName = "u64";
#else
using KeyT = unodb::key_view;
static const char* kKeyName = "kv";
#endif

#if SEQ_DB == 0
using DbT = unodb::db<KeyT, unodb::value_view>;
static const char* kDbName = "db";
#elif SEQ_DB == 1
using DbT = unodb::mutex_db<KeyT, unodb::value_view>;
static const char* kDbName = "mutex";
#else
using DbT = unodb::olc_db<KeyT, unodb::value_view>;
static const char* kDbName = "olc";
#endif
constexpr bool kIsOlc = SEQ_DB == 2;
constexpr bool kIsMutex = SEQ_DB == 1;
constexpr bool kIsKv = SEQ_KEY == 1;

// ------------------------------------------------------------------ crash attribution
#include <csignal>
#include <cstring>
#include <unistd.h>
static const char* volatile g_current_op = "none";
static FILE* g_out_file = nullptr;
static void crash_handler(int sig) {
  char buf[128];
  const int n = std::snprintf(buf, sizeof buf, "CRASH sig=%d op=%s\n", sig, g_current_op);
  if (n > 0) (void)!write(2, buf, static_cast<std::size_t>(n));
  if (g_out_file != nullptr) std::fflush(g_out_file);
  _exit(70);
}
// an operation that does not return (a lock word left write-locked by an earlier failed call, a cycle in a
// corrupted tree) must end the run with a verdict, not hang it: every operation re-arms a watchdog
static void hang_handler(int) {
  char buf[128];
  const int n = std::snprintf(buf, sizeof buf, "HANG op=%s did not return within 60 s\n", g_current_op);
  if (n > 0) (void)!write(2, buf, static_cast<std::size_t>(n));
  _exit(71);
}
struct OpMark {
  const char* prev;
  explicit OpMark(const char* op) : prev(g_current_op) {
    g_current_op = op;
    alarm(60);
  }
  ~OpMark() {
    g_current_op = prev;
    alarm(std::strcmp(prev, "none") == 0 ? 0 : 60);
  }
};

#ifdef VERIF_HEAPWRAP
extern "C" long vh_live_bytes();
extern "C" long vh_trace[64];
extern "C" int vh_trace_n;
extern "C" int vh_trace_on;
extern "C" int vh_pause;
struct HeapPause {
  HeapPause() { ++vh_pause; }
  ~HeapPause() { --vh_pause; }
};
#else
struct HeapPause {};
#endif

// ------------------------------------------------------------------ registry
static vh::AllocRegistry g_reg;
static void hook_cb(unodb::verif::ev e, const void* a, std::uint64_t v) noexcept {
  using unodb::verif::ev;
  if (e == ev::H_ALLOC) {
    UNODB_DETAIL_PAUSE_HEAP_TRACKING_GUARD();
    const HeapPause hp;
    g_reg.on_alloc(a, v);
  } else if (e == ev::H_FREE) {
    UNODB_DETAIL_PAUSE_HEAP_TRACKING_GUARD();
    const HeapPause hp;
    g_reg.on_free(a);
  } else if (e == ev::SPIN) {
    // a single thread never has anybody to wait for: a lock was left held (C08, C14)
    static long spins = 0;
    if (++spins > 100000) {
      static const char msg[] = "CRASH sig=0 op=spin_forever_lock_left_held\n";
      (void)!write(2, msg, sizeof msg - 1);
      if (g_out_file != nullptr) std::fflush(g_out_file);
      _exit(71);
    }
  }
}

// ------------------------------------------------------------------ key glue
static std::span<const std::byte> as_span(const Bytes& b) {
  return {reinterpret_cast<const std::byte*>(b.data()), b.size()};
}
#if SEQ_KEY == 0
static KeyT make_key(const Bytes& b) { return vh::bytes_to_u64(b); }
#else
static KeyT make_key(const Bytes& b) { return as_span(b); }
#endif

template <class V>
static std::span<const std::byte> raw_span(const V& v) {
  if constexpr (requires { v.data(); })
    return {v.data(), v.size()};
  else
    return {v.begin().get(), v.size()};
}

// ------------------------------------------------------------------ sizes
template <class Db>
struct Sizes;
template <class K>
struct Sizes<unodb::db<K, unodb::value_view>> {
  static std::vector<long> inodes() {
    return {sizeof(unodb::detail::inode_4<K, unodb::value_view>),
            sizeof(unodb::detail::inode_16<K, unodb::value_view>),
            sizeof(unodb::detail::inode_48<K, unodb::value_view>),
            sizeof(unodb::detail::inode_256<K, unodb::value_view>)};
  }
  static long leaf_base() { return static_cast<long>(unodb::detail::leaf_type<K>::compute_size(0, 0)); }
};
template <class K>
struct Sizes<unodb::mutex_db<K, unodb::value_view>> : Sizes<unodb::db<K, unodb::value_view>> {};
template <class K>
struct Sizes<unodb::olc_db<K, unodb::value_view>> {
  static std::vector<long> inodes() {
    return {sizeof(unodb::detail::olc_inode_4<K, unodb::value_view>),
            sizeof(unodb::detail::olc_inode_16<K, unodb::value_view>),
            sizeof(unodb::detail::olc_inode_48<K, unodb::value_view>),
            sizeof(unodb::detail::olc_inode_256<K, unodb::value_view>)};
  }
  static long leaf_base() {
    return static_cast<long>(unodb::olc_db<K, unodb::value_view>::leaf_type::compute_size(0, 0));
  }
};

// ------------------------------------------------------------------ values
static const std::array<std::size_t, 8> kValLens{0, 1, 2, 3, 5, 8, 33, 1000};
static std::vector<std::byte> make_value(std::uint64_t id, std::size_t len) {
  std::vector<std::byte> v(len);
  std::uint64_t x = id * 0x9E3779B97F4A7C15ULL + 7;
  for (std::size_t i = 0; i < len; ++i) {
    x ^= x << 13;
    x ^= x >> 7;
    x ^= x << 17;
    v[i] = static_cast<std::byte>(x & 0xFF);
  }
  return v;
}

// ------------------------------------------------------------------ driver state
template <class Db>
struct DriverT {
  vh::Json& out;
  vh::Rng rng;
  bool stats_on;
  std::optional<Db> db;
  std::set<Bytes> shadow;  // guidance only
  std::uint64_t next_val_id = 1;
  long ops_in_history = 0;
  bool thorough = false;
  bool faults = false;       // C08: fail the k-th allocation of every insert/remove, k = 1..
  long fault_points = 0;
  long spin_count = 0;

  // held views (db / olc): key -> span; dropped on remove/clear/quiescent
  struct HeldView {
    Bytes k;
    std::span<const std::byte> v;
  };
  std::vector<HeldView> views;

  DriverT(vh::Json& o, std::uint64_t seed) : out(o), rng(seed) {
#ifdef UNODB_DETAIL_WITH_STATS
    stats_on = true;
#else
    stats_on = false;
#endif
  }

  std::vector<long> stats_vec() {
    std::vector<long> st;
#ifdef UNODB_DETAIL_WITH_STATS
    using unodb::node_type;
    auto& d = *db;
    st.push_back(static_cast<long>(d.template get_node_count<node_type::LEAF>()));
    st.push_back(static_cast<long>(d.template get_node_count<node_type::I4>()));
    st.push_back(static_cast<long>(d.template get_node_count<node_type::I16>()));
    st.push_back(static_cast<long>(d.template get_node_count<node_type::I48>()));
    st.push_back(static_cast<long>(d.template get_node_count<node_type::I256>()));
    st.push_back(static_cast<long>(d.get_current_memory_use()));
    st.push_back(static_cast<long>(d.template get_growing_inode_count<node_type::I4>()));
    st.push_back(static_cast<long>(d.template get_growing_inode_count<node_type::I16>()));
    st.push_back(static_cast<long>(d.template get_growing_inode_count<node_type::I48>()));
    st.push_back(static_cast<long>(d.template get_growing_inode_count<node_type::I256>()));
    st.push_back(static_cast<long>(d.template get_shrinking_inode_count<node_type::I4>()));
    st.push_back(static_cast<long>(d.template get_shrinking_inode_count<node_type::I16>()));
    st.push_back(static_cast<long>(d.template get_shrinking_inode_count<node_type::I48>()));
    st.push_back(static_cast<long>(d.template get_shrinking_inode_count<node_type::I256>()));
    st.push_back(static_cast<long>(d.get_key_prefix_splits()));
#endif
    return st;
  }
  void log_state() {
    if (stats_on) out.nums("st", stats_vec());
    out.num("held", static_cast<long long>(g_reg.held()));
  }

  void header() {
    out.begin("init").str("db", kDbName).str("key", kKeyName);
    out.nums("sizes", Sizes<Db>::inodes()).num("leafbase", Sizes<Db>::leaf_base());
    out.boolean("stats", stats_on);
#ifdef NDEBUG
    out.boolean("ndebug", true);
#else
    out.boolean("ndebug", false);
#endif
    out.end();
  }

  void reset(const char* gen) {
    const OpMark mark{"reset"};
    views.clear();
    db.reset();
    if constexpr (kIsOlc) {
      unodb::this_thread().quiescent();
      unodb::this_thread().quiescent();
    }
    const auto held_after_destroy = g_reg.held();
    out.begin("reset").str("gen", gen).num("held", static_cast<long long>(held_after_destroy)).end();
    db.emplace();
    shadow.clear();
    ops_in_history = 0;
  }

  // ---------------------------------------------------------------- calls
  void drop_views_of(const Bytes& k) {
    views.erase(std::remove_if(views.begin(), views.end(), [&](const HeldView& h) { return h.k == k; }),
                views.end());
  }

  static long heap_in_use() {
#ifdef VERIF_HEAPWRAP
    return vh_live_bytes();
#else
    return 0;
#endif
  }

  // full observable state after a failed call (C08)
  void log_dump() {
    const OpMark mark{"dump"};
    std::vector<Bytes> ks, rks;
    std::vector<std::vector<int>> vs;
    db->scan([&](const auto& v) {
      ks.push_back(vh::span_to_bytes(v.get_key()));
      vs.push_back(vh::value_repr(raw_span(v.get_value())));
      return false;
    }, true);
    db->scan([&](const auto& v) {
      rks.push_back(vh::span_to_bytes(v.get_key()));
      return false;
    }, false);
    std::string vsj = "[";
    for (std::size_t i = 0; i < vs.size(); ++i) {
      if (i) vsj += ',';
      vsj += '[';
      for (std::size_t j = 0; j < vs[i].size(); ++j) {
        if (j) vsj += ',';
        vsj += std::to_string(vs[i][j]);
      }
      vsj += ']';
    }
    vsj += ']';
    // every stored key is still found with its value (point lookups)
    bool gets_ok = true;
    for (const auto& k : ks) {
      const auto r = db->get(make_key(k));
      if (!Db::key_found(r)) gets_ok = false;
    }
    out.begin("dump").bytes_list("keys", ks).raw("vals", vsj).bytes_list("rkeys", rks).boolean("gets", gets_ok);
    log_state();
    out.end();
  }

  // run op() with the k-th allocation failing, k = 1, 2, ... until it completes
  template <class F>
  auto with_faults(const char* opname, const Bytes& k, F op) {
#ifdef NDEBUG
    (void)opname;
    (void)k;
    return op();  // the allocation failure injector exists in assertion-enabled builds only
#else
    if (!faults) return op();
    for (unsigned n = 1;; ++n) {
      bool threw = false;
#ifdef VERIF_HEAPWRAP
      vh_trace_n = 0;
      vh_trace_on = std::getenv("VERIF_HEAPTRACE") != nullptr;
#endif
      const long hb = heap_in_use();
      long ha = hb;
      unodb::test::allocation_failure_injector::fail_on_nth_allocation(n);
      try {
        auto r = op();
        unodb::test::allocation_failure_injector::reset();
        return r;
      } catch (const std::bad_alloc&) {
        unodb::test::allocation_failure_injector::reset();
        threw = true;
      }
      if (threw) {
        ha = heap_in_use();
#ifdef VERIF_HEAPWRAP
        vh_trace_on = 0;
        if (ha != hb && std::getenv("VERIF_HEAPTRACE") != nullptr) {
          std::fprintf(stderr, "HEAPTRACE n=%u:", n);
          for (int i = 0; i < vh_trace_n; ++i) std::fprintf(stderr, " %ld", vh_trace[i]);
          std::fprintf(stderr, "\n");
        }
#endif
        ++fault_points;
        out.begin("fail").str("op", opname).bytes("k", k).str("what", "bad_alloc").num("n", n);
        out.num("hb", hb).num("ha", ha).end();
        log_dump();
      }
      if (n > 64) std::abort();  // an operation cannot need that many allocations
    }
#endif
  }

  bool do_insert(const Bytes& k, std::size_t vlen) {
    const auto v = make_value(next_val_id++, vlen);
    const OpMark mark{"ins"};
    const bool r = with_faults("ins", k, [&] { return db->insert(make_key(k), unodb::value_view{v.data(), v.size()}); });
    out.begin("ins").bytes("k", k).nums("v", vh::value_repr({v.data(), v.size()}));
    out.num("vl", static_cast<long long>(vlen)).boolean("r", r);
    log_state();
    out.end();
    if (r) shadow.insert(k);
    ++ops_in_history;
    return r;
  }
  bool do_remove(const Bytes& k) {
    drop_views_of(k);  // a view is owed stability only while its entry exists
    const OpMark mark{"rem"};
    const bool r = with_faults("rem", k, [&] { return db->remove(make_key(k)); });
    out.begin("rem").bytes("k", k).boolean("r", r);
    log_state();
    out.end();
    if (r) shadow.erase(k);
    ++ops_in_history;
    return r;
  }
  // over-long key / value: std::length_error, nothing changes (C08)
  void do_length_errors() {
    static const std::byte fake{0};
    const std::size_t too_long = static_cast<std::size_t>(std::numeric_limits<std::uint32_t>::max()) + 1U;
    const Bytes k0 = shadow.empty() ? Bytes(kIsKv ? 3 : 8, 7) : *shadow.begin();
    Bytes knew = k0;
    knew.back() = static_cast<std::uint8_t>(knew.back() ^ 0x55);
    if (!shadow.count(knew) && insert_allowed(knew)) {
      bool threw = false;
      try {
        (void)db->insert(make_key(knew), unodb::value_view{&fake, too_long});
      } catch (const std::length_error&) {
        threw = true;
      }
      out.begin(threw ? "fail" : "nofail").str("op", "ins").bytes("k", knew).str("what", "length_error_value").num("n", 0);
      out.num("hb", 0).num("ha", 0).end();
      log_dump();
    }
#if SEQ_KEY == 1
    {
      bool threw = false;
      try {
        (void)db->insert(KeyT{&fake, too_long}, unodb::value_view{&fake, 1});
      } catch (const std::length_error&) {
        threw = true;
      }
      out.begin(threw ? "fail" : "nofail").str("op", "ins").bytes("k", Bytes{}).str("what", "length_error_key").num("n", 0);
      out.num("hb", 0).num("ha", 0).end();
      log_dump();
    }
#endif
  }
  void do_get(const Bytes& k) {
    const OpMark mark{"get"};
    if constexpr (kIsMutex) {
      const auto res = db->get(make_key(k));
      const bool found = Db::key_found(res);
      out.begin("get").bytes("k", k).boolean("r", found);
      if (found) {
        out.nums("v", vh::value_repr(*res.first));
        out.num("vl", static_cast<long long>(res.first->size()));
      }
      out.boolean("locked", res.second.owns_lock());
      out.end();
      if (found) {
        // re-read while the handle is held
        out.begin("recheck").bytes("k", k).nums("v", vh::value_repr(*res.first)).end();
      }
    } else {
      const auto res = db->get(make_key(k));
      const bool found = Db::key_found(res);
      out.begin("get").bytes("k", k).boolean("r", found);
      if (found) {
        const std::span<const std::byte> sp = raw_span(*res);
        out.nums("v", vh::value_repr(sp));
        out.num("vl", static_cast<long long>(sp.size()));
        if (views.size() < 16) views.push_back({k, sp});
      }
      out.end();
    }
    ++ops_in_history;
  }
  void do_recheck() {
    if (views.empty()) return;
    const auto& h = views[rng.below(views.size())];
    out.begin("recheck").bytes("k", h.k).nums("v", vh::value_repr(h.v)).end();
  }
  void do_empty() {
    const bool r = db->empty();
    out.begin("empty").boolean("r", r).end();
  }
  void do_clear() {
    views.clear();
    const OpMark mark{"clear"};
    db->clear();
    out.begin("clear");
    log_state();
    out.end();
    shadow.clear();
    ++ops_in_history;
  }
  void do_quiesce() {
    if constexpr (kIsOlc) {
      views.clear();  // OLC: views are owed stability only until the next quiescent state
      unodb::this_thread().quiescent();
      out.begin("quiesce").end();
    }
  }

  // ---------------------------------------------------------------- scans
  // kind: 0 all, 1 from, 2 range; halt = 0 never, h>0: visitor returns true on h-th call.
  // order: for key_view range scans, 0 = from-buffer below to-buffer, 1 = above, 2 = separate heap blocks
  void do_scan(int kind, const Bytes& from, const Bytes& to, bool fwd, long halt, int order) {
    const OpMark mark{"scan"};
    std::vector<Bytes> ks;
    std::vector<std::vector<int>> vs;
    long calls = 0, after_halt = 0;
    bool halted = false;
    auto fn = [&](const auto& v) {
      ++calls;
      if (halted) ++after_halt;
      ks.push_back(vh::span_to_bytes(v.get_key()));
      const auto val = v.get_value();
      vs.push_back(vh::value_repr(raw_span(val)));
      if (halt > 0 && calls == halt) {
        halted = true;
        return true;
      }
      return false;
    };
    // place key buffers
    std::vector<std::uint8_t> arena(2 * std::max(from.size(), to.size()) + 2);  // either key fits in either half
    Bytes f2, t2;
    KeyT kf{}, kt{};
#if SEQ_KEY == 1
    if (order == 2) {
      f2 = from;
      t2 = to;
      kf = make_key(f2);
      kt = make_key(t2);
    } else {
      std::uint8_t* lo = arena.data();
      std::uint8_t* hi = arena.data() + std::max(from.size(), to.size()) + 1;
      std::uint8_t* pf = order == 0 ? lo : hi;
      std::uint8_t* pt = order == 0 ? hi : lo;
      if (!from.empty()) std::memcpy(pf, from.data(), from.size());
      if (!to.empty()) std::memcpy(pt, to.data(), to.size());
      kf = KeyT{reinterpret_cast<const std::byte*>(pf), from.size()};
      kt = KeyT{reinterpret_cast<const std::byte*>(pt), to.size()};
    }
#else
    (void)order;
    kf = make_key(from);
    kt = make_key(to);
#endif
    if (kind == 0)
      db->scan(fn, fwd);
    else if (kind == 1)
      db->scan_from(kf, fn, fwd);
    else
      db->scan_range(kf, kt, fn);
    out.begin("scan").str("kind", kind == 0 ? "all" : kind == 1 ? "from" : "range");
    out.bytes("from", from).bytes("to", to).boolean("fwd", fwd).num("halt", halt);
    out.num("order", order).bytes_list("ks", ks);
    std::string vsj = "[";
    for (std::size_t i = 0; i < vs.size(); ++i) {
      if (i) vsj += ',';
      vsj += '[';
      for (std::size_t j = 0; j < vs[i].size(); ++j) {
        if (j) vsj += ',';
        vsj += std::to_string(vs[i][j]);
      }
      vsj += ']';
    }
    vsj += ']';
    out.raw("vs", vsj).num("after", after_halt).end();
  }

  // bounds derived from the spec's seek case analysis on the current shape
  static Bytes add1(Bytes b) {
    for (std::size_t i = b.size(); i-- > 0;) {
      if (++b[i] != 0) return b;
    }
    return Bytes(b.size(), 0xFF);
  }
  static Bytes sub1(Bytes b) {
    for (std::size_t i = b.size(); i-- > 0;) {
      if (b[i]-- != 0) return b;
    }
    return Bytes(b.size(), 0);
  }
  std::vector<Bytes> scan_bounds() {
    std::set<Bytes> bs;
    const std::size_t klen = shadow.empty() ? 8 : shadow.begin()->size();
    auto fit = [&](Bytes b, std::uint8_t fill, std::size_t len) {
      b.resize(len, fill);
      return b;
    };
    bs.insert(Bytes(klen, 0));
    bs.insert(Bytes(klen, 0xFF));
    std::vector<Bytes> keys(shadow.begin(), shadow.end());
    for (std::size_t i = 0; i < keys.size(); ++i) {
      const auto& k = keys[i];
      bs.insert(k);
      bs.insert(add1(k));
      bs.insert(sub1(k));
      // branch points on the path of k: lcp with neighbours in sorted order
      for (std::size_t j : {i == 0 ? i : i - 1, i + 1 < keys.size() ? i + 1 : i}) {
        if (j == i) continue;
        const std::size_t p = vh::lcp(k, keys[j]);
        // bound leaving the tree inside / at the branch point at position p
        for (std::size_t q = 0; q <= p && q < k.size(); ++q) {
          if (q + 2 < p) continue;  // sample: last two prefix positions and the branch byte
          Bytes b(k.begin(), k.begin() + static_cast<long>(q));
          if (k[q] > 0) {
            Bytes lo = b;
            lo.push_back(static_cast<std::uint8_t>(k[q] - 1));
            bs.insert(fit(lo, 0xFF, k.size()));
            bs.insert(fit(lo, 0x00, k.size()));
          }
          if (k[q] < 0xFF) {
            Bytes hi = b;
            hi.push_back(static_cast<std::uint8_t>(k[q] + 1));
            bs.insert(fit(hi, 0x00, k.size()));
            bs.insert(fit(hi, 0xFF, k.size()));
          }
        }
      }
    }
    std::vector<Bytes> r;
    for (const auto& b : bs) {
      if constexpr (kIsKv) {
        // keep bounds outside the prefix relation with stored keys
        bool bad = false;
        for (const auto& k : shadow) {
          const auto l = vh::lcp(b, k);
          if ((l == b.size() || l == k.size()) && b != k) bad = true;
        }
        if (bad) continue;
      }
      r.push_back(b);
    }
    return r;
  }

  void do_scans(long budget) {
    const auto bounds = scan_bounds();
    const long n = static_cast<long>(shadow.size());
    // full scans, both directions, halting at every position for small trees
    for (int fwd = 0; fwd < 2; ++fwd) {
      do_scan(0, {}, {}, fwd != 0, 0, 0);
      if (n <= 12) {
        for (long h = 1; h <= n + 1; ++h) do_scan(0, {}, {}, fwd != 0, h, 0);
      } else {
        do_scan(0, {}, {}, fwd != 0, 1 + static_cast<long>(rng.below(static_cast<std::uint64_t>(n))), 0);
      }
    }
    const bool exhaustive = static_cast<long>(bounds.size()) * 2 <= budget;
    const long nfrom = exhaustive ? static_cast<long>(bounds.size()) : budget / 2;
    for (long i = 0; i < nfrom; ++i) {
      const auto& b = exhaustive ? bounds[static_cast<std::size_t>(i)] : rng.pick(bounds);
      for (int fwd = 0; fwd < 2; ++fwd) {
        long halt = 0;
        if (rng.chance(30)) halt = 1 + static_cast<long>(rng.below(static_cast<std::uint64_t>(n + 1)));
        do_scan(1, b, {}, fwd != 0, halt, 0);
      }
    }
    const long nrange = budget;
    for (long i = 0; i < nrange; ++i) {
      const auto& a = rng.pick(bounds);
      Bytes b = rng.chance(10) ? a : rng.pick(bounds);
      if constexpr (kIsKv) {
        // the END bound of a range is only ever compared with the visited keys (never sought), so it may stand
        // in a prefix relation with stored keys: a proper prefix of one ("all keys below this prefix"), or a
        // stored key extended by a byte (seed c02e: the length tie-break of that comparison)
        if (!shadow.empty() && rng.chance(30)) {
          auto it = shadow.begin();
          std::advance(it, static_cast<long>(rng.below(shadow.size())));
          b = *it;
          const auto how = rng.below(4);
          if (how == 0) b.push_back(0x00);
          else if (how == 1) b.push_back(0xFF);
          else if (b.size() > 1) b.resize(1 + rng.below(b.size() - 1));
          if (b == a) b.push_back(0x01);
        }
      }
      long halt = 0;
      if (rng.chance(25)) halt = 1 + static_cast<long>(rng.below(static_cast<std::uint64_t>(n + 1)));
      if constexpr (kIsKv) {
        const int o = static_cast<int>(rng.below(3));
        do_scan(2, a, b, true, halt, o);
        do_scan(2, a, b, true, halt, (o + 1) % 3);
      } else {
        do_scan(2, a, b, true, halt, 0);
      }
    }
  }

  // ---------------------------------------------------------------- guidance
  // would inserting / removing k create a compressed segment longer than the
  // 7-byte prefix capacity?  (known finding D3: such key sets are excluded from
  // the generated histories and exercised by a dedicated scenario.)
  static bool chain_ok(const Bytes& k, const std::set<Bytes>& s) {
    std::set<std::size_t> ls;
    for (const auto& x : s)
      if (x != k) ls.insert(vh::lcp(k, x));
    long prev = -1;
    for (auto l : ls) {
      if (static_cast<long>(l) - (prev + 1) > 7) return false;
      prev = static_cast<long>(l);
    }
    return true;
  }
  bool insert_allowed(const Bytes& k) {
    if constexpr (!kIsKv) return true;
    if (shadow.count(k)) return true;
    for (const auto& x : shadow) {
      const auto l = vh::lcp(k, x);
      if (l == k.size() || l == x.size()) return false;  // prefix relation
    }
    auto s2 = shadow;
    s2.insert(k);
    if (!chain_ok(k, s2)) return false;
    // the split node's chain is a sub-chain of k's; siblings keep theirs
    return true;
  }
  bool remove_allowed(const Bytes& k) {
    if constexpr (!kIsKv) return true;
    if (!shadow.count(k)) return true;
    auto s2 = shadow;
    s2.erase(k);
    // the sibling subtree absorbs the dissolved node's prefix
    std::size_t best = 0;
    const Bytes* sib = nullptr;
    for (const auto& x : s2) {
      const auto l = vh::lcp(k, x);
      if (sib == nullptr || l > best) {
        best = l;
        sib = &x;
      }
    }
    if (sib == nullptr) return true;
    return chain_ok(*sib, s2);
  }

  std::size_t pick_vlen() {
    const auto i = rng.below(thorough ? kValLens.size() : kValLens.size());
    // long values are rare to keep traces small
    if (kValLens[i] >= 33 && !rng.chance(15)) return kValLens[rng.below(6)];
    return kValLens[i];
  }

  void maybe_extras() {
    if (rng.chance(6)) do_empty();
    if (rng.chance(10)) do_recheck();
    if (kIsOlc && rng.chance(5)) do_quiesce();
  }

  void try_insert(const Bytes& k) {
    if (insert_allowed(k)) do_insert(k, pick_vlen());
    maybe_extras();
  }
  void try_remove(const Bytes& k) {
    if (remove_allowed(k)) do_remove(k);
    maybe_extras();
  }

  // random mix over a key pool
  void mix(const std::vector<Bytes>& pool, long nops, unsigned ins_pct, unsigned rem_pct) {
    for (long i = 0; i < nops; ++i) {
      const auto& k = rng.pick(pool);
      const auto c = rng.below(100);
      if (c < ins_pct)
        try_insert(k);
      else if (c < ins_pct + rem_pct)
        try_remove(k);
      else {
        do_get(k);
        maybe_extras();
      }
    }
  }

  // ---------------------------------------------------------------- key pools
  Bytes fixed(std::initializer_list<int> pre, std::size_t len, std::uint8_t fill = 0) {
    Bytes b;
    for (int x : pre) b.push_back(static_cast<std::uint8_t>(x));
    b.resize(len, fill);
    return b;
  }
  std::size_t key_len() {
    if constexpr (kIsKv) return 1 + rng.below(12);
    return 8;
  }

  std::vector<Bytes> pool_dense(std::size_t len, std::size_t n) {
    std::vector<Bytes> p;
    const std::uint64_t base = rng.chance(50) ? 0 : rng.below(1000) * 251;
    for (std::size_t i = 0; i < n; ++i) {
      Bytes b = vh::u64_to_bytes(base + i);
      if (len >= 8) {
        Bytes k(len - 8, 0);
        k.insert(k.end(), b.begin(), b.end());
        p.push_back(k);
      } else {
        p.push_back(Bytes(b.end() - static_cast<long>(len), b.end()));
      }
    }
    if (len < 8) {
      std::sort(p.begin(), p.end());
      p.erase(std::unique(p.begin(), p.end()), p.end());
    }
    return p;
  }
  std::vector<Bytes> pool_sparse(std::size_t len, std::size_t n) {
    std::vector<Bytes> p;
    for (std::size_t i = 0; i < n; ++i) {
      Bytes k(len);
      for (auto& b : k) b = static_cast<std::uint8_t>(rng.below(256));
      p.push_back(k);
    }
    return p;
  }
  // keys that differ from a base key only in byte i, for each i; plus a few
  // values per position: deep shared prefixes, splits at every prefix position
  std::vector<Bytes> pool_deep(std::size_t len) {
    std::vector<Bytes> p;
    Bytes base(len);
    for (auto& b : base) b = static_cast<std::uint8_t>(rng.below(256));
    p.push_back(base);
    for (std::size_t i = 0; i < len; ++i) {
      const auto nvar = 1 + rng.below(3);
      for (std::uint64_t j = 0; j < nvar; ++j) {
        Bytes k = base;
        k[i] = static_cast<std::uint8_t>(k[i] + 1 + rng.below(254));
        // randomise the tail sometimes so that subtrees below differ
        if (rng.chance(40))
          for (std::size_t t = i + 1; t < len; ++t) k[t] = static_cast<std::uint8_t>(rng.below(4));
        p.push_back(k);
      }
    }
    return p;
  }
  // zero-terminated words over a small alphabet: variable-length prefix-free keys
  std::vector<Bytes> pool_words(std::size_t n) {
    std::vector<Bytes> p;
    for (std::size_t i = 0; i < n; ++i) {
      const auto l = rng.below(7);
      Bytes k;
      for (std::uint64_t j = 0; j < l; ++j) k.push_back(static_cast<std::uint8_t>(1 + rng.below(3)));
      k.push_back(0);
      p.push_back(k);
    }
    return p;
  }

  // ---------------------------------------------------------------- generators
  void gen_dense(long nops) {
    const auto len = key_len();
    const auto pool = pool_dense(len, 8 + rng.below(thorough ? 300 : 60));
    mix(pool, nops, 55, 25);
    do_scans(thorough ? 60 : 24);
    mix(pool, nops / 2, 20, 60);
  }
  void gen_sparse(long nops) {
    const auto len = key_len();
    const auto pool = pool_sparse(len, 6 + rng.below(thorough ? 120 : 40));
    mix(pool, nops, 50, 30);
    do_scans(thorough ? 60 : 24);
    mix(pool, nops / 2, 25, 55);
  }
  void gen_deep(long nops) {
    const std::size_t len = kIsKv ? 2 + rng.below(11) : 8;
    const auto pool = pool_deep(len);
    mix(pool, nops, 50, 30);
    do_scans(thorough ? 60 : 24);
    mix(pool, nops / 2, 25, 55);
  }
  void gen_words(long nops) {
    if constexpr (kIsKv) {
      const auto pool = pool_words(10 + rng.below(40));
      mix(pool, nops, 50, 30);
      do_scans(thorough ? 60 : 24);
      mix(pool, nops / 2, 25, 55);
    } else {
      gen_sparse(nops);
    }
  }
  // grow one node at a chosen depth from 2 to top children, then shrink it back
  // in random order, with sibling subtrees so that collapses meet leaf and inner
  // siblings; directed at InsGrow/RemShrink/RemCollapse* of every class.
  void gen_walker(std::size_t top) {
    const std::size_t len = kIsKv ? 2 + rng.below(9) : 8;
    const std::size_t depth = rng.below(len);  // branch byte position
    Bytes base(len);
    for (auto& b : base) b = static_cast<std::uint8_t>(rng.below(256));
    // siblings above the walked node
    if (depth > 0 && rng.chance(70)) {
      Bytes s = base;
      const auto pos = rng.below(depth);
      s[pos] = static_cast<std::uint8_t>(s[pos] + 1 + rng.below(200));
      try_insert(s);
      if (rng.chance(50)) {
        Bytes s2 = s;
        s2[len - 1] = static_cast<std::uint8_t>(s2[len - 1] + 1);
        try_insert(s2);
      }
    }
    std::vector<int> order(256);
    for (int i = 0; i < 256; ++i) order[static_cast<std::size_t>(i)] = i;
    for (std::size_t i = 255; i > 0; --i) std::swap(order[i], order[rng.below(i + 1)]);
    std::vector<Bytes> kids;
    for (std::size_t i = 0; i < top; ++i) {
      Bytes k = base;
      k[depth] = static_cast<std::uint8_t>(order[i]);
      kids.push_back(k);
      try_insert(k);
      // some children are inner nodes themselves
      if (depth + 1 < len && rng.chance(15)) {
        Bytes k2 = k;
        k2[len - 1] = static_cast<std::uint8_t>(k2[len - 1] + 1 + rng.below(3));
        kids.push_back(k2);
        try_insert(k2);
      }
      if (i == 3 || i == 4 || i == 15 || i == 16 || i == 47 || i == 48 || i + 1 == top) {
        if (shadow.size() <= 40 || rng.chance(30)) do_scans(thorough ? 40 : 12);
        // bounce across the boundary
        if (rng.chance(60)) {
          try_remove(k);
          try_insert(k);
        }
      }
    }
    for (std::size_t i = kids.size(); i > 1; --i) std::swap(kids[i - 1], kids[rng.below(i)]);
    for (const auto& k : kids) {
      try_remove(k);
      if (rng.chance(8)) do_get(k);
      const auto n = shadow.size();
      if ((n == 49 || n == 48 || n == 17 || n == 16 || n == 5 || n == 4 || n <= 3) && rng.chance(50))
        do_scans(thorough ? 30 : 8);
    }
  }
  void gen_clear_reuse(long nops) {
    const auto len = key_len();
    const auto pool = pool_sparse(len, 20);
    mix(pool, nops / 3, 70, 10);
    do_clear();
    do_empty();
    do_scans(4);
    mix(pool, nops / 3, 60, 20);
    do_clear();
    do_clear();
    mix(pool, nops / 3, 40, 40);
  }
  // tiny trees, every scan bound, every halt position
  void gen_tiny() {
    const std::size_t len = kIsKv ? 1 + rng.below(4) : 8;
    std::vector<Bytes> pool;
    const auto n = 1 + rng.below(7);
    for (std::uint64_t i = 0; i < n; ++i) {
      Bytes k(len, 0);
      if constexpr (!kIsKv) {
        // two-level trees as in D1: {0,1,0x100,0x101}
        k[7] = static_cast<std::uint8_t>(rng.below(4));
        k[6] = static_cast<std::uint8_t>(rng.below(3));
        if (rng.chance(20)) k[rng.below(6)] = static_cast<std::uint8_t>(rng.below(2));
      } else {
        for (auto& b : k) b = static_cast<std::uint8_t>(rng.below(3));
      }
      pool.push_back(k);
    }
    do_scans(8);  // empty tree
    for (const auto& k : pool) try_insert(k);
    do_scans(1000);
    for (const auto& k : pool) {
      try_remove(k);
      if (rng.chance(50)) do_scans(1000);
    }
  }

  // slot churn inside one node of every class: fill it to (almost) capacity, then remove
  // children inserted early / late and insert new key bytes, repeatedly; also reaches the
  // full inode_48 that a 256->48 shrink creates.  Directed at the free-slot search of
  // inode_48 and the sorted-array shifts of inode_4/16.
  void gen_slots() {
    const std::size_t len = kIsKv ? 3 + rng.below(6) : 8;
    const std::size_t depth = rng.below(len);
    Bytes base(len);
    for (auto& b : base) b = static_cast<std::uint8_t>(rng.below(256));
    static const int fills[] = {4, 16, 44, 48, 48, 52};
    const int fill = fills[rng.below(6)];
    std::vector<int> order(256);
    for (int i = 0; i < 256; ++i) order[static_cast<std::size_t>(i)] = i;
    for (std::size_t i = 255; i > 0; --i) std::swap(order[i], order[rng.below(i + 1)]);
    std::vector<Bytes> in;
    std::size_t nexti = 0;
    auto key_of = [&](int b) {
      Bytes k = base;
      k[depth] = static_cast<std::uint8_t>(b);
      return k;
    };
    for (int i = 0; i < fill; ++i) {
      in.push_back(key_of(order[nexti++]));
      try_insert(in.back());
    }
    if (fill > 48) {  // back to a full inode_48 through the 256 -> 48 shrink
      while (in.size() > 48) {
        try_remove(in.back());
        in.pop_back();
      }
    }
    for (int round = 0; round < 12; ++round) {
      const auto nrem = 1 + rng.below(3);
      for (std::uint64_t j = 0; j < nrem && in.size() > 2; ++j) {
        // early-inserted children sit in the low slots
        const std::size_t idx = rng.chance(70) ? rng.below(std::min<std::size_t>(in.size(), 8)) : rng.below(in.size());
        try_remove(in[idx]);
        in.erase(in.begin() + static_cast<long>(idx));
      }
      const auto nins = 1 + rng.below(3);
      for (std::uint64_t j = 0; j < nins && nexti < 256 && static_cast<int>(in.size()) < std::min(fill, 48); ++j) {
        in.push_back(key_of(order[nexti++]));
        try_insert(in.back());
      }
      if (round % 4 == 3) do_scans(6);
    }
    for (const auto& k : in) do_get(k);
  }

  // byte-level seek cases of one node of every class: children at chosen key bytes (0x00 and
  // 0xFF included most of the time, gaps in between), then a scan_from in both directions for
  // every bound whose byte at that node is a child byte, a neighbour of one, 0, 1, 254 or 255
  // (directed at begin/last/gte_key_byte/lte_key_byte of each class; ArtSeq's seek case
  // analysis: below all, between each pair of, above all children)
  void gen_bytes() {
    const std::size_t len = kIsKv ? 2 + rng.below(7) : 8;
    const std::size_t depth = rng.below(len);
    Bytes base(len);
    for (auto& b : base) b = static_cast<std::uint8_t>(rng.below(256));
    static const int sizes[] = {3, 5, 12, 17, 30, 49, 90};
    const int n = sizes[rng.below(7)];
    std::set<int> bytes;
    if (rng.chance(75)) bytes.insert(0);
    if (rng.chance(75)) bytes.insert(255);
    while (static_cast<int>(bytes.size()) < n) {
      // clustered, so that gaps next to 0x00 / 0xFF occur
      const int c = static_cast<int>(rng.below(256));
      bytes.insert(rng.chance(50) ? c : 8 + static_cast<int>(rng.below(240)));
    }
    // an entry above and below the node so that falling off it has somewhere to land
    if (depth > 0) {
      for (int dlt : {-1, 1}) {
        Bytes s = base;
        s[depth - 1] = static_cast<std::uint8_t>(s[depth - 1] + dlt);
        if (insert_allowed(s)) do_insert(s, 1);
      }
    }
    for (int b : bytes) {
      Bytes k = base;
      k[depth] = static_cast<std::uint8_t>(b);
      if (insert_allowed(k)) do_insert(k, pick_vlen());
    }
    // a node that reached its class by shrinking keeps holes: remove a few, sometimes
    if (rng.chance(50)) {
      int cnt = 0;
      for (int b : bytes) {
        if (rng.chance(15) && cnt < 6 && b != 0 && b != 255) {
          Bytes k = base;
          k[depth] = static_cast<std::uint8_t>(b);
          try_remove(k);
          ++cnt;
        }
      }
    }
    std::set<int> cand{0, 1, 254, 255};
    for (int b : bytes) {
      cand.insert(b);
      if (b > 0) cand.insert(b - 1);
      if (b < 255) cand.insert(b + 1);
    }
    Bytes other = base;
    other[depth] = static_cast<std::uint8_t>(rng.below(256));
    for (int b : cand) {
      for (int fill : {0x00, 0xFF}) {
        Bytes bd(base.begin(), base.begin() + static_cast<long>(depth));
        bd.push_back(static_cast<std::uint8_t>(b));
        bd.resize(len, static_cast<std::uint8_t>(fill));
        if constexpr (kIsKv) {
          bool bad = false;
          for (const auto& k : shadow) {
            const auto l = vh::lcp(bd, k);
            if ((l == bd.size() || l == k.size()) && bd != k) bad = true;
          }
          if (bad) continue;
        }
        do_scan(1, bd, {}, true, 0, 0);
        do_scan(1, bd, {}, false, rng.chance(30) ? 2 : 0, 0);
        if (rng.chance(25)) do_scan(2, bd, other, true, 0, static_cast<int>(rng.below(3)));
      }
    }
  }

  // chains of prefix edits on one path: a node's prefix is split (the split-created upper node keeps what is
  // left of the source prefix word), later its two-child parent collapses into it (prepend), later it
  // collapses into the node below (prepend again), with random prefix bytes and every admissible choice
  // of the three divergence positions a < c < b; long keys (9..16 bytes) for byte-string keys so that
  // prefix lengths sum up to the capacity.  Directed at key_prefix::cut/prepend and the split
  // constructor working on each other's results (seed c01c).
  void gen_splitcol() {
    const std::size_t len = kIsKv ? 9 + rng.below(8) : 8;
    for (int round = 0; round < 6; ++round) {
      Bytes base(len);
      for (auto& x : base) x = static_cast<std::uint8_t>(rng.below(256));
      if constexpr (!kIsKv) {
        // integer keys: keep the first bytes shared with earlier rounds sometimes (deeper trees)
        if (round > 0 && rng.chance(50)) base[0] = 0;
      }
      auto var = [&](std::size_t pos) {
        Bytes k = base;
        k[pos] = static_cast<std::uint8_t>(k[pos] + 1 + rng.below(255));
        for (std::size_t t = pos + 1; t < len; ++t)
          if (rng.chance(30)) k[t] = static_cast<std::uint8_t>(rng.below(256));
        return k;
      };
      const std::size_t a = rng.below(std::min<std::size_t>(6, len - 3));
      const std::size_t b = std::min(len - 1, a + 2 + rng.below(7));  // N's prefix: bytes a+1 .. b-1 (<= 7)
      if (b < a + 2) continue;
      const std::size_t c = a + 1 + rng.below(b - a - 1);               // split position inside N's prefix
      const Bytes X = var(a), Y = var(b), K = var(c), K2 = var(c);
      auto step = [&](int what, const Bytes& k) {
        if (what == 0)
          try_insert(k);
        else
          try_remove(k);
        for (const auto& q : {base, X, Y, K, K2}) do_get(q);
      };
      // R{X, N{base, Y}}
      if (rng.chance(50)) {
        step(0, X);
        step(0, base);
        step(0, Y);
      } else {
        step(0, base);
        step(0, X);
        step(0, Y);
      }
      step(0, K);   // splits N's prefix: S{K, N}
      step(1, X);   // R collapses into S (prepend into the split-created node)
      if (rng.chance(50)) do_scans(6);
      step(0, K2);  // another child of S (or a further split)
      step(1, K2);
      step(1, K);   // S collapses into N (prepend into the cut node)
      step(0, X);   // split the merged prefix again at a
      step(1, Y);   // N dissolves: its remaining leaf moves up
      step(0, Y);
      step(1, base);
      if (rng.chance(50)) do_scans(6);
      if (rng.chance(50)) {
        for (const auto& q : {X, Y, K}) step(1, q);
      }
    }
  }

  // a completely full inode_256 (fan-out exactly 256: its 8-bit child count wraps to 0), also below the root
  // and above inner children, then clear() / destruction / draining, and the 255-children neighbour (seed c10d)
  void gen_full256() {
    const std::size_t len = kIsKv ? 2 + rng.below(5) : 8;
    const std::size_t pos = rng.below(len - 1);
    Bytes base(len);
    for (auto& x : base) x = static_cast<std::uint8_t>(rng.below(256));
    const bool two_below = rng.chance(40);     // some children of the full node are inode_4s with two leaves
    const std::size_t skip = rng.chance(35) ? rng.below(256) : 256;   // 255 children instead of 256
    std::vector<Bytes> keys;
    for (std::size_t b = 0; b < 256; ++b) {
      if (b == skip) continue;
      Bytes k = base;
      k[pos] = static_cast<std::uint8_t>(b);
      keys.push_back(k);
      if (two_below && b % 8 == 3) {
        k[len - 1] = static_cast<std::uint8_t>(k[len - 1] + 1);
        keys.push_back(k);
      }
    }
    if (rng.chance(50)) {   // a sibling subtree above the full node
      Bytes k = base;
      k[0] = static_cast<std::uint8_t>(k[0] + 1);
      if (pos > 0) keys.push_back(k);
    }
    for (std::size_t i = keys.size(); i > 1; --i) std::swap(keys[i - 1], keys[rng.below(i)]);
    // no extras between the inserts: every event of the trace costs O(entries) in the trace specification
    for (const auto& k : keys)
      if (insert_allowed(k)) do_insert(k, rng.below(3));
    do_scans(2);
    const auto how = rng.below(3);
    if (how == 0) {
      do_clear();
    } else if (how == 1) {
      for (std::size_t i = 0; i < 3 && i < keys.size(); ++i) try_remove(keys[i]);
      for (std::size_t i = 0; i < 3 && i < keys.size(); ++i) try_insert(keys[i]);
      do_clear();
    }   // how == 2: the full tree is destroyed by the next reset / drained by run_history
    do_empty();
    for (std::size_t i = 0; i < 4 && i < keys.size(); ++i) do_get(keys[i]);
    if (how != 2) {
      try_insert(keys[0]);
      do_scans(1);
    }
  }

  void run_history(int which, long nops) {
    static const char* names[] = {"dense", "sparse", "deep", "words", "walker", "clear", "tiny", "slots", "bytes", "splitcol", "full256"};
    reset(names[which]);
    switch (which) {
      case 0: gen_dense(nops); break;
      case 1: gen_sparse(nops); break;
      case 2: gen_deep(nops); break;
      case 3: gen_words(nops); break;
      case 4: gen_walker(thorough ? (rng.chance(50) ? 256 : 60) : (rng.chance(25) ? 52 : 20)); break;
      case 5: gen_clear_reuse(nops); break;
      case 7: gen_slots(); break;
      case 8: gen_bytes(); break;
      case 9: gen_splitcol(); break;
      case 10: gen_full256(); break;
      default: gen_tiny(); break;
    }
    // final sweep: get of every key in the pool happened during mix; finish with a drain
    if (rng.chance(50)) {
      std::vector<Bytes> keys(shadow.begin(), shadow.end());
      for (std::size_t i = keys.size(); i > 1; --i) std::swap(keys[i - 1], keys[rng.below(i)]);
      for (const auto& k : keys) try_remove(k);
      do_empty();
    }
  }
};

using Driver = DriverT<DbT>;

// ------------------------------------------------------------------ replay of spec-generated histories
// input: one JSON-ish line per op produced by tools (simple text format):
//   I <hexkey> <vlen> | R <hexkey> | G <hexkey> | C | E | S (scans) | N (new history)
static Bytes unhex(const char* s) {
  Bytes b;
  for (; s[0] && s[1]; s += 2) {
    unsigned x;
    std::sscanf(s, "%2x", &x);
    b.push_back(static_cast<std::uint8_t>(x));
  }
  return b;
}

int main(int argc, char** argv) {
  std::uint64_t seed = 1;
  long histories = 7, nops = 200;
  const char* outp = nullptr;
  const char* replay = nullptr;
  bool thorough = false;
  bool faults = false;
  for (int i = 1; i < argc; ++i) {
    const std::string a = argv[i];
    if (a == "--seed" && i + 1 < argc) seed = std::strtoull(argv[++i], nullptr, 10);
    else if (a == "--histories" && i + 1 < argc) histories = std::atol(argv[++i]);
    else if (a == "--ops" && i + 1 < argc) nops = std::atol(argv[++i]);
    else if (a == "--out" && i + 1 < argc) outp = argv[++i];
    else if (a == "--replay" && i + 1 < argc) replay = argv[++i];
    else if (a == "--thorough") thorough = true;
    else if (a == "--faults") faults = true;
    else {
      std::fprintf(stderr, "unknown arg %s\n", a.c_str());
      return 2;
    }
  }
  FILE* f = outp ? std::fopen(outp, "w") : stdout;
  if (!f) return 2;
  {
    const HeapPause hp;
    g_reg.live.reserve(1 << 14);
  }
  unodb::verif::g_hook.store(hook_cb);
  g_out_file = f;
  std::signal(SIGABRT, crash_handler);
  std::signal(SIGSEGV, crash_handler);
  std::signal(SIGBUS, crash_handler);
  std::signal(SIGFPE, crash_handler);
  std::signal(SIGILL, crash_handler);
  std::signal(SIGALRM, hang_handler);
  vh::Json out(f);
  {
    Driver d(out, seed);
    d.thorough = thorough;
    d.faults = faults;
    d.header();
    if (replay != nullptr) {
      FILE* in = std::fopen(replay, "r");
      if (!in) return 2;
      char line[4096];
      d.reset("replay");
      while (std::fgets(line, sizeof line, in)) {
        char op = line[0];
        char hex[2048] = {0};
        long n = 0;
        if (op == 'I') {
          std::sscanf(line + 1, "%2047s %ld", hex, &n);
          d.do_insert(unhex(hex), static_cast<std::size_t>(n));
        } else if (op == 'R') {
          std::sscanf(line + 1, "%2047s", hex);
          d.do_remove(unhex(hex));
        } else if (op == 'G') {
          std::sscanf(line + 1, "%2047s", hex);
          d.do_get(unhex(hex));
        } else if (op == 'C') {
          d.do_clear();
        } else if (op == 'E') {
          d.do_empty();
        } else if (op == 'S') {
          d.do_scans(16);
        } else if (op == 'N') {
          d.reset("replay");
        }
      }
      std::fclose(in);
    } else {
      for (long h = 0; h < histories; ++h) {
        d.run_history(static_cast<int>(h % 11), nops);
        if (faults) d.do_length_errors();
      }
    }
    d.reset("end");
  }
  out.flush();
  if (outp) std::fclose(f);
  return 0;
}
