------------------------------- MODULE ArtSeq -------------------------------
(***************************************************************************)
(* Sequential semantics of the UnoDB index (db, mutex_db, olc_db used by   *)
(* one thread at a time): an ordered map from byte-string keys to values,  *)
(* together with the observable *shape* of the adaptive radix tree that    *)
(* stores it: which inner nodes exist (one per branch point of the key     *)
(* set), their fan-out and size class, the statistics counters and the     *)
(* memory accounting.  One action per public call; each call's structural  *)
(* case (the branch the code takes in insert_internal/remove_internal) is  *)
(* named so that coverage can be measured.                                 *)
(*                                                                         *)
(* Properties: C01 (map results), C02 (scan sequences), C10 (shape,        *)
(* counters, memory as functions of the key set), C08 (Fail = stutter),    *)
(* C16 (one spec for every build configuration).                           *)
(***************************************************************************)
EXTENDS ArtShape, FiniteSetsExt, SequencesExt, TLC

CONSTANTS Keys,      \* universe of keys: byte sequences, no key a prefix of another
          Vals,      \* universe of values: records [v |-> repr, n |-> byte length]
          NodeSize,  \* bytes of an inner node per size class
          LeafBase   \* bytes of a leaf with empty key and value

VARIABLES map,      \* DOMAIN map \subseteq Keys, map[k] \in Vals
          shape,    \* branch point (key prefix) -> set of next key bytes
          grow,     \* growing-inode counter per size class
          shrink,   \* shrinking-inode counter per size class
          splits    \* key prefix splits

vars == <<map, shape, grow, shrink, splits>>

-----------------------------------------------------------------------------
(* bytes, order, prefixes, declarative shape: see ArtShape.tla *)

NodeCount(c) == Cardinality({p \in DOMAIN shape : ClassOf(Cardinality(shape[p])) = c})
NodeCounts == [c \in 1..NClasses |-> NodeCount(c)]

LeafBytes(k) == LeafBase + Len(k) + map[k].n
MemUse == FoldSet(LAMBDA k, acc : acc + LeafBytes(k), 0, DOMAIN map)
          + FoldSet(LAMBDA p, acc : acc + NodeSize[ClassOf(Cardinality(shape[p]))], 0, DOMAIN shape)

-----------------------------------------------------------------------------
(* Initial state *)

Init == /\ map = <<>> /\ shape = <<>>
        /\ grow = Zero /\ shrink = Zero /\ splits = 0

-----------------------------------------------------------------------------
(* insert *)

InsertRes(k) == k \notin DOMAIN map

\* the position where k leaves the tree: longest prefix shared with a stored key
BranchLen(k, K) == MaxOf({Lcp(k, k2) : k2 \in K})

InsCase(k) ==
  IF k \in DOMAIN map THEN "InsDup"
  ELSE IF DOMAIN map = {} THEN "InsEmpty"
  ELSE LET j == BranchLen(k, DOMAIN map)
           p == SubSeq(k, 1, j)
       IN IF p \in DOMAIN shape
            THEN IF ClassOf(Cardinality(shape[p]) + 1) # ClassOf(Cardinality(shape[p]))
                   THEN "InsGrow" ELSE "InsAdd"
            ELSE IF Cardinality({k2 \in DOMAIN map : Lcp(k, k2) = j}) = 1
                   THEN "InsLeafSplit" ELSE "InsPrefixSplit"

InsertNew(k, v) ==
  /\ map' = (k :> v) @@ map
  /\ IF DOMAIN map = {} THEN UNCHANGED <<shape, grow, splits>>
     ELSE LET j == BranchLen(k, DOMAIN map)
              p == SubSeq(k, 1, j)
              b == k[j + 1]
          IN IF p \in DOMAIN shape
               THEN LET n == Cardinality(shape[p]) IN
                    /\ shape' = [shape EXCEPT ![p] = @ \cup {b}]
                    /\ grow' = IF ClassOf(n + 1) # ClassOf(n)
                                 THEN Bump(grow, ClassOf(n + 1)) ELSE grow
                    /\ UNCHANGED splits
               ELSE LET others == {k2 \in DOMAIN map : Lcp(k, k2) = j}
                        k2 == CHOOSE x \in others : TRUE
                    IN /\ shape' = (p :> {b, k2[j + 1]}) @@ shape
                       /\ grow' = Bump(grow, 1)
                       /\ splits' = IF Cardinality(others) >= 2 THEN splits + 1 ELSE splits
  /\ UNCHANGED shrink

DoInsert(k, v) == IF k \in DOMAIN map THEN UNCHANGED vars ELSE InsertNew(k, v)

-----------------------------------------------------------------------------
(* remove *)

RemoveRes(k) == k \in DOMAIN map

RemCase(k) ==
  IF k \notin DOMAIN map THEN "RemAbsent"
  ELSE IF Cardinality(DOMAIN map) = 1 THEN "RemRootLeaf"
  ELSE LET j == BranchLen(k, DOMAIN map \ {k})
           p == SubSeq(k, 1, j)
           n == Cardinality(shape[p])
       IN IF n = 2
            THEN LET sib == CHOOSE b \in shape[p] : b # k[j + 1] IN
                 IF Cardinality({x \in DOMAIN map : PrefixOf(Append(p, sib), x)}) >= 2
                   THEN "RemCollapseInnerSibling" ELSE "RemCollapseLeafSibling"
            ELSE IF ClassOf(n - 1) # ClassOf(n) THEN "RemShrink" ELSE "RemChild"

RemoveOld(k) ==
  /\ map' = [x \in DOMAIN map \ {k} |-> map[x]]
  /\ IF Cardinality(DOMAIN map) = 1 THEN UNCHANGED <<shape, shrink>>
     ELSE LET j == BranchLen(k, DOMAIN map \ {k})
              p == SubSeq(k, 1, j)
              S == shape[p] \ {k[j + 1]}
              n == Cardinality(shape[p])
          IN IF Cardinality(S) = 1
               THEN /\ shape' = [x \in DOMAIN shape \ {p} |-> shape[x]]
                    /\ shrink' = Bump(shrink, 1)
               ELSE /\ shape' = [shape EXCEPT ![p] = S]
                    /\ shrink' = IF ClassOf(n - 1) # ClassOf(n)
                                   THEN Bump(shrink, ClassOf(n)) ELSE shrink
  /\ UNCHANGED <<grow, splits>>

DoRemove(k) == IF k \in DOMAIN map THEN RemoveOld(k) ELSE UNCHANGED vars

-----------------------------------------------------------------------------
(* get, empty, clear, failed calls *)

GetFound(k) == k \in DOMAIN map
GetVal(k) == map[k]
EmptyRes == DOMAIN map = {}

DoClear == /\ map' = <<>> /\ shape' = <<>>
         /\ UNCHANGED <<grow, shrink, splits>>

\* A call that throws (allocation failure, over-long key or value) is a
\* stuttering step on every observable (C08).
Fail == UNCHANGED vars

-----------------------------------------------------------------------------
(* scans (C02) *)

\* kind \in {"all","from","range"}
Interval(kind, from, to, fwd) ==
  CASE kind = "all" -> DOMAIN map
    [] kind = "from" -> IF fwd THEN {k \in DOMAIN map : LexLeq(from, k)}
                               ELSE {k \in DOMAIN map : LexLeq(k, from)}
    [] kind = "range" -> IF LexLess(from, to)
                           THEN {k \in DOMAIN map : LexLeq(from, k) /\ LexLess(k, to)}
                         ELSE IF LexLess(to, from)
                           THEN {k \in DOMAIN map : LexLess(to, k) /\ LexLeq(k, from)}
                         ELSE {}

ScanFwd(kind, from, to, fwd) ==
  CASE kind = "all" -> fwd
    [] kind = "from" -> fwd
    [] kind = "range" -> LexLess(from, to)

\* The expected visit sequence (reference definition, by sorting)
ScanSeq(kind, from, to, fwd) ==
  LET I == Interval(kind, from, to, fwd)
      up == ScanFwd(kind, from, to, fwd)
  IN IF up THEN SetToSortSeq(I, LexLess)
           ELSE SetToSortSeq(I, LAMBDA a, b : LexLess(b, a))

Take(s, n) == SubSeq(s, 1, Min2(n, Len(s)))

\* halt = 0: the visitor never returns true; halt = h > 0: it returns true
\* on its h-th call.
ScanExpected(kind, from, to, fwd, halt) ==
  LET s == ScanSeq(kind, from, to, fwd) IN IF halt = 0 THEN s ELSE Take(s, halt)

\* The same judgement without sorting (used for trace validation):
\* ks is the visited key sequence.
ScanOK(ks, kind, from, to, fwd, halt) ==
  LET I == Interval(kind, from, to, fwd)
      up == ScanFwd(kind, from, to, fwd)
      Before(a, b) == IF up THEN LexLess(a, b) ELSE LexLess(b, a)
      n == Len(ks)
  IN /\ \A i \in 1..n : ks[i] \in I
     /\ \A i \in 1..(n - 1) : Before(ks[i], ks[i + 1])
     /\ IF n = 0 THEN I = {}
        ELSE {k \in I : k = ks[n] \/ Before(k, ks[n])} = {ks[i] : i \in 1..n}
     /\ IF halt = 0 \/ n < halt THEN Cardinality(I) = n ELSE n = halt

-----------------------------------------------------------------------------
(* Next-state relation of the abstract index *)

Next == \/ \E k \in Keys, v \in Vals : DoInsert(k, v)
        \/ \E k \in Keys : DoRemove(k)
        \/ DoClear

Spec == Init /\ [][Next]_vars

-----------------------------------------------------------------------------
(* Invariants (C10) *)

TypeOK == /\ DOMAIN map \subseteq Keys
          /\ \A k \in DOMAIN map : map[k] \in Vals

\* incremental shape = declarative radix tree of the key set; every node has
\* at least two children (path compression)
ShapeCanonical == /\ shape = CanonShape(DOMAIN map)
                  /\ \A p \in DOMAIN shape : Cardinality(shape[p]) >= 2

\* an empty index reports nothing
EmptyIsZero == DOMAIN map = {} => /\ shape = <<>> /\ MemUse = 0
                                  /\ \A c \in 1..NClasses : NodeCount(c) = 0

\* number of inner nodes never exceeds keys - 1
NodeBound == DOMAIN map # {} => Cardinality(DOMAIN shape) <= Cardinality(DOMAIN map) - 1

\* counters never decrease, and move only when the inner-node population
\* changes class membership (node created, replaced by another class, dissolved)
CountersMonotoneStep ==
  /\ \A c \in 1..NClasses : grow'[c] >= grow[c] /\ shrink'[c] >= shrink[c]
  /\ splits' >= splits
  /\ (grow' # grow \/ shrink' # shrink) =>
        \/ NodeCounts' # NodeCounts
        \/ DOMAIN shape' # DOMAIN shape
  /\ (map' # <<>> /\ NodeCounts' # NodeCounts) => (grow' # grow \/ shrink' # shrink)
CountersMonotone == [][CountersMonotoneStep]_vars

\* The two scan judgements agree (self-consistency of the oracle used on traces)
ScanJudgementsAgree ==
  \A kind \in {"all", "from", "range"} : \A from \in Keys, to \in Keys : \A fwd \in BOOLEAN :
    \A halt \in 0..2 :
      LET e == ScanExpected(kind, from, to, fwd, halt) IN
      /\ ScanOK(e, kind, from, to, fwd, halt)
      /\ (Len(e) > 0 => ~ScanOK(Tail(e), kind, from, to, fwd, halt))
      /\ (Len(e) > 1 => ~ScanOK(<<e[2], e[1]>> \o SubSeq(e, 3, Len(e)), kind, from, to, fwd, halt))
=============================================================================
