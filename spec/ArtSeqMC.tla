------------------------------ MODULE ArtSeqMC ------------------------------
(* Model-checking instances of ArtSeq: small key universes on which every   *)
(* structural case and size-class transition occurs (capacities scaled to   *)
(* <<2,4,6,8>> so that fan-out 8 reaches all four classes).                  *)
EXTENDS ArtSeq

\* 16 two-byte keys: two subtrees of fan-out up to 8
Keys16 == {<<a, b>> : a \in 0..1, b \in 0..7}
\* 8 three-byte keys: prefix splits and collapses with inner siblings
Keys8 == {<<a, b, c>> : a \in 0..1, b \in 0..1, c \in 0..1}
\* variable-length prefix-free keys with compressed segments
KeysVar == {<<0>>, <<1, 0>>, <<1, 1, 0>>, <<1, 1, 1, 5, 5>>, <<1, 1, 1, 5, 6>>,
            <<2, 7, 7, 7, 0>>, <<2, 7, 7, 7, 1>>, <<2, 7, 8>>}
OneVal == {[v |-> <<7>>, n |-> 1]}
TwoVals == {[v |-> <<7>>, n |-> 1], [v |-> <<8, 8>>, n |-> 2]}
SmallCaps == <<2, 4, 6, 8>>
SmallSizes == <<10, 20, 30, 40>>

MCView == <<map, shape>>

\* every value returned by get is the value given to the insert that created
\* the entry: by construction of map; stated for the record
MapIsFunctionOfHistory == \A k \in DOMAIN map : map[k] \in Vals
=============================================================================
