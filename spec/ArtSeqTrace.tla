----------------------------- MODULE ArtSeqTrace -----------------------------
(***************************************************************************)
(* Trace validation of recorded sequential executions of the real index    *)
(* (harness/seq_driver.cpp) against ArtSeq.  Every event is one public     *)
(* call; its logged result, scan output, statistics and allocator bytes    *)
(* must be exactly what ArtSeq's action for that call yields.  Fully       *)
(* logged, hence deterministic: accepted iff the whole trace is consumed.  *)
(***************************************************************************)
EXTENDS ArtSeq, Json, IOUtils

VARIABLES l,      \* next line of the trace
          views   \* value views handed out and still owed stability: key -> value

JTrace == ndJsonDeserialize(IOEnv.TRACE)
Hdr == JTrace[1]

TrCaps == <<4, 16, 48, 256>>
TrNodeSize == Hdr.sizes
TrLeafBase == Hdr.leafbase
TrKeys == {}
TrVals == {}
HasStats == Hdr.stats
IsOlc == Hdr.db = "olc"

\* Which clauses are enforced (one trace spec serves several properties):
\*   all - everything;  C01 - call results and value views;  C02 - scan output;
\*   C10 - statistics, memory accounting and allocator bytes.
\* insert/remove results are always enforced (they synchronise the state).
Mode == IF "MODE" \in DOMAIN IOEnv THEN IOEnv.MODE ELSE "all"
CheckPoint == Mode \in {"all", "C01", "C08", "C16"}
CheckScans == Mode \in {"all", "C02", "C08", "C16"}
CheckStats == Mode \in {"all", "C10", "C08", "C16"}

tvars == <<vars, l, views>>
Ev == JTrace[l]

Val(e) == [v |-> e.v, n |-> e.vl]

\* statistics and allocator bytes logged after the call equal the spec's
StatsOK(e) == CheckStats =>
  /\ HasStats =>
       /\ e.st[1] = Cardinality(DOMAIN map')
       /\ <<e.st[2], e.st[3], e.st[4], e.st[5]>> = NodeCounts'
       /\ e.st[6] = MemUse'
       /\ <<e.st[7], e.st[8], e.st[9], e.st[10]>> = grow'
       /\ <<e.st[11], e.st[12], e.st[13], e.st[14]>> = shrink'
       /\ e.st[15] = splits'
  \* bytes held from the allocator = reported memory use (nothing awaits
  \* deferred reclamation in a single-threaded history)
  /\ e.held = MemUse'

CovNames == <<"InsDup", "InsEmpty", "InsLeafSplit", "InsPrefixSplit", "InsAdd", "InsGrow",
             "RemAbsent", "RemRootLeaf", "RemCollapseInnerSibling", "RemCollapseLeafSibling",
             "RemShrink", "RemChild", "GetHit", "GetMiss", "Clear", "Recheck",
             "ScanAll", "ScanFrom", "ScanRange", "ScanHalted", "ScanEmpty", "Reset", "Fail">>
CovIdx(name) == 100 + (CHOOSE i \in 1..Len(CovNames) : CovNames[i] = name)
\* fault points that actually threw, per (structural case, index of the failed allocation)
FaultCases == <<"InsEmpty", "InsLeafSplit", "InsPrefixSplit", "InsAdd", "InsGrow", "InsDup",
                "RemRootLeaf", "RemCollapseInnerSibling", "RemCollapseLeafSibling", "RemShrink", "RemChild", "RemAbsent",
                "length_error_value", "length_error_key">>
FaultIdx(c, n) == 300 + 8 * (CHOOSE i \in 1..Len(FaultCases) : FaultCases[i] = c) + (IF n < 7 THEN n ELSE 7)
FaultCov(c, n) == TLCSet(FaultIdx(c, n), TLCGet(FaultIdx(c, n)) + 1)
Cov(name) == TLCSet(CovIdx(name), TLCGet(CovIdx(name)) + 1)

TInsert ==
  /\ Ev.e = "ins"
  /\ Ev.r = InsertRes(Ev.k)
  /\ Cov(InsCase(Ev.k))
  /\ DoInsert(Ev.k, Val(Ev))
  /\ StatsOK(Ev)
  /\ UNCHANGED views

TRemove ==
  /\ Ev.e = "rem"
  /\ Ev.r = RemoveRes(Ev.k)
  /\ Cov(RemCase(Ev.k))
  /\ DoRemove(Ev.k)
  /\ StatsOK(Ev)
  /\ views' = [k \in DOMAIN views \ {Ev.k} |-> views[k]]

TGet ==
  /\ Ev.e = "get"
  /\ CheckPoint => /\ Ev.r = GetFound(Ev.k)
                   /\ Ev.r => Val(Ev) = GetVal(Ev.k)
                   \* mutex index: a hit returns holding the lock, a miss does not (C13)
                   /\ ("locked" \in DOMAIN Ev) => (Ev.locked = Ev.r)
  /\ IF GetFound(Ev.k) THEN Cov("GetHit") /\ views' = (Ev.k :> map[Ev.k]) @@ views
                        ELSE Cov("GetMiss") /\ UNCHANGED views
  /\ UNCHANGED vars

\* an earlier value view is re-read: the entry still exists, so the bytes are
\* those of the entry
TRecheck ==
  /\ Ev.e = "recheck"
  /\ CheckPoint => /\ Ev.k \in DOMAIN views
                   /\ Ev.k \in DOMAIN map
                   /\ Ev.v = views[Ev.k].v /\ Ev.v = map[Ev.k].v
  /\ Cov("Recheck")
  /\ UNCHANGED <<vars, views>>

TEmpty ==
  /\ Ev.e = "empty"
  /\ CheckPoint => Ev.r = EmptyRes
  /\ UNCHANGED <<vars, views>>

TClear ==
  /\ Ev.e = "clear"
  /\ DoClear
  /\ StatsOK(Ev)
  /\ Cov("Clear")
  /\ views' = <<>>

\* OLC: the caller's quiescent state ends the validity of its views
TQuiesce ==
  /\ Ev.e = "quiesce"
  /\ views' = <<>>
  /\ UNCHANGED vars

TScan ==
  /\ Ev.e = "scan"
  /\ CheckScans =>
       /\ ScanOK(Ev.ks, Ev.kind, Ev.from, Ev.to, Ev.fwd, Ev.halt)
       /\ Len(Ev.vs) = Len(Ev.ks)
       /\ \A i \in 1..Len(Ev.ks) : Ev.vs[i] = map[Ev.ks[i]].v
       /\ Ev.after = 0                \* no visitor call after it returned true
  /\ Cov(CASE Ev.kind = "all" -> "ScanAll" [] Ev.kind = "from" -> "ScanFrom" [] OTHER -> "ScanRange")
  /\ (Ev.halt > 0 /\ Len(Ev.ks) = Ev.halt) => Cov("ScanHalted")
  /\ (Len(Ev.ks) = 0) => Cov("ScanEmpty")
  /\ UNCHANGED <<vars, views>>

\* a failed call (exception reached the caller): stuttering step; the full
\* observable state logged after it must be the unchanged spec state (C08)
TFail ==
  /\ Ev.e = "fail"
  /\ Fail
  \* "nothing leaked" is judged by the allocator registry: the dump that follows must
  \* show held = MemUse, and held = 0 once the index is destroyed (hb/ha are informative)
  /\ Cov("Fail")
  /\ LET c == IF Ev.what # "bad_alloc" THEN Ev.what
              ELSE IF Ev.op = "ins" THEN InsCase(Ev.k) ELSE RemCase(Ev.k)
     IN FaultCov(c, Ev.n)
  /\ UNCHANGED views

\* full dump of the observable state: entries, both full scans, statistics
TDump ==
  /\ Ev.e = "dump"
  /\ UNCHANGED vars
  /\ CheckPoint =>
       /\ {Ev.keys[i] : i \in 1..Len(Ev.keys)} = DOMAIN map
       /\ Len(Ev.keys) = Cardinality(DOMAIN map)
       /\ \A i \in 1..Len(Ev.keys) : Ev.vals[i] = map[Ev.keys[i]].v
  /\ CheckScans =>
       /\ ScanOK(Ev.keys, "all", <<>>, <<>>, TRUE, 0)
       /\ ScanOK(Ev.rkeys, "all", <<>>, <<>>, FALSE, 0)
  /\ StatsOK(Ev)
  /\ ("gets" \in DOMAIN Ev) => Ev.gets      \* every stored key is still found by a point lookup
  /\ UNCHANGED views

\* the index is destroyed (everything has been returned to the allocator) and a
\* fresh one is created
ResetVars == /\ map' = <<>> /\ shape' = <<>> /\ grow' = Zero /\ shrink' = Zero /\ splits' = 0

TNext ==
  /\ l <= Len(JTrace)
  /\ l' = l + 1
  /\ \/ TInsert \/ TRemove \/ TGet \/ TRecheck \/ TEmpty \/ TClear \/ TQuiesce
     \/ TScan \/ TFail \/ TDump
     \/ (Ev.e = "reset" /\ (CheckStats => Ev.held = 0) /\ ResetVars /\ Cov("Reset") /\ views' = <<>>)

TInit == /\ Init /\ l = 2 /\ views = <<>>
         /\ \A i \in 1..Len(CovNames) : TLCSet(100 + i, 0)
         /\ \A i \in 300..(300 + 8 * (Len(FaultCases) + 1)) : TLCSet(i, 0)

TSpec == TInit /\ [][TNext]_tvars

\* shape canonicity is quadratic in the number of keys: checked on small maps
ShapeCanonicalSmall == (CheckStats /\ Cardinality(DOMAIN map) <= 10) => ShapeCanonical

TraceAccepted ==
  /\ PrintT(<<"COV", [i \in 1..Len(CovNames) |-> <<CovNames[i], TLCGet(100 + i)>>]>>)
  /\ PrintT(<<"FAULTCOV", {<<FaultCases[i], n, TLCGet(300 + 8 * i + n)>> : i \in 1..Len(FaultCases), n \in 0..7}>>)
  /\ TLCGet("stats").diameter = Len(JTrace)
=============================================================================
