------------------------------ MODULE ArtShape ------------------------------
(***************************************************************************)
(* Constant-level definitions shared by the index specifications: byte     *)
(* strings, their order, and the declarative shape of the path-compressed  *)
(* radix tree of a key set (one inner node per branch point, in the        *)
(* smallest size class that fits its fan-out).                             *)
(***************************************************************************)
EXTENDS Naturals, Sequences, FiniteSets

CONSTANT Caps      \* inner node capacities, <<4,16,48,256>> in the real code

-----------------------------------------------------------------------------
(* Bytes, order, prefixes *)

Min2(a, b) == IF a <= b THEN a ELSE b

RECURSIVE LcpFrom(_, _, _)
LcpFrom(a, b, i) == IF i > Len(a) \/ i > Len(b) \/ a[i] # b[i] THEN i - 1
                    ELSE LcpFrom(a, b, i + 1)
Lcp(a, b) == LcpFrom(a, b, 1)       \* length of the longest common prefix

PrefixOf(p, k) == Len(p) <= Len(k) /\ Lcp(p, k) = Len(p)

\* byte-wise lexicographic order; a proper prefix sorts first
LexLess(a, b) == LET j == Lcp(a, b) IN
                 IF j = Len(a) THEN j < Len(b)
                 ELSE IF j = Len(b) THEN FALSE
                 ELSE a[j + 1] < b[j + 1]
LexLeq(a, b) == a = b \/ LexLess(a, b)

MaxOf(S) == CHOOSE x \in S : \A y \in S : y <= x

-----------------------------------------------------------------------------
(* Shape *)

NClasses == Len(Caps)
ClassOf(n) == CHOOSE c \in 1..NClasses : n <= Caps[c] /\ (c = 1 \/ n > Caps[c - 1])
MinSize(c) == IF c = 1 THEN 2 ELSE Caps[c - 1] + 1
Bump(f, c) == [f EXCEPT ![c] = @ + 1]
Zero == [c \in 1..NClasses |-> 0]

\* The declarative shape: the path-compressed radix tree of a key set
BranchPoints(K) == {SubSeq(k1, 1, Lcp(k1, k2)) : k1 \in K, k2 \in K} \ K
CanonShape(K) == [p \in BranchPoints(K) |-> {k[Len(p) + 1] : k \in {x \in K : PrefixOf(p, x)}}]


\* node counts per size class of a shape
ShapeCounts(sh) == [c \in 1..NClasses |-> Cardinality({p \in DOMAIN sh : ClassOf(Cardinality(sh[p])) = c})]
=============================================================================
