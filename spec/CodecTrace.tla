----------------------------- MODULE CodecTrace ------------------------------
(***************************************************************************)
(* Trace validation of what the real unodb::key_encoder / key_decoder did  *)
(* (harness/codec_driver.cpp) against KeyCodec, at the real widths:        *)
(* 8..64-bit integers, binary32 / binary64, MaxLen = 65532.                *)
(*                                                                         *)
(* Line 1 of the trace is a header, every other line one batch of events   *)
(* of one schema.  An event (item) is one key: the component values v      *)
(* given to the encoder, the key bytes enc it produced, the key length     *)
(* ends[i] after each component, the reported size sz, the values dec the  *)
(* decoder returned for the leading fixed-size components and, where the   *)
(* encoder under test was a reused / grown one, the bytes ref of fresh     *)
(* encoders for the same components.  The driver only records.             *)
(*                                                                         *)
(* Per event:     EncBytes    enc is the specification's encoding    (C11) *)
(*                RoundTrip   dec = v bit for bit, quiet NaN for NaN (C12) *)
(*                CanonNaN    every NaN decodes to the same NaN      (C12) *)
(*                FixedWidth  fixed-size components occupy their     (C12) *)
(*                            width, sizes reported = bytes produced       *)
(*                Reuse       enc = ref                              (C12) *)
(*                TextBounds  text emits <= min(len, MaxLen) + 3     (C15) *)
(* Per pair:      Order       order of enc = order of v              (C11) *)
(*                EqualIff    enc equal iff v equal after normal.    (C15) *)
(*                PrefixFree  else neither enc a prefix of the other (C15) *)
(* Other events:  GuardFault  the encoder touched the guard page     (C15) *)
(*                            behind the MaxLen-th input byte              *)
(*                Header      maxlen / run-length width as specified (C15) *)
(*                                                                         *)
(* Which pairs.  The driver presents the events of a batch sorted by       *)
(* value.  The specification itself checks that (ValSorted) and that the   *)
(* key bytes are sorted (EncSorted); if both hold, checking adjacent pairs *)
(* is checking all pairs:                                                  *)
(*  - if e_i is a prefix of e_j, i < j, then every byte string between     *)
(*    them in byte order has e_i as a prefix too (a string x with          *)
(*    e_i <= x <= e_j that deviates from e_i at some position is either    *)
(*    below e_i or above e_j), so e_i is a prefix of e_(i+1);              *)
(*  - if e_i = e_j then all of e_i..e_j are equal, so normal-equality of   *)
(*    v_i, v_j follows from the adjacent pairs by transitivity; if v_i,    *)
(*    v_j are normal-equal then so are all of v_i..v_j (sorted by value)   *)
(*    and equality of e_i, e_j follows from the adjacent pairs.            *)
(* If a batch is not sorted both ways (text with interior zero bytes, for  *)
(* which C11 claims nothing) or asks for it (pw), all pairs are checked.   *)
(* Order (C11) is demanded of adjacent pairs, of all pairs if pw.          *)
(*                                                                         *)
(* Every event is judged; a rejected one is printed (line, batch id,       *)
(* stratum, number rejected, <<item, other item or 0, clause>>) and        *)
(* counted instead of blocking the behaviour, so that one run names every  *)
(* rejected event.  The trace is accepted iff all lines were consumed and  *)
(* nothing was rejected.  Stateless apart from the line counter: events do *)
(* not depend on each other.                                               *)
(***************************************************************************)
EXTENDS KeyCodec, Json, IOUtils

VARIABLE l          \* next line of the trace

JTrace == ndJsonDeserialize(IOEnv.TRACE)
Hdr == JTrace[1]

\* the real constants: maxlen = 2^16 - 1 - sizeof(pad) - sizeof(size_type)
TrMaxLen == 65532
TrLenBytes == 2

\* which clauses are enforced: "all" or the property being checked
Mode == IF "MODE" \in DOMAIN IOEnv THEN IOEnv.MODE ELSE "all"
PropOf(c) == CASE c \in {"EncBytes", "Order"} -> "C11"
               [] c \in {"RoundTrip", "CanonNaN", "FixedWidth", "Reuse"} -> "C12"
               [] c \in {"TextBounds", "EqualIff", "PrefixFree", "GuardFault", "Header"} -> "C15"
On(c) == Mode = "all" \/ Mode = PropOf(c)

TypeOf(name) == CASE name = "u8" -> UInt(1) [] name = "u16" -> UInt(2)
                  [] name = "u32" -> UInt(4) [] name = "u64" -> UInt(8)
                  [] name = "i8" -> SInt(1) [] name = "i16" -> SInt(2)
                  [] name = "i32" -> SInt(4) [] name = "i64" -> SInt(8)
                  [] name = "f32" -> Float(8, <<23>>)             \* binary32
                  [] name = "f64" -> Float(11, <<26, 26>>)        \* binary64, two limbs
                  [] name = "text" -> Text

\* number of leading fixed-size components: what the decoder can decode
LeadingFixed(sch) == LET t == SelectInSeq(sch, LAMBDA ty : ~IsFixed(ty))
                     IN IF t = 0 THEN Len(sch) ELSE t - 1

ItemClauses == {c \in {"EncBytes", "RoundTrip", "CanonNaN", "FixedWidth", "Reuse", "TextBounds"} : On(c)}
PairClauses == {c \in {"Order", "EqualIff", "PrefixFree"} : On(c)}

ItemOK(c, names, sch, it) ==
  CASE c = "EncBytes" -> it.enc = EncKey(sch, it.v)
    [] c = "RoundTrip" -> Len(it.dec) = LeadingFixed(sch) /\ RoundTripOn(sch, it.v, it.dec)
    [] c = "CanonNaN" -> \A i \in 1..Len(it.dec) :
                            (sch[i].k = "f" /\ IsNaN(sch[i], it.v[i])) => it.dec[i] = Hdr.canon[names[i]]
    [] c = "FixedWidth" -> /\ Len(it.ends) = Len(sch)
                           /\ FixedWidthOn(sch, it.ends)
                           /\ it.sz = Len(it.enc)
                           /\ it.ends[Len(sch)] = Len(it.enc)
    [] c = "Reuse" -> ("ref" \in DOMAIN it) => it.enc = it.ref
    [] c = "TextBounds" -> Len(it.ends) = Len(sch) /\ TextBoundsOn(sch, it.v, it.ends)

PairOK(c, sch, a, b) ==
  CASE c = "Order" -> OrderOn(sch, a.v, b.v, a.enc, b.enc)
    [] c = "EqualIff" -> EqualIffOn(sch, a.v, b.v, a.enc, b.enc)
    [] c = "PrefixFree" -> PrefixFreeOn(sch, a.v, b.v, a.enc, b.enc)

EncSorted(its) == \A i \in 1..(Len(its) - 1) : ~BytesLess(its[i + 1].enc, its[i].enc)
ValSorted(sch, its) == \A i \in 1..(Len(its) - 1) : ~KeyLess(sch, its[i + 1].v, its[i].v)

\* the rejected <<item, 0, clause>> and <<item, item, clause>> of a batch
BatchBad(b) ==
  LET names == b.sch
      sch == [i \in 1..Len(names) |-> TypeOf(names[i])]
      its == b.items
      n == Len(its)
      every == {<<i, j>> \in (1..n) \X (1..n) : i < j}
      adjacent == {<<i, i + 1>> : i \in 1..(n - 1)}
      c15 == PairClauses \ {"Order"}
      pairsC11 == IF "Order" \notin PairClauses THEN {} ELSE IF b.pw THEN every ELSE adjacent
      pairsC15 == IF c15 = {} THEN {}
                  ELSE IF b.pw \/ ~(EncSorted(its) /\ ValSorted(sch, its)) THEN every ELSE adjacent
  IN {<<t[1], 0, t[2]>> : t \in {u \in (1..n) \X ItemClauses : ~ItemOK(u[2], names, sch, its[u[1]])}}
     \cup {<<p[1], p[2], "Order">> : p \in {q \in pairsC11 : ~PairOK("Order", sch, its[q[1]], its[q[2]])}}
     \cup {t \in {<<p[1], p[2], c>> : p \in pairsC15, c \in c15} :
              ~PairOK(t[3], sch, its[t[1]], its[t[2]])}

EventBad(e) ==
  CASE e.e = "batch" -> BatchBad(e)
    [] e.e = "fault" -> IF On("GuardFault") THEN {<<0, 0, "GuardFault">>} ELSE {}
    [] OTHER -> {<<0, 0, "UnknownEvent">>}

HeaderBad == IF On("Header") /\ ~(Hdr.maxlen = TrMaxLen /\ Hdr.lenbytes = TrLenBytes /\ Hdr.pad = Pad)
             THEN {<<0, 0, "Header">>} ELSE {}

\* at most 8 of the rejected, for printing
Some(S) == IF Cardinality(S) <= 8 THEN S ELSE LET f == SetToSeq(S) IN {f[i] : i \in 1..8}

Judge(e, bad) ==
  IF bad = {} THEN TRUE
  ELSE /\ PrintT(<<"REJECT", l, IF "id" \in DOMAIN e THEN e.id ELSE 0,
                   IF "st" \in DOMAIN e THEN e.st ELSE "", Cardinality(bad), Some(bad)>>)
       /\ TLCSet(1, TLCGet(1) + Cardinality(bad))

TInit == /\ l = 2
         /\ TLCSet(1, 0)
         /\ Judge(Hdr, HeaderBad)

TNext == /\ l <= Len(JTrace)
         /\ Judge(JTrace[l], EventBad(JTrace[l]))
         /\ l' = l + 1

TSpec == TInit /\ [][TNext]_l

TraceAccepted == /\ PrintT(<<"REJECTED", TLCGet(1)>>)
                 /\ TLCGet("stats").diameter = Len(JTrace)
                 /\ TLCGet(1) = 0
=============================================================================
