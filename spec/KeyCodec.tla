------------------------------ MODULE KeyCodec ------------------------------
(***************************************************************************)
(* Byte-level specification of unodb::key_encoder / unodb::key_decoder     *)
(* (art_common.hpp, duckdb_encode_decode.hpp): what bytes a key built from *)
(* a sequence of typed components consists of, what they decode to, and    *)
(* the order / normal form on the component values that properties C11,    *)
(* C12 and C15 talk about.                                                 *)
(*                                                                         *)
(* Everything is generic in the widths: integers of n bytes, binary        *)
(* floating point with 1 sign bit, E exponent bits and a mantissa given as *)
(* a sequence of limbs (bit fields), text with a maximum length MaxLen and *)
(* a run-length field of LenBytes bytes.  The same operators are           *)
(*   - checked exhaustively by TLC on small widths (KeyCodecMC), where     *)
(*     they are also compared with definitions in plain integer            *)
(*     arithmetic (section "Integer-level semantics"), and                 *)
(*   - evaluated at the real widths (8..64 bit, binary32/binary64,         *)
(*     MaxLen = 65532) on every event recorded from the real code          *)
(*     (CodecTrace).                                                       *)
(*                                                                         *)
(* Representation of values.  TLC integers are 32 bit, so a value is never *)
(* a single integer:                                                       *)
(*   unsigned n-byte integer   its base-256 numeral, most significant      *)
(*                             digit first (n digits)                      *)
(*   signed n-byte integer     the base-256 numeral of its two's           *)
(*                             complement (value mod 2^(8n)), MSD first    *)
(*   floating point            <<sign, exponent, m_1, ..., m_k>>: the bit  *)
(*                             fields of the IEEE-754 interchange format,  *)
(*                             mantissa split into k limbs m_i < 2^M[i],   *)
(*                             most significant limb first                 *)
(*   text                      the sequence of bytes handed to encode_text *)
(* A key is a sequence of component values; its schema is the sequence of  *)
(* their types.                                                            *)
(*                                                                         *)
(* The definitions are written from the mathematical meaning (numeral of   *)
(* v + 2^(W-1); code = 2^(W-1) + magnitude, 2^(W-1) - 1 - magnitude, ...), *)
(* not from the C++ (bswap, xor, ~, bit_cast).                             *)
(***************************************************************************)
EXTENDS Integers, Sequences, FiniteSets, SequencesExt, TLC

CONSTANTS MaxLen,     \* text bytes kept at most (key_encoder::maxlen, 65532)
          LenBytes    \* bytes of the run-length field (sizeof(size_type), 2)

Pad == 0              \* key_encoder::pad

\* the run length MaxLen - n of any n <= MaxLen fits the run-length field, and
\* so does the length of the longest encoded text (how the code derives maxlen)
ASSUME /\ MaxLen \in Nat /\ LenBytes \in 1..3
       /\ MaxLen + 1 + LenBytes <= 256 ^ LenBytes - 1

-----------------------------------------------------------------------------
(* Component types (uniform records so that sets of them are comparable)   *)

UInt(n)     == [k |-> "u", n |-> n, E |-> 0, M |-> <<>>]
SInt(n)     == [k |-> "s", n |-> n, E |-> 0, M |-> <<>>]
Float(E, M) == [k |-> "f", n |-> 0, E |-> E, M |-> M]     \* M: limb widths
Text        == [k |-> "t", n |-> 0, E |-> 0, M |-> <<>>]

RECURSIVE SumSeq(_)
SumSeq(s) == IF s = <<>> THEN 0 ELSE Head(s) + SumSeq(Tail(s))

\* encoded width in bytes of a fixed-size component
Width(ty) == IF ty.k = "f" THEN (1 + ty.E + SumSeq(ty.M)) \div 8 ELSE ty.n
IsFixed(ty) == ty.k # "t"

Min2(a, b) == IF a <= b THEN a ELSE b

-----------------------------------------------------------------------------
(* Byte strings: order used by the index (art_internal.hpp compare)        *)

\* length of the longest common prefix; written without recursion so that it
\* works on 65535-byte strings
Lcp(a, b) == LET n == Min2(Len(a), Len(b))
                 d == SelectInSeq([i \in 1..n |-> a[i] # b[i]], LAMBDA x : x)
             IN IF d = 0 THEN n ELSE d - 1

\* memcmp on the common length, then the shorter string first
BytesLess(a, b) == LET j == Lcp(a, b) IN
                   IF j = Len(a) THEN j < Len(b)
                   ELSE IF j = Len(b) THEN FALSE
                   ELSE a[j + 1] < b[j + 1]

PrefixOf(p, s) == Len(p) <= Len(s) /\ Lcp(p, s) = Len(p)

-----------------------------------------------------------------------------
(* Base-256 numerals and bit fields                                        *)

\* the n-digit base-256 numeral of v, most significant digit first
\* (needs 256^n within TLC's integers: n <= 3)
Digits(v, n) == [i \in 1..n |-> (v \div (256 ^ (n - i))) % 256]

\* a bit field <<v, w>> is the w-bit numeral of v < 2^w, w <= 30
FieldBits(f) == [i \in 1..f[2] |-> (f[1] \div (2 ^ (f[2] - i))) % 2]

\* concatenation of a sequence of sequences (balanced: keys of hundreds of
\* components must not exhaust TLC's stack)
RECURSIVE CatRange(_, _, _)
CatRange(seqs, lo, hi) == IF lo > hi THEN <<>>
                          ELSE IF lo = hi THEN seqs[lo]
                          ELSE LET mid == (lo + hi) \div 2
                               IN CatRange(seqs, lo, mid) \o CatRange(seqs, mid + 1, hi)
Cat(seqs) == CatRange(seqs, 1, Len(seqs))

\* the bytes (most significant first) of the number written as the
\* concatenation of the bit fields; total width a multiple of 8
BitsOf(fields) == Cat([i \in 1..Len(fields) |-> FieldBits(fields[i])])
BytesOfBits(bits) ==
  [j \in 1..(Len(bits) \div 8) |->
     128 * bits[8 * j - 7] + 64 * bits[8 * j - 6] + 32 * bits[8 * j - 5] + 16 * bits[8 * j - 4]
     + 8 * bits[8 * j - 3] + 4 * bits[8 * j - 2] + 2 * bits[8 * j - 1] + bits[8 * j]]
FieldsToBytes(fields) == BytesOfBits(BitsOf(fields))

BitsOfBytes(b) == [j \in 1..(8 * Len(b)) |-> (b[(j - 1) \div 8 + 1] \div (2 ^ (7 - ((j - 1) % 8)))) % 2]
RECURSIVE BitsVal(_, _, _)
BitsVal(bits, from, w) == IF w = 0 THEN 0
                          ELSE 2 * BitsVal(bits, from, w - 1) + bits[from + w - 1]
\* split a bit string into fields of the given widths; result: the field values
BytesToFields(b, widths) ==
  LET bits == BitsOfBytes(b) IN
  [i \in 1..Len(widths) |-> BitsVal(bits, 1 + SumSeq(SubSeq(widths, 1, i - 1)), widths[i])]

-----------------------------------------------------------------------------
(* Integers                                                                *)
(*                                                                         *)
(* unsigned: the key bytes are the big-endian bytes of v, i.e. its         *)
(* base-256 numeral.                                                       *)
(* signed: the key bytes are the numeral of v + 2^(W-1) ("flip the top     *)
(* bit").  On the two's complement numeral d of v: v < 0 iff d[1] >= 128,  *)
(* and then v + 2^(W-1) = (v + 2^W) - 2^(W-1), i.e. 128 less in the top    *)
(* digit; otherwise 128 more in the top digit.                             *)

EncUnsigned(d) == d
DecUnsigned(b) == b

IsNegative(d) == d[1] >= 128
EncSigned(d) == [d EXCEPT ![1] = IF d[1] >= 128 THEN d[1] - 128 ELSE d[1] + 128]
DecSigned(b) == [b EXCEPT ![1] = IF b[1] >= 128 THEN b[1] - 128 ELSE b[1] + 128]

UnsignedLess(a, b) == BytesLess(a, b)        \* numerals of equal length
SignedLess(a, b) == IF IsNegative(a) # IsNegative(b) THEN IsNegative(a)
                    ELSE BytesLess(a, b)     \* same sign: two's complement is monotone

-----------------------------------------------------------------------------
(* Floating point: x = <<sign, exponent, m_1..m_k>>                         *)

EMaxOf(ty) == 2 ^ ty.E - 1                   \* the exponent of infinities and NaNs
LimbMax(w) == 2 ^ w - 1
NLimbs(ty) == Len(ty.M)
MantZero(x) == \A i \in 3..Len(x) : x[i] = 0
IsNaN(ty, x) == x[2] = EMaxOf(ty) /\ ~MantZero(x)
IsInf(ty, x) == x[2] = EMaxOf(ty) /\ MantZero(x)
IsQuietNaN(ty, x) == IsNaN(ty, x) /\ x[3] >= 2 ^ (ty.M[1] - 1)   \* top mantissa bit
\* the NaN the decoder returns: std::numeric_limits<F>::quiet_NaN()
CanonNaN(ty) == <<0, EMaxOf(ty), 2 ^ (ty.M[1] - 1)>> \o [i \in 1..(NLimbs(ty) - 1) |-> 0]
PosInf(ty) == <<0, EMaxOf(ty)>> \o [i \in 1..NLimbs(ty) |-> 0]
NegInf(ty) == <<1, EMaxOf(ty)>> \o [i \in 1..NLimbs(ty) |-> 0]

(* With W = 1 + E + M bits and magnitude mag = exponent * 2^M + mantissa    *)
(* (the number the non-sign bits spell), the W-bit code is                  *)
(*      NaN (any)       2^W - 1                                             *)
(*      +infinity       2^W - 2                                             *)
(*      -infinity       0                                                   *)
(*      sign 0          2^(W-1) + mag                                       *)
(*      sign 1          2^(W-1) - 1 - mag                                   *)
(* and the key bytes are its big-endian bytes.  2^W does not fit TLC's      *)
(* integers, so the code is given by its bit fields <<1, E, M[1..k]>>:      *)
(* 2^(W-1) - 1 = (2^E - 1) * 2^M + (2^M - 1), hence 2^(W-1) - 1 - mag has   *)
(* the fields 0, 2^E - 1 - exponent, 2^M[i] - 1 - m_i.  KeyCodecMC checks   *)
(* this against the integer formula above on formats with W <= 24.          *)
FloatCode(ty, x) ==
  LET E == ty.E
      M == ty.M
      k == Len(M)
      emax == EMaxOf(ty)
      Ones == <<<<1, 1>>, <<emax, E>>>> \o [i \in 1..k |-> <<LimbMax(M[i]), M[i]>>]
      Zeros == <<<<0, 1>>, <<0, E>>>> \o [i \in 1..k |-> <<0, M[i]>>]
  IN IF IsNaN(ty, x) THEN Ones
     ELSE IF IsInf(ty, x)
       THEN IF x[1] = 0 THEN [Ones EXCEPT ![k + 2] = <<LimbMax(M[k]) - 1, M[k]>>]
                        ELSE Zeros
     ELSE IF x[1] = 0
       THEN <<<<1, 1>>, <<x[2], E>>>> \o [i \in 1..k |-> <<x[i + 2], M[i]>>]
       ELSE <<<<0, 1>>, <<emax - x[2], E>>>> \o [i \in 1..k |-> <<LimbMax(M[i]) - x[i + 2], M[i]>>]

EncFloat(ty, x) == FieldsToBytes(FloatCode(ty, x))

\* inverse: the value whose code the bytes spell; the NaN code gives CanonNaN
DecFloat(ty, b) ==
  LET M == ty.M
      k == Len(M)
      emax == EMaxOf(ty)
      c == BytesToFields(b, <<1, ty.E>> \o M)        \* <<top bit, exponent field, limbs>>
      allOnes == c[1] = 1 /\ c[2] = emax /\ \A i \in 1..k : c[i + 2] = LimbMax(M[i])
      onesButLast == /\ c[1] = 1 /\ c[2] = emax /\ c[k + 2] = LimbMax(M[k]) - 1
                     /\ \A i \in 1..(k - 1) : c[i + 2] = LimbMax(M[i])
      allZero == \A i \in 1..(k + 2) : c[i] = 0
  IN IF allOnes THEN CanonNaN(ty)
     ELSE IF onesButLast THEN PosInf(ty)
     ELSE IF allZero THEN NegInf(ty)
     ELSE IF c[1] = 1 THEN <<0, c[2]>> \o [i \in 1..k |-> c[i + 2]]
     ELSE <<1, emax - c[2]>> \o [i \in 1..k |-> LimbMax(M[i]) - c[i + 2]]

(* The order C11 states: -inf < negative < -0 < +0 < positive < +inf < NaN, *)
(* all NaNs equal.  Among finite values of one sign the numeric order of    *)
(* the magnitudes is the lexicographic order of <<exponent, mantissa>>      *)
(* (subnormals, exponent 0, lie below every normal number); KeyCodecMC      *)
(* checks that against exact arithmetic on a format where it fits.          *)
FClass(ty, x) == IF IsNaN(ty, x) THEN 6
                 ELSE IF IsInf(ty, x) THEN (IF x[1] = 1 THEN 0 ELSE 5)
                 ELSE IF x[2] = 0 /\ MantZero(x) THEN (IF x[1] = 1 THEN 2 ELSE 3)
                 ELSE IF x[1] = 1 THEN 1 ELSE 4
MagLess(x, y) == BytesLess(Tail(x), Tail(y))     \* lexicographic on <<e, m_1..m_k>>
FloatLess(ty, x, y) == LET cx == FClass(ty, x)
                           cy == FClass(ty, y)
                       IN IF cx # cy THEN cx < cy
                          ELSE IF cx = 1 THEN MagLess(y, x)
                          ELSE IF cx = 4 THEN MagLess(x, y)
                          ELSE FALSE
FloatEq(ty, x, y) == (IsNaN(ty, x) /\ IsNaN(ty, y)) \/ x = y    \* -0 # +0

\* what decoding must return: the value itself, bit for bit; a canonical
\* quiet NaN for any NaN
FloatCanon(ty, x) == IF IsNaN(ty, x) THEN CanonNaN(ty) ELSE x

-----------------------------------------------------------------------------
(* Text                                                                    *)

Trunc(t) == IF Len(t) > MaxLen THEN SubSeq(t, 1, MaxLen) ELSE t
\* length after truncation and removal of trailing pad bytes
NormLen(t) == SelectLastInSeq(Trunc(t), LAMBDA b : b # Pad)
Norm(t) == SubSeq(t, 1, NormLen(t))
\* the normalised text, a pad byte, the big-endian run length MaxLen - n
EncText(t) == LET n == NormLen(t) IN SubSeq(t, 1, n) \o <<Pad>> \o Digits(MaxLen - n, LenBytes)

\* C11's order claim covers text without interior zero bytes: no zero byte is
\* left once the text is truncated and the trailing padding removed (a leading
\* zero is excluded as well: enc("") > enc(<<0,1>>))
ZeroFree(t) == LET n == Norm(t) IN SelectInSeq(n, LAMBDA b : b = Pad) = 0
TextLess(a, b) == BytesLess(Norm(a), Norm(b))
TextEq(a, b) == Norm(a) = Norm(b)

-----------------------------------------------------------------------------
(* Components and keys                                                     *)

Enc(ty, v) == CASE ty.k = "u" -> EncUnsigned(v)
                [] ty.k = "s" -> EncSigned(v)
                [] ty.k = "f" -> EncFloat(ty, v)
                [] ty.k = "t" -> EncText(v)

Dec(ty, b) == CASE ty.k = "u" -> DecUnsigned(b)          \* fixed-size types only
                [] ty.k = "s" -> DecSigned(b)
                [] ty.k = "f" -> DecFloat(ty, b)

ValueLess(ty, a, b) == CASE ty.k = "u" -> UnsignedLess(a, b)
                         [] ty.k = "s" -> SignedLess(a, b)
                         [] ty.k = "f" -> FloatLess(ty, a, b)
                         [] ty.k = "t" -> TextLess(a, b)

\* equality after the documented normalisation
ValueEq(ty, a, b) == CASE ty.k \in {"u", "s"} -> a = b
                       [] ty.k = "f" -> FloatEq(ty, a, b)
                       [] ty.k = "t" -> TextEq(a, b)

Canon(ty, v) == IF ty.k = "f" THEN FloatCanon(ty, v) ELSE v

\* inside the domain of C11's order claim
Ordered(ty, v) == ty.k = "t" => ZeroFree(v)

EncKey(sch, vs) == Cat([i \in 1..Len(sch) |-> Enc(sch[i], vs[i])])

\* decode the first n components (all of fixed size) in the order encoded
DecKey(sch, b, n) ==
  [i \in 1..n |-> LET off == SumSeq([j \in 1..(i - 1) |-> Width(sch[j])])
                  IN Dec(sch[i], SubSeq(b, off + 1, off + Width(sch[i])))]

\* first component in which two keys of one schema differ (after
\* normalisation); Len + 1 if none
FirstDiff(sch, a, b) ==
  LET d == SelectInSeq([i \in 1..Len(sch) |-> ~ValueEq(sch[i], a[i], b[i])], LAMBDA x : x)
  IN IF d = 0 THEN Len(sch) + 1 ELSE d
KeyEq(sch, a, b) == FirstDiff(sch, a, b) > Len(sch)
\* lexicographic order of the component tuples
KeyLess(sch, a, b) == LET d == FirstDiff(sch, a, b) IN
                      d <= Len(sch) /\ ValueLess(sch[d], a[d], b[d])
KeyOrdered(sch, a) == \A i \in 1..Len(sch) : Ordered(sch[i], a[i])
AllFixed(sch) == \A i \in 1..Len(sch) : IsFixed(sch[i])

-----------------------------------------------------------------------------
(* The properties (C11, C12, C15) as predicates on keys a, b of schema sch  *)
(* and on what an encoder / decoder produced for them: the key bytes ea,    *)
(* eb, the decoded components da, the key length after each component.      *)
(* CodecTrace demands them of what the real code produced; the theorems     *)
(* below state them of the specification's own encoder and are checked by   *)
(* KeyCodecMC for every pair of a small domain.                             *)

\* C11: byte order of the encodings = order of the values
OrderOn(sch, a, b, ea, eb) ==
  (KeyOrdered(sch, a) /\ KeyOrdered(sch, b)) =>
     /\ KeyLess(sch, a, b) <=> BytesLess(ea, eb)
     /\ KeyLess(sch, b, a) <=> BytesLess(eb, ea)

\* C12: a decoded component is the value, bit for bit; a quiet NaN for a NaN
DecodedOK(ty, v, d) == IF ty.k = "f" /\ IsNaN(ty, v) THEN IsQuietNaN(ty, d) ELSE d = v
RoundTripOn(sch, a, da) == \A i \in 1..Len(da) : DecodedOK(sch[i], a[i], da[i])

\* C12: a fixed-size component occupies exactly its size whatever its value
\* (ends[i] = length of the key once component i has been appended)
CompLen(ends, i) == ends[i] - (IF i = 1 THEN 0 ELSE ends[i - 1])
FixedWidthOn(sch, ends) == \A i \in 1..Len(sch) : IsFixed(sch[i]) => CompLen(ends, i) = Width(sch[i])

\* C15: byte-equal exactly when equal after normalisation ...
EqualIffOn(sch, a, b, ea, eb) == (ea = eb) <=> KeyEq(sch, a, b)

\* ... and otherwise neither is a prefix of the other
PrefixFreeOn(sch, a, b, ea, eb) == ~KeyEq(sch, a, b) => ~PrefixOf(ea, eb) /\ ~PrefixOf(eb, ea)

\* C15: a text emits at most min(length, MaxLen) bytes plus the terminator
\* (pad byte + run length)
TextBoundsOn(sch, a, ends) ==
  \A i \in 1..Len(sch) : sch[i].k = "t" =>
     /\ CompLen(ends, i) <= Min2(Len(a[i]), MaxLen) + 1 + LenBytes
     /\ CompLen(ends, i) >= 1 + LenBytes

\* key length after each component, for the specification's encoder
RECURSIVE EndsFrom(_, _, _, _)
EndsFrom(sch, a, i, acc) == IF i > Len(sch) THEN <<>>
                            ELSE LET e == acc + Len(Enc(sch[i], a[i])) IN <<e>> \o EndsFrom(sch, a, i + 1, e)
Ends(sch, a) == EndsFrom(sch, a, 1, 0)

(* Theorems *)
OrderPreserving(sch, a, b) == OrderOn(sch, a, b, EncKey(sch, a), EncKey(sch, b))
\* bit-exact, and every NaN decodes to the one canonical quiet NaN
RoundTrip(sch, a) ==
  AllFixed(sch) =>
     LET da == DecKey(sch, EncKey(sch, a), Len(sch)) IN
     /\ RoundTripOn(sch, a, da)
     /\ da = [i \in 1..Len(sch) |-> Canon(sch[i], a[i])]
FixedWidth(sch, a) ==
  /\ FixedWidthOn(sch, Ends(sch, a))
  /\ Len(EncKey(sch, a)) = (IF sch = <<>> THEN 0 ELSE Ends(sch, a)[Len(sch)])
EqualIffNormalEqual(sch, a, b) == EqualIffOn(sch, a, b, EncKey(sch, a), EncKey(sch, b))
PrefixFree(sch, a, b) == PrefixFreeOn(sch, a, b, EncKey(sch, a), EncKey(sch, b))
\* ... and the text encoding depends on at most MaxLen bytes of the input
TextBounds(sch, a) ==
  /\ TextBoundsOn(sch, a, Ends(sch, a))
  /\ \A i \in 1..Len(sch) : sch[i].k = "t" => EncText(a[i]) = EncText(Trunc(a[i]))

-----------------------------------------------------------------------------
(* Integer-level semantics: the same encodings written with plain integer   *)
(* arithmetic, usable where 2^W fits TLC's integers (W <= 24).  KeyCodecMC  *)
(* checks that the width-generic operators above agree with them.           *)

\* two's complement numeral of the integer v, -2^(8n-1) <= v < 2^(8n-1)
TwosComplement(v, n) == Digits(IF v < 0 THEN v + 256 ^ n ELSE v, n)
IEncUnsigned(v, n) == Digits(v, n)
IEncSigned(v, n) == Digits(v + 2 ^ (8 * n - 1), n)

\* mantissa limbs -> the mantissa
RECURSIVE MantVal(_, _, _)
MantVal(ty, x, i) == IF i = 0 THEN 0 ELSE MantVal(ty, x, i - 1) * 2 ^ ty.M[i] + x[i + 2]
IMant(ty, x) == MantVal(ty, x, NLimbs(ty))
IFloatCode(ty, x) ==
  LET Mb == SumSeq(ty.M)
      W == 1 + ty.E + Mb
      mag == x[2] * 2 ^ Mb + IMant(ty, x)
  IN IF IsNaN(ty, x) THEN 2 ^ W - 1
     ELSE IF IsInf(ty, x) THEN (IF x[1] = 0 THEN 2 ^ W - 2 ELSE 0)
     ELSE IF x[1] = 0 THEN 2 ^ (W - 1) + mag
     ELSE 2 ^ (W - 1) - 1 - mag
IEncFloat(ty, x) == Digits(IFloatCode(ty, x), Width(ty))

\* exact magnitude of a finite value scaled by 2^(bias + M - 1):
\* subnormal (exponent 0): m * 2^(1-bias-M); normal: (2^M + m) * 2^(e-bias-M)
IScaledMag(ty, x) == LET Mb == SumSeq(ty.M) IN
                     IF x[2] = 0 THEN IMant(ty, x)
                     ELSE (2 ^ Mb + IMant(ty, x)) * 2 ^ (x[2] - 1)
\* numeric order with the conventions of C11 for zeros, infinities and NaNs
IFloatLess(ty, x, y) ==
  LET cx == FClass(ty, x)
      cy == FClass(ty, y)
  IN IF cx # cy THEN cx < cy
     ELSE IF cx = 1 THEN IScaledMag(ty, y) < IScaledMag(ty, x)
     ELSE IF cx = 4 THEN IScaledMag(ty, x) < IScaledMag(ty, y)
     ELSE FALSE

(* Successor in the value order of a single-limb format (next larger class  *)
(* of ValueEq), written on the fields; used to enumerate a format in value  *)
(* order without reference to the encoding.  NaN has no successor.          *)
FloatSucc(ty, x) ==
  LET emax == EMaxOf(ty)
      mmax == LimbMax(ty.M[1])
  IN IF x[1] = 1 THEN
          IF IsInf(ty, x) THEN <<1, emax - 1, mmax>>             \* -inf -> -max
          ELSE IF x[2] = 0 /\ x[3] = 0 THEN <<0, 0, 0>>           \* -0 -> +0
          ELSE IF x[3] > 0 THEN <<1, x[2], x[3] - 1>>
          ELSE <<1, x[2] - 1, mmax>>
     ELSE IF IsInf(ty, x) THEN <<0, emax, 1>>                    \* +inf -> a NaN
          ELSE IF x[2] = emax - 1 /\ x[3] = mmax THEN <<0, emax, 0>>   \* max -> +inf
          ELSE IF x[3] < mmax THEN <<0, x[2], x[3] + 1>>
          ELSE <<0, x[2] + 1, 0>>
=============================================================================
