----------------------------- MODULE KeyCodecMC -----------------------------
(***************************************************************************)
(* Exhaustive checks of the KeyCodec theorems on small instances.          *)
(*                                                                         *)
(* The single variable x ranges over a set of cases (chosen by the cfg     *)
(* through Domain = "..."); a case is a pair of keys a, b of one schema    *)
(* plus, where available, the ground truth the width-generic definitions   *)
(* are compared with (the integers two numerals denote; exact arithmetic   *)
(* on a small float format).  Every theorem is an invariant, so TLC        *)
(* evaluates it on every case and its distinct-state count is the number   *)
(* of cases.  Chain cases enumerate a float format in value order by       *)
(* FloatSucc: x' is the case of the next value, so a complete search has   *)
(* visited every non-NaN value exactly once iff the number of distinct     *)
(* chain states is the number of non-NaN values (checked by the tool).     *)
(***************************************************************************)
EXTENDS KeyCodec

CONSTANT Domain     \* which set of cases: "int8", "int16", "float8", "float16", "text", "textizp", "tuple"

VARIABLE x

Case(sch, a, b, sem, ia, ib, chain) ==
  [sch |-> sch, a |-> a, b |-> b, sem |-> sem, ia |-> ia, ib |-> ib, chain |-> chain]

\* The theorems about a single key (round trip, widths, text bounds, agreement
\* of the encoding with the integer-level definition) are evaluated for a, in
\* the cases where a = b, in chain cases and in successor cases: every value
\* of every domain below is the a of such a case (pair domains contain their
\* diagonal; the last value of a successor domain is on the diagonal of the
\* sample added to it), and evaluating them in every pair would only repeat
\* the same evaluation.
Unary == x.chain \/ x.a = x.b \/ x.sem = "int"

-----------------------------------------------------------------------------
(* Integers: sem = "int", ia and ib are the integers a and b denote        *)

IntType(k, n) == IF k = "u" THEN UInt(n) ELSE SInt(n)
IntRepr(k, n, v) == IF k = "u" THEN Digits(v, n) ELSE TwosComplement(v, n)
IntCase(k, n, i, j) == Case(<<IntType(k, n)>>, <<IntRepr(k, n, i)>>, <<IntRepr(k, n, j)>>,
                            "int", i, j, FALSE)

\* every pair of 8-bit values
\* (the sets of cases are written as initial-state predicates: TLC would
\* evaluate a constant definition of every set in every run)
InitInt8 == \/ \E i \in 0..255, j \in 0..255 : x = IntCase("u", 1, i, j)
            \/ \E i \in -128..127, j \in -128..127 : x = IntCase("s", 1, i, j)

\* every 16-bit value with its successor, all pairs of a sample, and 24-bit
\* values around every byte carry with their successors
Sample16u == {0, 1, 2, 127, 128, 129, 254, 255, 256, 257, 32511, 32512, 32767, 32768, 32769,
              33023, 65279, 65280, 65534, 65535}
Sample16s == {v - 32768 : v \in Sample16u}
Carry24 == {a * 65536 + b * 256 + c : a \in {0, 1, 127, 128, 254, 255}, b \in {0, 1, 127, 128, 254, 255},
                                      c \in {0, 1, 127, 128, 254, 255}} \ {16777215}
InitInt16 == \/ \E v \in 0..65534 : x = IntCase("u", 2, v, v + 1)
             \/ \E v \in -32768..32766 : x = IntCase("s", 2, v, v + 1)
             \/ \E v \in Sample16u, w \in Sample16u : x = IntCase("u", 2, v, w)
             \/ \E v \in Sample16s, w \in Sample16s : x = IntCase("s", 2, v, w)
             \/ \E v \in Carry24 : x = IntCase("u", 3, v, v + 1)
             \/ \E v \in Carry24 : x = IntCase("s", 3, v - 8388608, v - 8388607)

ThmIntSemantics ==
  x.sem = "int" =>
    LET ty == x.sch[1] IN
    /\ (x.ia < x.ib) <=> ValueLess(ty, x.a[1], x.b[1])
    /\ (x.ib < x.ia) <=> ValueLess(ty, x.b[1], x.a[1])
    /\ (x.ia = x.ib) <=> ValueEq(ty, x.a[1], x.b[1])
    /\ Enc(ty, x.a[1]) = (IF ty.k = "u" THEN IEncUnsigned(x.ia, ty.n) ELSE IEncSigned(x.ia, ty.n))
    /\ (x.ia < x.ib) => BytesLess(Enc(ty, x.a[1]), Enc(ty, x.b[1]))

-----------------------------------------------------------------------------
(* Floating point                                                          *)

AllFloat(ty) == {0, 1} \X (0..EMaxOf(ty)) \X (0..LimbMax(ty.M[1]))

\* sem = "flt": exact arithmetic fits (E <= 4); "fltcode": only the code does
FloatCase(ty, u, v, sem, chain) == Case(<<ty>>, <<u>>, <<v>>, sem, 0, 0, chain)

F8 == Float(4, <<3>>)       \* 1 + 4 + 3
F8b == Float(3, <<4>>)      \* 1 + 3 + 4
F16 == Float(5, <<10>>)     \* 1 + 5 + 10 (binary16)

\* every pair of values of the two 8-bit formats
InitFloat8 == \/ \E u \in AllFloat(F8), v \in AllFloat(F8) : x = FloatCase(F8, u, v, "flt", FALSE)
              \/ \E u \in AllFloat(F8b), v \in AllFloat(F8b) : x = FloatCase(F8b, u, v, "flt", FALSE)

\* binary16: the chain over all non-NaN values in value order; every NaN
\* against three NaNs, +inf and the largest finite value; all pairs of a sample
NaNs16 == {<<s, 31, m>> : s \in {0, 1}, m \in 1..1023}
Sample16f == {<<s, e, m>> : s \in {0, 1}, e \in {0, 1, 15, 30, 31}, m \in {0, 1, 512, 1023}}
InitFloat16 == \/ x = FloatCase(F16, NegInf(F16), FloatSucc(F16, NegInf(F16)), "fltcode", TRUE)
               \/ \E u \in NaNs16, v \in {CanonNaN(F16), <<1, 31, 1>>, <<0, 31, 1023>>,
                                           PosInf(F16), <<0, 30, 1023>>} :
                     x = FloatCase(F16, u, v, "fltcode", FALSE)
               \/ \E u \in Sample16f, v \in Sample16f : x = FloatCase(F16, u, v, "fltcode", FALSE)

ThmFloatSemantics ==
  x.sem \in {"flt", "fltcode"} =>
    LET ty == x.sch[1] IN
    /\ Unary => Enc(ty, x.a[1]) = IEncFloat(ty, x.a[1])
    /\ x.sem = "flt" => /\ ValueLess(ty, x.a[1], x.b[1]) <=> IFloatLess(ty, x.a[1], x.b[1])
                        /\ ValueLess(ty, x.b[1], x.a[1]) <=> IFloatLess(ty, x.b[1], x.a[1])

\* the same value with the mantissa split into two limbs has the same bytes,
\* the same order and decodes to the same value
Split(ty) == LET w == ty.M[1] IN Float(ty.E, <<w \div 2, w - w \div 2>>)
SplitVal(ty, v) == LET lo == ty.M[1] - ty.M[1] \div 2 IN <<v[1], v[2], v[3] \div 2 ^ lo, v[3] % 2 ^ lo>>
ThmLimbSplit ==
  x.sem \in {"flt", "fltcode"} =>
    LET ty == x.sch[1]
        t2 == Split(ty)
        a2 == SplitVal(ty, x.a[1])
        b2 == SplitVal(ty, x.b[1])
        unaryOK == /\ Enc(t2, a2) = Enc(ty, x.a[1])
                   /\ Dec(t2, Enc(t2, a2)) = SplitVal(ty, Dec(ty, Enc(ty, x.a[1])))
                   /\ IsNaN(t2, a2) <=> IsNaN(ty, x.a[1])
                   /\ IsQuietNaN(t2, a2) <=> IsQuietNaN(ty, x.a[1])
    IN /\ Unary => unaryOK
       /\ ValueLess(t2, a2, b2) <=> ValueLess(ty, x.a[1], x.b[1])
       /\ ValueEq(t2, a2, b2) <=> ValueEq(ty, x.a[1], x.b[1])

\* a chain step goes to a strictly larger value (so, by ThmOrder, to strictly
\* larger bytes)
ThmChainStep == x.chain => KeyLess(x.sch, x.a, x.b)

-----------------------------------------------------------------------------
(* Text and tuples                                                         *)

RECURSIVE SeqsUpTo(_, _)
SeqsUpTo(S, n) == IF n = 0 THEN {<<>>}
                  ELSE LET R == SeqsUpTo(S, n - 1) IN R \cup {Append(r, s) : r \in {r \in R : Len(r) = n - 1}, s \in S}

PlainCase(sch, a, b) == Case(sch, a, b, "none", 0, 0, FALSE)

\* every pair of texts of length <= 4 over {0,1,2} (MaxLen 2 or 3 from the cfg)
Texts4 == SeqsUpTo({0, 1, 2}, 4)
InitText == \E s \in Texts4, t \in Texts4 : x = PlainCase(<<Text>>, <<s>>, <<t>>)

\* the boundary of C15's domain: with the run-length byte in the alphabet and
\* interior zeros, enc("") is a prefix of enc(<<0,0,3>>) (MaxLen = 3).  This
\* instance is expected to violate ThmPrefixFree.
Texts3x == SeqsUpTo({0, 1, 2, 3}, 3)
InitTextIzp == \E s \in Texts3x, t \in Texts3x : x = PlainCase(<<Text>>, <<s>>, <<t>>)

\* all pairs of 2-tuples of small components
Texts3 == SeqsUpTo({0, 1, 2}, 3)
Texts2 == SeqsUpTo({0, 1, 2}, 2)
SmallU8 == {Digits(v, 1) : v \in {0, 1, 127, 128, 255}}
SmallS8 == {TwosComplement(v, 1) : v \in {-128, -1, 0, 1, 127}}
SmallF8 == {NegInf(F8), <<1, 14, 7>>, <<1, 0, 1>>, <<1, 0, 0>>, <<0, 0, 0>>, <<0, 0, 1>>, <<0, 7, 0>>,
            <<0, 14, 7>>, PosInf(F8), <<0, 15, 4>>, <<1, 15, 1>>}
SmallS16 == {TwosComplement(v, 2) : v \in {-32768, -256, -1, 0, 255, 256, 32767}}
Pairs(sch, A, B) == \E a1 \in A, a2 \in B, b1 \in A, b2 \in B : x = PlainCase(sch, <<a1, a2>>, <<b1, b2>>)
InitTuple == \/ Pairs(<<Text, UInt(1)>>, Texts3, SmallU8)
             \/ Pairs(<<UInt(1), Text>>, SmallU8, Texts3)
             \/ Pairs(<<Text, Text>>, Texts2, Texts2)
             \/ Pairs(<<SInt(1), F8>>, SmallS8, SmallF8)
             \/ Pairs(<<F8, Text>>, SmallF8, Texts2)
             \/ Pairs(<<SInt(2), UInt(1)>>, SmallS16, SmallU8)

-----------------------------------------------------------------------------
(* The theorems as separate invariants (cfg/KeyCodec/*_each.cfg) ...        *)
ThmOrder == OrderPreserving(x.sch, x.a, x.b)
ThmRoundTrip == RoundTrip(x.sch, x.a) /\ RoundTrip(x.sch, x.b)
ThmFixedWidth == FixedWidth(x.sch, x.a) /\ FixedWidth(x.sch, x.b)
ThmEqualIffNormalEqual == EqualIffNormalEqual(x.sch, x.a, x.b)
ThmPrefixFree == PrefixFree(x.sch, x.a, x.b)
ThmTextBounds == TextBounds(x.sch, x.a) /\ TextBounds(x.sch, x.b)
\* the order is a strict total order on the normal forms
ThmTrichotomy ==
  LET lt == KeyLess(x.sch, x.a, x.b)
      gt == KeyLess(x.sch, x.b, x.a)
      eq == KeyEq(x.sch, x.a, x.b)
  IN (lt /\ ~gt /\ ~eq) \/ (~lt /\ gt /\ ~eq) \/ (~lt /\ ~gt /\ eq)

(* ... and as one invariant that evaluates each encoding once (TLC does not *)
(* share work between invariants) and names the clause that fails.          *)
Named(name, ok) == ok \/ (PrintT(<<"FAILED", name>>) /\ FALSE)
Theorems ==
  LET sch == x.sch
      a == x.a
      b == x.b
      ea == EncKey(sch, a)
      eb == EncKey(sch, b)
  IN /\ Named("OrderPreserving", OrderOn(sch, a, b, ea, eb))
     /\ Named("EqualIffNormalEqual", EqualIffOn(sch, a, b, ea, eb))
     /\ Named("PrefixFree", PrefixFreeOn(sch, a, b, ea, eb))
     /\ Named("RoundTrip", Unary => RoundTrip(sch, a))
     /\ Named("FixedWidth", Unary => FixedWidth(sch, a))
     /\ Named("TextBounds", Unary => TextBounds(sch, a))
     /\ Named("Trichotomy", ThmTrichotomy)
     /\ Named("IntSemantics", ThmIntSemantics)
     /\ Named("FloatSemantics", ThmFloatSemantics)
     /\ Named("LimbSplit", ThmLimbSplit)
     /\ Named("ChainStep", ThmChainStep)

Init == \/ Domain = "int8" /\ InitInt8
        \/ Domain = "int16" /\ InitInt16
        \/ Domain = "float8" /\ InitFloat8
        \/ Domain = "float16" /\ InitFloat16
        \/ Domain = "text" /\ InitText
        \/ Domain = "textizp" /\ InitTextIzp
        \/ Domain = "tuple" /\ InitTuple
Next == IF x.chain /\ ~IsNaN(x.sch[1], x.b[1])
          THEN x' = FloatCase(x.sch[1], x.b[1], FloatSucc(x.sch[1], x.b[1]), x.sem, TRUE)
          ELSE UNCHANGED x
Spec == Init /\ [][Next]_x
=============================================================================
