----------------------------- MODULE LockTrace -----------------------------
(***************************************************************************)
(* The optimistic-lock contract (C07) at the level of the lock's API, and  *)
(* the validation of recorded executions of the real unodb::optimistic_lock*)
(* against it.  OptLock.tla is the step-faithful design model (one action  *)
(* per atomic access) and is bound to the code by replaying its complete   *)
(* state graph; this module is the other direction and is deliberately     *)
(* independent of HOW the lock word is manipulated: it only sees the       *)
(* results of the calls (the `out` of a thread changes in the scheduler    *)
(* step in which the deciding atomic access is executed, so the events are *)
(* totally ordered at their linearization points).                         *)
(*                                                                         *)
(* Ghost state (recomputed from the events, never read from the lock):     *)
(*   wh        thread whose write guard is active, 0 if none               *)
(*   obs       the lock has been made obsolete                             *)
(*   acq       number of write acquisitions so far                         *)
(*   opened[t] value of acq when t opened its read section and no writer   *)
(*             was active; Tainted if a writer was active; NoSec if none   *)
(* Events (harness/lock_driver.cpp via tools/check_lock.py):               *)
(*   reset | ev(t, out, r1, r2, d1, d2, w) | final(d1, d2, w)              *)
(***************************************************************************)
EXTENDS Integers, Sequences, FiniteSets, TLC, Json, IOUtils

VARIABLES l, wh, obs, acq, opened

JTrace == ndJsonDeserialize(IOEnv.TRACE)
Ev == JTrace[l]
tvars == <<l, wh, obs, acq, opened>>

AllT == 1..4
NoSec == -1
Tainted == -2

\* coverage counters: how often each clause actually demanded something
Cnt(i) == TLCSet(i, TLCGet(i) + 1)
COpen == 21       \* read sections opened
CValid == 22      \* successful check / unlock judged
CValidAfterW == 23 \* ... on a lock that had been written at least once
CUpg == 24        \* successful upgrades judged
CRefused == 25    \* validation / upgrade failures seen (allowed, counted)
CObs == 26        \* events judged after obsoletion
CFinal == 27

Fresh == /\ wh' = 0 /\ obs' = FALSE /\ acq' = 0
         /\ opened' = [t \in AllT |-> NoSec]

TInit == /\ \A i \in 21..27 : TLCSet(i, 0)
         /\ l = 1 /\ wh = 0 /\ obs = FALSE /\ acq = 0
         /\ opened = [t \in AllT |-> NoSec]

-----------------------------------------------------------------------------
\* nobody wrote-locked the lock since t opened its section, and nobody held it then
Undisturbed(t) == opened[t] >= 0 /\ opened[t] = acq

Begin ==   \* a thread starts a new section (nothing held)
  /\ Ev.out = "none"
  /\ wh # Ev.t
  /\ opened' = [opened EXCEPT ![Ev.t] = NoSec]
  /\ UNCHANGED <<wh, obs, acq>>

Open ==    \* try_read_lock returned an open section
  /\ Ev.out = "locked"
  /\ ~obs                                   \* obsolete is final: no section can be opened
  /\ opened' = [opened EXCEPT ![Ev.t] = IF wh = 0 THEN acq ELSE Tainted]
  /\ Cnt(COpen)
  /\ UNCHANGED <<wh, obs, acq>>

Validated ==   \* check() or try_read_unlock() reported success
  /\ Ev.out \in {"check_ok", "unlock_ok"}
  /\ Undisturbed(Ev.t)                      \* no overlap with any write-locked period
  /\ ~obs                                   \* every open section fails after obsoletion
  /\ wh = 0
  \* what was read under the section is the snapshot: memory has not moved
  /\ Ev.r1 = Ev.d1
  /\ (Ev.out = "unlock_ok" => Ev.r2 = Ev.d2 /\ Ev.r1 = Ev.r2)
  /\ Cnt(CValid) /\ (acq > 0 => Cnt(CValidAfterW))
  /\ opened' = IF Ev.out = "unlock_ok" THEN [opened EXCEPT ![Ev.t] = NoSec] ELSE opened
  /\ UNCHANGED <<wh, obs, acq>>

Upgraded ==    \* the upgrade to a write guard succeeded
  /\ Ev.out = "upgrade_ok"
  /\ wh = 0                                 \* at most one write guard
  /\ Undisturbed(Ev.t)                      \* no writer acquired since the section was opened
  /\ ~obs
  /\ Ev.r1 = Ev.d1 /\ Ev.r2 = Ev.d2         \* the writer works from a snapshot
  /\ Cnt(CUpg)
  /\ wh' = Ev.t /\ acq' = acq + 1
  /\ opened' = [opened EXCEPT ![Ev.t] = NoSec]
  /\ UNCHANGED obs

Released ==
  /\ Ev.out \in {"unlocked", "obsoleted"}
  /\ wh = Ev.t
  /\ Ev.d1 = Ev.d2                          \* the writers' invariant is back in place
  /\ wh' = 0
  /\ obs' = (obs \/ Ev.out = "obsoleted")
  /\ UNCHANGED <<acq, opened>>

\* Failures are always allowed (a spurious restart is safe); they are counted
\* so that the evidence shows the refusing side was exercised too.
Refused ==
  /\ Ev.out \in {"obsolete", "check_fail", "unlock_fail", "upgrade_fail"}
  /\ wh # Ev.t
  /\ Cnt(CRefused) /\ (obs => Cnt(CObs))
  /\ opened' = [opened EXCEPT ![Ev.t] = NoSec]
  /\ UNCHANGED <<wh, obs, acq>>

Event == /\ Ev.e = "ev"
         /\ (Begin \/ Open \/ Validated \/ Upgraded \/ Released \/ Refused)

\* all threads finished: every write section added exactly one to both words
\* (writers exclusive and working from snapshots => no lost update), nobody
\* holds the lock, and an obsolete lock still says so.
Final == /\ Ev.e = "final"
         /\ wh = 0
         /\ Ev.d1 = acq /\ Ev.d2 = acq
         /\ (obs <=> Ev.wobs)
         /\ ~Ev.wlocked
         /\ Cnt(CFinal)
         /\ UNCHANGED <<wh, obs, acq, opened>>

Reset == Ev.e = "reset" /\ Fresh

TNext == /\ l <= Len(JTrace) /\ l' = l + 1
         /\ (Event \/ Final \/ Reset)
TSpec == TInit /\ [][TNext]_tvars

TraceAccepted == /\ PrintT(<<"LCOV", TLCGet(21), TLCGet(22), TLCGet(23), TLCGet(24), TLCGet(25), TLCGet(26), TLCGet(27)>>)
                 /\ TLCGet("stats").diameter - 1 = Len(JTrace)
=============================================================================
