------------------------------- MODULE MutexDb -------------------------------
(***************************************************************************)
(* Design of unodb::mutex_db (mutex_art.hpp): one std::mutex around the    *)
(* unsynchronised index.  Property C13.                                    *)
(*                                                                         *)
(* Every public method is                                                  *)
(*      Call(t, c);  Acquire(t);  Act(t);  Return(t)                       *)
(* where Act is the atomic action of the sequential index (the same map    *)
(* semantics as ArtSeq: insert iff absent, remove iff present, ...) and    *)
(* Return unlocks the mutex and hands the result to the caller -- except   *)
(* for get: get returns a get_result = (optional value view, unique_lock). *)
(* On a hit the unique_lock still owns the mutex, so the caller holds the  *)
(* index lock until it lets go of the result (Drop); on a miss the mutex   *)
(* is unlocked before returning and the handle owns nothing.               *)
(*                                                                         *)
(* Granularity: the mutex operations and the critical section are the      *)
(* atomic steps (std::mutex and the sequential index are trusted here:     *)
(* the latter is C01/C02's subject).                                       *)
(*                                                                         *)
(* Every protection the code relies on is a boolean CONSTANT, TRUE in the  *)
(* faithful configuration (cfg/MutexDb/faithful*.cfg).  Setting one FALSE  *)
(* gives the design a realistic code change would produce; TLC must then   *)
(* find a counterexample (cfg/MutexDb/no_*.cfg), which shows that the      *)
(* invariants below are not vacuous.                                       *)
(***************************************************************************)
EXTENDS Naturals, Sequences, FiniteSets, SequencesExt, TLC

CONSTANTS Threads,                 \* calling threads
          Keys,                    \* universe of keys (naturals: scan order is <)
          Vals,                    \* universe of values
          MaxCalls,                \* calls per thread (scenario bound)
          None,                    \* "nobody holds the mutex"
          \* protections (TRUE = as in mutex_art.hpp)
          GetHitKeepsLock,         \* get_internal: a hit moves the locked guard into the result
          MissReleases,            \* get_internal: a miss unlocks and returns an empty unique_lock
          InsertTakesLock,         \* insert_internal: lock_guard for the whole call
          RemoveLocksBeforeLookup, \* remove_internal: lock_guard taken before the tree is searched
          EmptyTakesLock,          \* empty(): lock_guard
          ClearTakesLock,          \* clear(): lock_guard
          ScanTakesLock,           \* scan*(): lock_guard for the whole traversal
          StatsTakeLock            \* statistics getters (node counts, memory use, ...): lock_guard

VARIABLES map,     \* the abstract index: DOMAIN map \subseteq Keys, map[k] \in Vals
          holder,  \* owner of the std::mutex: a thread or None
          pc,      \* per thread: "idle" | "look" | "acq" | "cs" | "rel" | "handle"
          call,    \* per thread: the pending call (NoCall when idle)
          res,     \* per thread: the result the call hands to its caller
          lin,     \* ghost, per thread: the result of the sequential index at the atomic step
          ncalls   \* per thread: calls issued so far

vars == <<map, holder, pc, call, res, lin, ncalls>>

NoCall == [op |-> "none"]
NoRes == [r |-> FALSE]

-----------------------------------------------------------------------------
(* Sequential semantics of one call c on map m (cf. ArtSeq: InsertRes,     *)
(* RemoveRes, GetFound/GetVal, EmptyRes, DoClear, ScanSeq).                *)

SortedKeys(m, fwd) ==
  IF fwd THEN SetToSortSeq(DOMAIN m, LAMBDA a, b : a < b)
         ELSE SetToSortSeq(DOMAIN m, LAMBDA a, b : a > b)

Result(m, c) ==
  CASE c.op = "ins"   -> [r |-> c.k \notin DOMAIN m]
    [] c.op = "rem"   -> [r |-> c.k \in DOMAIN m]
    [] c.op = "get"   -> IF c.k \in DOMAIN m THEN [r |-> TRUE, val |-> m[c.k]]
                                             ELSE [r |-> FALSE]
    [] c.op = "empty" -> [r |-> DOMAIN m = {}]
    [] c.op = "clear" -> [r |-> TRUE]
    \* statistics getter: the reported number of leaves is the number of entries (C10) at the moment
    \* the getter owns the mutex -- never a value in the middle of another call's bookkeeping
    [] c.op = "leaves" -> [r |-> TRUE, n |-> Cardinality(DOMAIN m)]
    [] c.op = "scan"  -> LET ks == SortedKeys(m, c.fwd) IN
                         [r |-> TRUE, ks |-> ks, vs |-> [i \in 1..Len(ks) |-> m[ks[i]]]]

Effect(m, c) ==
  CASE c.op = "ins"   -> IF c.k \in DOMAIN m THEN m ELSE (c.k :> c.v) @@ m
    [] c.op = "rem"   -> [x \in DOMAIN m \ {c.k} |-> m[x]]
    [] c.op = "clear" -> <<>>
    [] OTHER          -> m

Calls == [op : {"ins"}, k : Keys, v : Vals] \cup [op : {"rem", "get"}, k : Keys]
         \cup [op : {"empty", "clear", "leaves"}] \cup [op : {"scan"}, fwd : {TRUE}]

TakesLock(c) ==
  CASE c.op = "ins"   -> InsertTakesLock
    [] c.op = "empty" -> EmptyTakesLock
    [] c.op = "clear" -> ClearTakesLock
    [] c.op = "scan"  -> ScanTakesLock
    [] c.op = "leaves" -> StatsTakeLock
    [] OTHER          -> TRUE

\* Does the call return still owning the mutex (given that it owns it in its
\* critical section)?
KeepsLock(c, r) ==
  c.op = "get" /\ IF r.r THEN GetHitKeepsLock ELSE ~MissReleases

-----------------------------------------------------------------------------
Init ==
  /\ map = <<>>
  /\ holder = None
  /\ pc = [t \in Threads |-> "idle"]
  /\ call = [t \in Threads |-> NoCall]
  /\ res = [t \in Threads |-> NoRes]
  /\ lin = [t \in Threads |-> NoRes]
  /\ ncalls = [t \in Threads |-> 0]

\* the caller invokes a public method
Call(t, c) ==
  /\ pc[t] = "idle"
  /\ ncalls[t] < MaxCalls
  /\ call' = [call EXCEPT ![t] = c]
  /\ ncalls' = [ncalls EXCEPT ![t] = @ + 1]
  /\ pc' = [pc EXCEPT ![t] = IF c.op = "rem" /\ ~RemoveLocksBeforeLookup THEN "look" ELSE "acq"]
  /\ UNCHANGED <<map, holder, res, lin>>

\* only with RemoveLocksBeforeLookup = FALSE: the tree is searched before the
\* mutex is taken, and the outcome of that search is what the call reports
Look(t) ==
  /\ pc[t] = "look"
  /\ res' = [res EXCEPT ![t] = Result(map, call[t])]
  /\ pc' = [pc EXCEPT ![t] = "acq"]
  /\ UNCHANGED <<map, holder, call, lin, ncalls>>

\* std::mutex::lock (blocks while somebody owns the mutex); a method that has
\* lost its guard walks straight in
Acquire(t) ==
  /\ pc[t] = "acq"
  /\ IF TakesLock(call[t]) THEN holder = None /\ holder' = t
                           ELSE UNCHANGED holder
  /\ pc' = [pc EXCEPT ![t] = "cs"]
  /\ UNCHANGED <<map, call, res, lin, ncalls>>

\* the call on the unsynchronised index: one atomic step of the sequential map
Act(t) ==
  /\ pc[t] = "cs"
  /\ LET c == call[t]
         r == Result(map, c)
         early == c.op = "rem" /\ ~RemoveLocksBeforeLookup
     IN /\ lin' = [lin EXCEPT ![t] = r]
        /\ res' = [res EXCEPT ![t] = IF early THEN res[t] ELSE r]
        /\ map' = IF early /\ ~res[t].r THEN map ELSE Effect(map, c)
  /\ pc' = [pc EXCEPT ![t] = "rel"]
  /\ UNCHANGED <<holder, call, ncalls>>

\* the guard goes out of scope (or is moved into the result) and the method
\* returns.  After a get the caller owns a get_result ("handle").
Return(t) ==
  /\ pc[t] = "rel"
  /\ holder' = IF holder = t /\ ~KeepsLock(call[t], res[t]) THEN None ELSE holder
  /\ IF call[t].op = "get"
       THEN /\ pc' = [pc EXCEPT ![t] = "handle"]
            /\ UNCHANGED <<call, res, lin>>
       ELSE /\ pc' = [pc EXCEPT ![t] = "idle"]
            /\ call' = [call EXCEPT ![t] = NoCall]
            /\ res' = [res EXCEPT ![t] = NoRes]
            /\ lin' = [lin EXCEPT ![t] = NoRes]
  /\ UNCHANGED <<map, ncalls>>

\* the caller lets go of the get_result: its unique_lock unlocks iff it owns
Drop(t) ==
  /\ pc[t] = "handle"
  /\ holder' = IF holder = t THEN None ELSE holder
  /\ pc' = [pc EXCEPT ![t] = "idle"]
  /\ call' = [call EXCEPT ![t] = NoCall]
  /\ res' = [res EXCEPT ![t] = NoRes]
  /\ lin' = [lin EXCEPT ![t] = NoRes]
  /\ UNCHANGED <<map, ncalls>>

Done == /\ \A t \in Threads : pc[t] = "idle" /\ ncalls[t] = MaxCalls
        /\ UNCHANGED vars

Next == \/ \E t \in Threads : \/ \E c \in Calls : Call(t, c)
                              \/ Look(t) \/ Acquire(t) \/ Act(t) \/ Return(t) \/ Drop(t)
        \/ Done

Spec == Init /\ [][Next]_vars

-----------------------------------------------------------------------------
(* Invariants (C13) *)

PCs == {"idle", "look", "acq", "cs", "rel", "handle"}

TypeOK ==
  /\ DOMAIN map \subseteq Keys /\ \A k \in DOMAIN map : map[k] \in Vals
  /\ holder \in Threads \cup {None}
  /\ pc \in [Threads -> PCs]
  /\ \A t \in Threads : /\ call[t] \in Calls \cup {NoCall}
                        /\ (pc[t] = "idle") = (call[t] = NoCall)
                        /\ ncalls[t] \in 0..MaxCalls

InCS(t) == pc[t] \in {"cs", "rel"}

\* Mutual exclusion: every action on the unsynchronised index happens while
\* its thread owns the mutex, hence at most one at a time.
MutualExclusion ==
  /\ \A t \in Threads : InCS(t) => holder = t
  /\ Cardinality({t \in Threads : InCS(t)}) <= 1

\* Atomicity: what a call reports is what the sequential index yields at the
\* call's single atomic step.
ResultIsMapResult ==
  \A t \in Threads : pc[t] \in {"rel", "handle"} => res[t] = lin[t]

IsHit(t) == pc[t] = "handle" /\ res[t].r

\* A get that finds its key returns owning the index lock, a get that misses
\* returns without it.
HandleOwnership ==
  \A t \in Threads : pc[t] = "handle" => ((holder = t) = res[t].r)

\* No other operation returns with the lock held: a thread between calls (or
\* waiting for the mutex) does not own it.
NoLockLeftHeld ==
  \A t \in Threads : pc[t] \in {"idle", "look", "acq"} => holder # t

\* While the caller holds the result of a hit, the entry is there and the
\* value is the one returned ...
Pinned ==
  \A t \in Threads : IsHit(t) => /\ call[t].k \in DOMAIN map
                                 /\ map[call[t].k] = res[t].val

\* ... because no other thread is inside the index.
PinExcludes ==
  \A t, u \in Threads : (t # u /\ IsHit(t)) => ~InCS(u)

\* Action form: the index does not change while a hit is held.
PinnedStableStep ==
  \A t \in Threads : (IsHit(t) /\ pc'[t] = "handle") => map' = map
PinnedStable == [][PinnedStableStep]_vars

\* Every map action is taken under the mutex (action form of MutualExclusion).
ActUnderLockStep ==
  \A t \in Threads : (pc[t] = "cs" /\ pc'[t] = "rel") => holder = t
ActUnderLock == [][ActUnderLockStep]_vars

Symm == Permutations(Threads)
=============================================================================
