------------------------------ MODULE MutexTrace ------------------------------
(***************************************************************************)
(* Conformance of the real unodb::mutex_db to MutexDb (property C13).      *)
(*                                                                         *)
(* harness/mutex_driver.cpp runs 2-8 free-running std::threads against one *)
(* real mutex_db and records, per run ("history"), the merged sequence of  *)
(*   call  {t, op, k, v?, fwd?, seq}    stamped BEFORE the method is invoked *)
(*   ret   {t, res, val?, owns?, ks?, vs?, seq}  stamped AFTER it returned  *)
(*   hold  {t, val, seq}   the value bytes re-read through the view while  *)
(*                         the get_result of a hit is still held           *)
(*   drop  {t, seq}        stamped BEFORE the get_result is let go         *)
(* ordered by seq, one global atomic counter, so that "a precedes b in the *)
(* file" is implied by "a happened before b".  Histories are separated by  *)
(* reset events (fresh index).                                             *)
(*                                                                         *)
(* The trace specification is MutexDb itself (faithful flags), constrained *)
(* by the events.  What is not logged -- when, between its call and its    *)
(* ret stamp, a method owned the mutex -- is chosen by TLC: the internal   *)
(* steps Acquire(t), Act(t), Return(t) of MutexDb, taken back to back      *)
(* (TLin), are the linearization point of t's pending call.  A history is  *)
(* accepted iff TLC can consume every event:                               *)
(*   - call:  MutexDb!Call                                                 *)
(*   - ret:   the method has returned in the model (pc = idle / handle),   *)
(*            and what was logged (result, value bytes, scan output) is    *)
(*            what Act produced; owns = "the model's holder is t" (hit:    *)
(*            TRUE, miss: FALSE)                                           *)
(*   - hold:  t is in "handle" after a hit and the bytes re-read are the   *)
(*            bytes returned = the bytes in the map                        *)
(*   - drop:  MutexDb!Drop                                                 *)
(*   - statistics getters ("leaves"): the value is the number of entries  *)
(*            at a moment between call and ret at which no call is inside  *)
(*            its critical section; they need not wait for a held result   *)
(* Since Acquire needs holder = None, no call of another thread can        *)
(* linearize between the linearization of a hit and the drop stamp of its  *)
(* handle: an operation that ran completely inside such a window (it did   *)
(* not wait for the lock) makes the history unacceptable, as does any      *)
(* result that no order of the overlapping calls explains.                 *)
(*                                                                         *)
(* Driver rule (harness/mutex_driver.cpp): a thread issues no call while   *)
(* it holds a get_result; every get (hit or miss) is followed by drop.     *)
(*                                                                         *)
(* Search-space reduction (sound and complete for acceptance): internal    *)
(* steps are taken only when the next event is a ret.  Any accepting run   *)
(* can be rearranged by delaying every linearization, order preserved, to  *)
(* just before the next ret stamp in the file: it stays after its own call *)
(* and before its own ret, and a hit's linearization stays before its ret, *)
(* hence before its drop, with the same operations before and after it.    *)
(* The result computed by Act is compared with the call's ret event at     *)
(* once (look-ahead), which cuts hopeless branches early.                  *)
(***************************************************************************)
EXTENDS MutexDb, Json, IOUtils

VARIABLES l,       \* next line of the trace
          await    \* per thread: line of the ret event of its call in flight, 0 if none

JTrace == ndJsonDeserialize(IOEnv.TRACE)
N == Len(JTrace)
Ev == JTrace[l]

\* bindings of MutexDb's constants (cfg/MutexTrace/trace.cfg)
TrThreads == 1..8
TrKeys == {}          \* calls come from the trace, not from quantification
TrVals == {}
TrMaxCalls == 1000000
TrNone == 0

tvars == <<vars, l, await>>

CallOf(e) ==
  CASE e.op = "ins"  -> [op |-> "ins", k |-> e.k, v |-> e.v]
    [] e.op = "rem"  -> [op |-> "rem", k |-> e.k]
    [] e.op = "get"  -> [op |-> "get", k |-> e.k]
    [] e.op = "scan" -> [op |-> "scan", fwd |-> e.fwd]
    [] OTHER         -> [op |-> e.op]

\* line of the ret event that answers the call of thread t issued before line j
\* (0: none before the end of the history).  Searched in chunks of 64 lines so
\* that the recursion stays shallow however long a call was blocked.
MinOf(S) == CHOOSE x \in S : \A y \in S : x <= y
RECURSIVE NextRet(_, _)
NextRet(t, j) ==
  IF j > N THEN 0
  ELSE LET hi == IF j + 63 < N THEN j + 63 ELSE N
           W == {i \in j..hi : \/ JTrace[i].e = "reset"
                               \/ (JTrace[i].e = "ret" /\ JTrace[i].t = t)}
       IN IF W = {} THEN NextRet(t, hi + 1)
          ELSE LET m == MinOf(W) IN IF JTrace[m].e = "reset" THEN 0 ELSE m

\* the logged outcome e of call c is the outcome r of the sequential index
RetMatches(e, c, r) ==
  /\ e.res = r.r
  /\ (c.op = "get" /\ r.r) => e.val = r.val
  /\ (c.op = "scan") => (e.ks = r.ks /\ e.vs = r.vs)
  /\ (c.op = "leaves") => e.n = r.n

Quiet == \A t \in Threads : ~InCS(t)     \* nobody is inside a linearization

-----------------------------------------------------------------------------
(* logged events *)

TCall ==
  /\ Ev.e = "call"
  /\ await[Ev.t] = 0
  /\ LET ri == NextRet(Ev.t, l + 1) IN
       /\ ri > 0
       /\ await' = [await EXCEPT ![Ev.t] = ri]
  /\ Call(Ev.t, CallOf(Ev))

TRet ==
  /\ Ev.e = "ret"
  /\ await[Ev.t] = l
  /\ pc[Ev.t] \in {"idle", "handle"}          \* linearized and returned in the model
  /\ ("owns" \in DOMAIN Ev) => (Ev.owns = (holder = Ev.t))
  /\ await' = [await EXCEPT ![Ev.t] = 0]
  /\ UNCHANGED vars

THold ==
  /\ Ev.e = "hold"
  /\ await[Ev.t] = 0
  /\ IsHit(Ev.t)
  /\ Ev.val = res[Ev.t].val
  /\ call[Ev.t].k \in DOMAIN map /\ Ev.val = map[call[Ev.t].k]
  /\ UNCHANGED <<vars, await>>

TDrop ==
  /\ Ev.e = "drop"
  /\ await[Ev.t] = 0
  /\ Drop(Ev.t)
  /\ UNCHANGED await

\* the index is destroyed and a fresh one created; every thread has been joined
TReset ==
  /\ Ev.e = "reset"
  /\ \A t \in Threads : pc[t] = "idle" /\ await[t] = 0
  /\ holder = None
  /\ map' = <<>>
  /\ ncalls' = [t \in Threads |-> 0]
  /\ UNCHANGED <<holder, pc, call, res, lin, await>>

TEvent ==
  /\ l <= N
  /\ Quiet
  /\ l' = l + 1
  /\ TLCSet(1, IF l > TLCGet(1) THEN l ELSE TLCGet(1))   \* deepest line reached (diagnostics)
  /\ TCall \/ TRet \/ THold \/ TDrop \/ TReset

-----------------------------------------------------------------------------
(* internal steps: the linearization of t's call = MutexDb's                *)
(* Acquire(t); Act(t); Return(t)                                           *)

TAcquire(t) ==
  /\ l <= N /\ Ev.e = "ret"
  /\ Quiet
  /\ Acquire(t)

TAct(t) ==
  /\ Act(t)
  /\ RetMatches(JTrace[await[t]], call[t], res'[t])

TReturn(t) == Return(t)

\* A statistics getter only reads: C13 demands that its value is linearizable, not that it waits for a
\* caller who merely holds the result of a hit (nothing is being modified then).  So besides the route
\* Acquire; Act; Return it may linearize, in one step, while the mutex is owned by a thread in "handle".
\* (What it must never report is a value from the middle of another call's critical section: those
\* values match no moment at which the index is Quiet.)
TStatsWhilePinned(t) ==
  /\ l <= N /\ Ev.e = "ret"
  /\ Quiet
  /\ pc[t] = "acq" /\ call[t].op = "leaves"
  /\ holder # None /\ holder # t /\ pc[holder] = "handle"
  /\ RetMatches(JTrace[await[t]], call[t], Result(map, call[t]))
  /\ pc' = [pc EXCEPT ![t] = "idle"]
  /\ call' = [call EXCEPT ![t] = NoCall]
  /\ UNCHANGED <<map, holder, res, lin, ncalls>>

TLin == /\ \E t \in Threads : TAcquire(t) \/ TAct(t) \/ TReturn(t) \/ TStatsWhilePinned(t)
        /\ UNCHANGED <<l, await>>

TNext == TEvent \/ TLin

TInit == /\ Init
         /\ l = 2                          \* line 1 is the header
         /\ await = [t \in Threads |-> 0]
         /\ TLCSet(1, 0)

TSpec == TInit /\ [][TNext]_tvars

\* violated == the whole file has been consumed == every history is accepted
NotAccepted == l <= N

\* evaluated when the search ends without acceptance: where it got stuck
Report == PrintT(<<"MAXLINE", TLCGet(1)>>)
=============================================================================
