------------------------------- MODULE OlcArt -------------------------------
(***************************************************************************)
(* The optimistic-lock-coupling ART of olc_art.hpp at the granularity of   *)
(* the verification hooks: one action per lock-word access (L_LOAD,        *)
(* L_CHECK, L_CAS, L_UNLOCK, L_OBSOLETE), per spin-wait body (SPIN) and    *)
(* per protected-field *segment* (the first in_critical_section access     *)
(* after a lock operation; the remaining accesses of the segment are       *)
(* folded into it).  Transcribed from try_get / try_insert / try_remove,   *)
(* add_or_choose_subtree and remove_or_choose_subtree; the uncontended     *)
(* step sequences are checked against the real code's recorded signatures  *)
(* (OLC_SIGLOG, tools/check_olcart.py).                                    *)
(*                                                                         *)
(* State: nodes (leaves and inner nodes with key prefix, child map, size   *)
(* class), one lock word per node and one for the root pointer, per-thread *)
(* registers mirroring the C++ locals.  Reclamation is abstract (a grace   *)
(* period: a retired node may be freed by the environment once every       *)
(* thread that was inside an operation at retire time has quiesced).       *)
(*                                                                         *)
(* Properties: C03 (Linearizable, FinalTreeIsMap), C04 (NoUseAfterFree,    *)
(* NoReachableRetired), C14 (deadlock freedom = TLC deadlock check,        *)
(* NoLockHeldAtReturn), C07 as used by the tree (OneWriterPerNode).        *)
(***************************************************************************)
EXTENDS Integers, Sequences, FiniteSets, TLC

CONSTANTS Threads,
          KeyLen,            \* bytes per key
          Caps,              \* node capacities per size class, <<4,16,48,256>> in the code
          MaxNodes,
          MaxVersion,        \* exploration bound on lock words (see VersionBound)
          InitNodes, InitRoot, InitNext, InitAbs,   \* initial tree (generated per scenario)
          Programs,          \* Programs[t]: sequence of [op, k, v]
          QEach,             \* quiescent state after every operation (else only at thread end)
          \* protections of the design; TRUE in the faithful model
          LockRemainingChildOnCollapse,   \* D4: remaining inner child write-locked on collapse
          RecheckParentAfterAdd,          \* add to non-full node re-validates the parent
          GetRechecksParent,              \* get validates the old node after loading the child pointer
          ObsoleteReplacedNode,           \* a node replaced by growth is marked obsolete
          RemoveChecksNodeBeforeChildLock \* remove validates the node before locking the child

VARIABLES nodes,    \* id -> [kind, key, val, prefix, ch, cls, st]
          lk,       \* lock id (0 = root pointer lock, n = node n) -> lock word
          root, next,
          th,       \* per-thread registers
          abs,      \* ghost: the abstract map (linearization at the publishing segment)
          obs,      \* ghost: per thread, what its key held at some moment of the current call
          waitfor,  \* ghost (grace period): retired node -> threads that must still quiesce
          bad       \* ghost: "" or the first violated clause

vars == <<nodes, lk, root, next, th, abs, obs, waitfor, bad>>

NoNode == [kind |-> "none", key |-> <<>>, val |-> 0, prefix |-> <<>>, ch |-> <<>>, cls |-> 0, st |-> "none"]
Leaf(k, v) == [kind |-> "leaf", key |-> k, val |-> v, prefix |-> <<>>, ch |-> <<>>, cls |-> 0, st |-> "private"]
Inode(p, c, cl) == [kind |-> "inode", key |-> <<>>, val |-> 0, prefix |-> p, ch |-> c, cls |-> cl, st |-> "private"]

\* results and statuses are integers: stored values are positive
Absent == -1
Exists == -2
Ok == -3
ToRestart == -9
Obsolete == 1
IsFree(w) == w % 4 = 0
IsLocked(w) == w % 4 = 2
MinSize(c) == IF c = 1 THEN 2 ELSE Caps[c - 1] + 1
NCh(n) == Cardinality(DOMAIN nodes[n].ch)

RECURSIVE LcpFrom(_, _, _)
LcpFrom(a, b, i) == IF i > Len(a) \/ i > Len(b) \/ a[i] # b[i] THEN i - 1 ELSE LcpFrom(a, b, i + 1)
Lcp(a, b) == LcpFrom(a, b, 1)
Drop(s, n) == SubSeq(s, n + 1, Len(s))
Take(s, n) == SubSeq(s, 1, n)

Flag(cond, name) == IF bad = "" /\ cond THEN name ELSE bad

InitTh == [pc |-> "idle", i |-> 0, op |-> "none", k |-> <<>>, v |-> 0,
           par |-> 0, pv |-> 0, node |-> 0, nv |-> 0, child |-> 0, cv |-> 0, rem |-> 0, rv |-> 0,
           depth |-> 0, slot |-> <<0, 0>>, cb |-> 0, cleaf |-> 0, newn |-> 0,
           held |-> <<>>, after |-> 0, res |-> 0]

Init == /\ nodes = [n \in 1..MaxNodes |-> IF n \in DOMAIN InitNodes THEN InitNodes[n] ELSE NoNode]
        /\ lk = [n \in 0..MaxNodes |-> 0]
        /\ root = InitRoot /\ next = InitNext
        /\ th = [t \in Threads |-> InitTh]
        /\ abs = InitAbs
        /\ obs = [t \in Threads |-> {}]
        /\ waitfor = [n \in 1..MaxNodes |-> {}]
        /\ bad = ""

-----------------------------------------------------------------------------
(* helpers *)

InOp(t) == th[t].pc # "idle" /\ th[t].pc # "done"
Status(k) == IF k \in DOMAIN abs THEN abs[k] ELSE Absent

\* every access to node n (lock word or fields): C04
Touch(n) == n # 0 /\ nodes[n].st = "freed"

\* ghost: the abstract map changes for key k: every in-flight call on k observes the new status
ObsUpdate(k, newStatus) == [u \in Threads |-> IF InOp(u) /\ th[u].k = k THEN obs[u] \cup {newStatus} ELSE obs[u]]

\* slot write: the parent slot <<node or 0 for root, byte>> := x
SetSlot(nd, slot, x) == IF slot[1] = 0 THEN nd
                        ELSE [nd EXCEPT ![slot[1]].ch = (slot[2] :> x) @@ @]

Retire(wf, n, t) == [wf EXCEPT ![n] = {u \in Threads : InOp(u)}]

StartPc(op) == CASE op = "get" -> "g_rl" [] op = "ins" -> "i_rl" [] op = "rem" -> "r_rl"
                 [] op = "scan" -> "s_call"      \* scans: module OlcArtIter

\* restart the current operation from its first step (cached leaf is kept)
Restart(r) == [r EXCEPT !.pc = StartPc(r.op), !.held = <<>>, !.newn = 0]

-----------------------------------------------------------------------------
(* call / return (no shared access; folded into the harness's call boundary) *)

Call(t) ==
  /\ th[t].pc = "idle" /\ th[t].i < Len(Programs[t])
  /\ LET o == Programs[t][th[t].i + 1] IN
     /\ th' = [th EXCEPT ![t] = [InitTh EXCEPT !.pc = StartPc(o.op), !.i = th[t].i + 1,
                                                !.op = o.op, !.k = o.k, !.v = o.v]]
     /\ obs' = [obs EXCEPT ![t] = {Status(o.k)}]
  /\ UNCHANGED <<nodes, lk, root, next, abs, waitfor, bad>>

\* Ret is folded into the last step of every operation:
Return(r, t, res) ==
  [r EXCEPT !.pc = IF r.i = Len(Programs[t]) THEN "done" ELSE "idle", !.res = res, !.held = <<>>]

\* ghost checks at return of outcomes that only read (C03)
RetFlag(t, res) ==
  LET r == th[t] IN
  CASE res = Absent -> Flag(Absent \notin obs[t], "Linearizable(reports absent, key present throughout)")
    [] res = Exists -> Flag(obs[t] \subseteq {Absent}, "Linearizable(insert reports exists, key absent throughout)")
    [] res = Ok -> bad
    [] OTHER -> Flag(res \notin obs[t], "Linearizable(get returns a value the key never held during the call)")

\* quiescent state at the call boundary
QuiesceAt(wf, t, r2) == IF QEach \/ r2.pc = "done"
                          THEN [n \in 1..MaxNodes |-> wf[n] \ {t}] ELSE wf

\* common tail of a returning step: thread record r2 (already Return-ed)
Finish(t, r2, res) ==
  /\ th' = [th EXCEPT ![t] = r2]
  /\ bad' = RetFlag(t, res)
  /\ waitfor' = QuiesceAt(waitfor, t, r2)

\* environment: a retired node is handed back to the allocator after its grace period
Free(n) == /\ nodes[n].st = "retired" /\ waitfor[n] = {}
           /\ nodes' = [nodes EXCEPT ![n].st = "freed"]
           /\ UNCHANGED <<lk, root, next, th, abs, obs, waitfor, bad>>

-----------------------------------------------------------------------------
(* generic lock steps, parametrised by the continuation *)

\* try_read_lock on lock id L (L_LOAD): spins while write-locked
\* onFree(r, w) / onObsolete(r) give the next thread record
ReadLockStep(t, L, spinPc, onFree(_, _), onObsolete(_)) ==
  LET r == th[t] w == lk[L] IN
  /\ th' = [th EXCEPT ![t] = IF IsFree(w) THEN onFree(r, w)
                             ELSE IF w = Obsolete THEN onObsolete(r)
                             ELSE [r EXCEPT !.pc = spinPc]]
  /\ bad' = Flag(Touch(L), "NoUseAfterFree(lock word)")
  /\ UNCHANGED <<nodes, lk, root, next, abs, obs, waitfor>>

\* spin_wait_loop_body (SPIN): go to pc p
SpinStep(t, p) ==
  /\ th' = [th EXCEPT ![t] = IF p = "restart" THEN Restart(@) ELSE [@ EXCEPT !.pc = p]]
  /\ UNCHANGED <<nodes, lk, root, next, abs, obs, waitfor, bad>>

\* check / try_read_unlock of lock id L against version ver (L_CHECK)
CheckStep(t, L, ver, onOk(_), onFail(_)) ==
  LET r == th[t] IN
  /\ th' = [th EXCEPT ![t] = IF lk[L] = ver THEN onOk(r) ELSE onFail(r)]
  /\ bad' = Flag(Touch(L), "NoUseAfterFree(lock word)")
  /\ UNCHANGED <<nodes, lk, root, next, abs, obs, waitfor>>

\* upgrade (L_CAS): on success the lock id is pushed on the held stack
UpgradeStep(t, L, ver, okPc, onFail(_)) ==
  LET r == th[t] IN
  /\ IF lk[L] = ver
       THEN /\ lk' = [lk EXCEPT ![L] = ver + 2]
            /\ th' = [th EXCEPT ![t] = [r EXCEPT !.pc = okPc, !.held = <<L>> \o r.held]]
       ELSE /\ th' = [th EXCEPT ![t] = onFail(r)] /\ UNCHANGED lk
  /\ bad' = Flag(Touch(L), "NoUseAfterFree(lock word)")
  /\ UNCHANGED <<nodes, root, next, abs, obs, waitfor>>

\* write guards still held are released in reverse order of acquisition, one
\* L_UNLOCK per step; then continue with r.after (ToRestart or a result)
Unwind(r, afterwards) == [r EXCEPT !.pc = "unw", !.after = afterwards]
UnwindStep(t) ==
  LET r == th[t] IN
  /\ r.pc = "unw" /\ r.held # <<>>
  /\ lk' = [lk EXCEPT ![Head(r.held)] = @ + 2]
  /\ LET r1 == [r EXCEPT !.held = Tail(r.held)] IN
     IF r1.held # <<>> THEN th' = [th EXCEPT ![t] = r1] /\ UNCHANGED <<bad, waitfor>>
     ELSE IF r.after = ToRestart THEN th' = [th EXCEPT ![t] = Restart(r1)] /\ UNCHANGED <<bad, waitfor>>
     ELSE Finish(t, Return(r1, t, r.after), r.after)
  /\ UNCHANGED <<nodes, root, next, abs, obs>>

\* write_unlock_and_obsolete (L_OBSOLETE) of lock L held by t
ObsoleteStep(t, L, nextPc) ==
  LET r == th[t] IN
  /\ lk' = [lk EXCEPT ![L] = Obsolete]
  /\ th' = [th EXCEPT ![t] = [r EXCEPT !.pc = nextPc, !.held = SelectSeq(r.held, LAMBDA x : x # L)]]
  /\ UNCHANGED <<nodes, root, next, abs, obs, waitfor, bad>>

-----------------------------------------------------------------------------
(* what a field segment sees in inner node n for the remaining key of thread record r *)
RemKey(r) == Drop(r.k, r.depth)
PrefixMatches(n, r) == Lcp(nodes[n].prefix, RemKey(r)) = Len(nodes[n].prefix)
\* (a stale reader may stand at a depth at which its key is exhausted: the code then reads a zero byte of the
\*  shifted-out integer key; whatever it does with it is discarded by the failing validation that follows)
Byte(n, r) == LET i == r.depth + Len(nodes[n].prefix) + 1 IN IF i <= Len(r.k) THEN r.k[i] ELSE 0
HasChild(n, r) == Byte(n, r) \in DOMAIN nodes[n].ch

\* a step that only reads fields of node n and changes the thread record
FieldRead(t, n, r2) ==
  /\ th' = [th EXCEPT ![t] = r2]
  /\ bad' = Flag(Touch(n), "NoUseAfterFree(node fields)")
  /\ UNCHANGED <<nodes, lk, root, next, abs, obs, waitfor>>

\* a check-like step that ends the operation with result res when it succeeds
CheckRet(t, L, ver, res) ==
  LET r == th[t] IN
  /\ IF lk[L] = ver
       THEN Finish(t, Return(r, t, res), res)
       ELSE th' = [th EXCEPT ![t] = Restart(r)] /\ UNCHANGED <<bad, waitfor>>
  /\ UNCHANGED <<nodes, lk, root, next, abs, obs>>

-----------------------------------------------------------------------------
(* try_get *)

G_rl(t) == th[t].pc = "g_rl" /\
  ReadLockStep(t, 0, "g_rl_s", LAMBDA r, w : [r EXCEPT !.pc = "g_rf", !.par = 0, !.pv = w, !.depth = 0],
               LAMBDA r : Restart(r))
G_rl_s(t) == th[t].pc = "g_rl_s" /\ SpinStep(t, "g_rl")
\* load of the root pointer (F_LOAD)
G_rf(t) == th[t].pc = "g_rf" /\
  /\ th' = [th EXCEPT ![t] = [@ EXCEPT !.node = root, !.pc = IF root = 0 THEN "g_re" ELSE "g_rc"]]
  /\ UNCHANGED <<nodes, lk, root, next, abs, obs, waitfor, bad>>
\* empty tree: try_read_unlock of the root lock
G_re(t) == th[t].pc = "g_re" /\
  LET r == th[t] IN
  /\ IF lk[0] = r.pv THEN Finish(t, Return(r, t, Absent), Absent)
                     ELSE th' = [th EXCEPT ![t] = [r EXCEPT !.pc = "g_sp"]] /\ UNCHANGED <<bad, waitfor>>
  /\ UNCHANGED <<nodes, lk, root, next, abs, obs>>
G_rc(t) == th[t].pc = "g_rc" /\
  CheckStep(t, 0, th[t].pv, LAMBDA r : [r EXCEPT !.pc = "g_nl"], LAMBDA r : [r EXCEPT !.pc = "g_sp"])
G_sp(t) == th[t].pc = "g_sp" /\ SpinStep(t, "restart")
\* read lock of the current node
G_nl(t) == th[t].pc = "g_nl" /\
  ReadLockStep(t, th[t].node, "g_nl_s", LAMBDA r, w : [r EXCEPT !.pc = "g_pu", !.nv = w], LAMBDA r : Restart(r))
G_nl_s(t) == th[t].pc = "g_nl_s" /\ SpinStep(t, "g_nl")
\* try_read_unlock of the parent
G_pu(t) == th[t].pc = "g_pu" /\
  CheckStep(t, th[t].par, th[t].pv,
            LAMBDA r : [r EXCEPT !.pc = IF nodes[r.node].kind = "leaf" THEN "g_lu" ELSE "g_nf"],
            LAMBDA r : Restart(r))
\* leaf: compare the key, read the value, try_read_unlock of the leaf
G_lu(t) == th[t].pc = "g_lu" /\
  LET r == th[t]  n == nodes[r.node]
      res == IF n.key = r.k THEN n.val ELSE Absent IN
  /\ CheckRet(t, r.node, r.nv, res)
\* inner node: prefix, child lookup, load of the child pointer (one field segment)
G_nf(t) == th[t].pc = "g_nf" /\
  LET r == th[t]  n == r.node IN
  FieldRead(t, n,
    IF ~PrefixMatches(n, r) \/ ~HasChild(n, r) THEN [r EXCEPT !.pc = "g_nu"]
    ELSE [r EXCEPT !.pc = IF GetRechecksParent THEN "g_pc" ELSE "g_nl",
                   !.par = n, !.pv = r.nv, !.node = nodes[n].ch[Byte(n, r)],
                   !.depth = r.depth + Len(nodes[n].prefix) + 1])
G_nu(t) == th[t].pc = "g_nu" /\ CheckRet(t, th[t].node, th[t].nv, Absent)
\* check of the node the child pointer was read from
G_pc(t) == th[t].pc = "g_pc" /\
  CheckStep(t, th[t].par, th[t].pv, LAMBDA r : [r EXCEPT !.pc = "g_nl"], LAMBDA r : Restart(r))

GetStep(t) == G_rl(t) \/ G_rl_s(t) \/ G_rf(t) \/ G_re(t) \/ G_rc(t) \/ G_sp(t) \/ G_nl(t) \/ G_nl_s(t)
              \/ G_pu(t) \/ G_lu(t) \/ G_nf(t) \/ G_nu(t) \/ G_pc(t)

-----------------------------------------------------------------------------
(* allocation of private nodes (leaf / inner node not yet published) *)
FreeIds == {n \in 1..MaxNodes : nodes[n].kind = "none"}
MinOf(S) == CHOOSE x \in S : \A y \in S : x <= y
Id1 == MinOf(FreeIds)
Id2 == MinOf(FreeIds \ {Id1})
\* discard private nodes (unique_ptr destructors on a restart path): direct free
Discard(nd, ids) == [n \in 1..MaxNodes |-> IF n \in ids /\ n # 0 THEN NoNode ELSE nd[n]]

\* create_leaf_if_needed: returns <<nodes', leaf id>>
WithLeaf(nd, r) == IF r.cleaf # 0 THEN <<nd, r.cleaf>>
                   ELSE LET i == MinOf({n \in 1..MaxNodes : nd[n].kind = "none"})
                        IN <<[nd EXCEPT ![i] = Leaf(r.k, r.v)], i>>
NewInode(nd, node) == LET i == MinOf({n \in 1..MaxNodes : nd[n].kind = "none"})
                      IN <<[nd EXCEPT ![i] = node], i>>

-----------------------------------------------------------------------------
(* try_insert *)

I_rl(t) == th[t].pc = "i_rl" /\
  ReadLockStep(t, 0, "i_rl_s", LAMBDA r, w : [r EXCEPT !.pc = "i_rf", !.par = 0, !.pv = w, !.depth = 0, !.slot = <<0, 0>>],
               LAMBDA r : Restart(r))
I_rl_s(t) == th[t].pc = "i_rl_s" /\ SpinStep(t, "i_rl")
\* load of the root pointer; empty tree: create the leaf (thread-local)
I_rf(t) == th[t].pc = "i_rf" /\
  LET r == th[t] IN
  /\ IF root = 0
       THEN LET wl == WithLeaf(nodes, r) IN
            /\ nodes' = wl[1]
            /\ th' = [th EXCEPT ![t] = [r EXCEPT !.node = 0, !.cleaf = wl[2], !.pc = "i_ew"]]
       ELSE /\ th' = [th EXCEPT ![t] = [r EXCEPT !.node = root, !.pc = "i_rc"]] /\ UNCHANGED nodes
  /\ UNCHANGED <<lk, root, next, abs, obs, waitfor, bad>>
\* empty tree: upgrade the root lock, store the leaf, unlock
I_ew(t) == th[t].pc = "i_ew" /\ UpgradeStep(t, 0, th[t].pv, "i_es", LAMBDA r : Restart(r))
I_es(t) == th[t].pc = "i_es" /\
  LET r == th[t] IN
  /\ root' = r.cleaf
  /\ nodes' = [nodes EXCEPT ![r.cleaf].st = "live"]
  /\ abs' = (r.k :> r.v) @@ abs
  /\ obs' = ObsUpdate(r.k, r.v)
  /\ bad' = Flag(r.k \in DOMAIN abs, "Linearizable(insert published over an existing entry)")
  /\ th' = [th EXCEPT ![t] = Unwind([r EXCEPT !.cleaf = 0], Ok)]
  /\ UNCHANGED <<lk, next, waitfor>>
I_rc(t) == th[t].pc = "i_rc" /\
  CheckStep(t, 0, th[t].pv, LAMBDA r : [r EXCEPT !.pc = "i_nl"], LAMBDA r : [r EXCEPT !.pc = "i_sp"])
I_sp(t) == th[t].pc = "i_sp" /\ SpinStep(t, "restart")

\* read lock of the current node; what follows is decided from immutable data (leaf) or
\* prepared thread-locally (allocation of the new leaf / inner node)
I_nl(t) == th[t].pc = "i_nl" /\
  LET r == th[t]  n == r.node  w == lk[n] IN
  /\ bad' = Flag(Touch(n), "NoUseAfterFree(lock word)")
  /\ IF IsLocked(w) THEN th' = [th EXCEPT ![t] = [r EXCEPT !.pc = "i_nl_s"]] /\ UNCHANGED nodes
     ELSE IF w = Obsolete THEN th' = [th EXCEPT ![t] = Restart(r)] /\ UNCHANGED nodes
     ELSE IF nodes[n].kind = "leaf"
       THEN IF nodes[n].key = r.k
              THEN th' = [th EXCEPT ![t] = [r EXCEPT !.nv = w, !.pc = "i_du1"]] /\ UNCHANGED nodes
              ELSE \* leaf split: new leaf and an empty inode_4, both private
                   LET wl == WithLeaf(nodes, r)
                       ni == NewInode(wl[1], Inode(<<>>, <<>>, 1)) IN
                   /\ nodes' = ni[1]
                   /\ th' = [th EXCEPT ![t] = [r EXCEPT !.nv = w, !.cleaf = wl[2], !.newn = ni[2], !.pc = "i_sw1"]]
       ELSE th' = [th EXCEPT ![t] = [r EXCEPT !.nv = w, !.pc = "i_nf"]] /\ UNCHANGED nodes
  /\ UNCHANGED <<lk, root, next, abs, obs, waitfor>>
I_nl_s(t) == th[t].pc = "i_nl_s" /\ SpinStep(t, "i_nl")

\* key exists: try_read_unlock parent, node; a cached leaf is freed directly
I_du1(t) == th[t].pc = "i_du1" /\
  CheckStep(t, th[t].par, th[t].pv, LAMBDA r : [r EXCEPT !.pc = "i_du2"], LAMBDA r : Restart(r))
I_du2(t) == th[t].pc = "i_du2" /\
  LET r == th[t] IN
  /\ IF lk[r.node] = r.nv
       THEN /\ Finish(t, Return([r EXCEPT !.cleaf = 0], t, Exists), Exists)
            /\ nodes' = Discard(nodes, {r.cleaf})
       ELSE th' = [th EXCEPT ![t] = Restart(r)] /\ UNCHANGED <<bad, waitfor, nodes>>
  /\ UNCHANGED <<lk, root, next, abs, obs>>

\* leaf split: upgrade parent, upgrade leaf, initialise the new node and publish it
DiscardNew(r) == [r EXCEPT !.newn = 0]
I_sw1(t) == th[t].pc = "i_sw1" /\
  LET r == th[t] IN
  /\ IF lk[r.par] = r.pv
       THEN /\ lk' = [lk EXCEPT ![r.par] = r.pv + 2]
            /\ th' = [th EXCEPT ![t] = [r EXCEPT !.pc = "i_sw2", !.held = <<r.par>>]] /\ UNCHANGED nodes
       ELSE /\ th' = [th EXCEPT ![t] = Restart(r)] /\ nodes' = Discard(nodes, {r.newn}) /\ UNCHANGED lk
  /\ UNCHANGED <<root, next, abs, obs, waitfor, bad>>
I_sw2(t) == th[t].pc = "i_sw2" /\
  LET r == th[t] IN
  /\ IF lk[r.node] = r.nv
       THEN /\ lk' = [lk EXCEPT ![r.node] = r.nv + 2]
            /\ th' = [th EXCEPT ![t] = [r EXCEPT !.pc = "i_sf", !.held = <<r.node>> \o r.held]] /\ UNCHANGED nodes
       ELSE /\ th' = [th EXCEPT ![t] = Unwind(DiscardNew(r), ToRestart)]
            /\ nodes' = Discard(nodes, {r.newn}) /\ UNCHANGED lk
  /\ UNCHANGED <<root, next, abs, obs, waitfor, bad>>
I_sf(t) == th[t].pc = "i_sf" /\
  LET r == th[t]  old == nodes[r.node]
      ok == RemKey(r)  oldrem == Drop(old.key, r.depth)
      j == Lcp(ok, oldrem)
      nn == [Inode(Take(ok, j), (ok[j + 1] :> r.cleaf) @@ (oldrem[j + 1] :> r.node), 1) EXCEPT !.st = "live"]
      nd1 == [nodes EXCEPT ![r.newn] = nn, ![r.cleaf].st = "live"] IN
  /\ nodes' = SetSlot(nd1, r.slot, r.newn)
  /\ root' = IF r.slot[1] = 0 THEN r.newn ELSE root
  /\ abs' = (r.k :> r.v) @@ abs /\ obs' = ObsUpdate(r.k, r.v)
  /\ bad' = Flag(r.k \in DOMAIN abs, "Linearizable(insert published over an existing entry)")
  /\ th' = [th EXCEPT ![t] = Unwind([r EXCEPT !.cleaf = 0, !.newn = 0], Ok)]
  /\ UNCHANGED <<lk, next, waitfor>>

\* inner node: one field segment decides among prefix split / grow / add / descend
I_nf(t) == th[t].pc = "i_nf" /\
  LET r == th[t]  n == r.node  nd == nodes[n] IN
  /\ bad' = Flag(Touch(n), "NoUseAfterFree(node fields)")
  /\ IF ~PrefixMatches(n, r)
       THEN LET wl == WithLeaf(nodes, r)  ni == NewInode(wl[1], Inode(<<>>, <<>>, 1)) IN
            /\ nodes' = ni[1]
            /\ th' = [th EXCEPT ![t] = [r EXCEPT !.cleaf = wl[2], !.newn = ni[2], !.pc = "i_pw1"]]
     ELSE IF ~HasChild(n, r)
       THEN LET wl == WithLeaf(nodes, r) IN
            IF Cardinality(DOMAIN nd.ch) = Caps[nd.cls]
              THEN LET ni == NewInode(wl[1], Inode(<<>>, <<>>, nd.cls + 1)) IN
                   /\ nodes' = ni[1]
                   /\ th' = [th EXCEPT ![t] = [r EXCEPT !.cleaf = wl[2], !.newn = ni[2], !.cb = Byte(n, r), !.pc = "i_gw1"]]
              ELSE /\ nodes' = wl[1]
                   /\ th' = [th EXCEPT ![t] = [r EXCEPT !.cleaf = wl[2], !.cb = Byte(n, r), !.pc = "i_aw"]]
       ELSE /\ th' = [th EXCEPT ![t] = [r EXCEPT !.cb = Byte(n, r), !.pc = "i_cu"]] /\ UNCHANGED nodes
  /\ UNCHANGED <<lk, root, next, abs, obs, waitfor>>

\* prefix split
I_pw1(t) == th[t].pc = "i_pw1" /\
  LET r == th[t] IN
  /\ IF lk[r.par] = r.pv
       THEN /\ lk' = [lk EXCEPT ![r.par] = r.pv + 2]
            /\ th' = [th EXCEPT ![t] = [r EXCEPT !.pc = "i_pw2", !.held = <<r.par>>]] /\ UNCHANGED nodes
       ELSE /\ th' = [th EXCEPT ![t] = Restart(r)] /\ nodes' = Discard(nodes, {r.newn}) /\ UNCHANGED lk
  /\ UNCHANGED <<root, next, abs, obs, waitfor, bad>>
I_pw2(t) == th[t].pc = "i_pw2" /\
  LET r == th[t] IN
  /\ IF lk[r.node] = r.nv
       THEN /\ lk' = [lk EXCEPT ![r.node] = r.nv + 2]
            /\ th' = [th EXCEPT ![t] = [r EXCEPT !.pc = "i_pf", !.held = <<r.node>> \o r.held]] /\ UNCHANGED nodes
       ELSE /\ th' = [th EXCEPT ![t] = Unwind(DiscardNew(r), ToRestart)]
            /\ nodes' = Discard(nodes, {r.newn}) /\ UNCHANGED lk
  /\ UNCHANGED <<root, next, abs, obs, waitfor, bad>>
\* the new inode_4 gets the shared part of the prefix, the old node's prefix is cut in place
I_pf(t) == th[t].pc = "i_pf" /\
  LET r == th[t]  old == nodes[r.node]  rk == RemKey(r)
      j == Lcp(old.prefix, rk)
      nn == [Inode(Take(old.prefix, j), (rk[j + 1] :> r.cleaf) @@ (old.prefix[j + 1] :> r.node), 1) EXCEPT !.st = "live"]
      nd1 == [nodes EXCEPT ![r.newn] = nn, ![r.cleaf].st = "live", ![r.node].prefix = Drop(old.prefix, j + 1)] IN
  /\ nodes' = SetSlot(nd1, r.slot, r.newn)
  /\ root' = IF r.slot[1] = 0 THEN r.newn ELSE root
  /\ abs' = (r.k :> r.v) @@ abs /\ obs' = ObsUpdate(r.k, r.v)
  /\ bad' = Flag(r.k \in DOMAIN abs, "Linearizable(insert published over an existing entry)")
  /\ th' = [th EXCEPT ![t] = Unwind([r EXCEPT !.cleaf = 0, !.newn = 0], Ok)]
  /\ UNCHANGED <<lk, next, waitfor>>

\* growth: upgrade parent, upgrade node, obsolete the node, fill the larger node and publish it
I_gw1(t) == th[t].pc = "i_gw1" /\
  LET r == th[t] IN
  /\ IF lk[r.par] = r.pv
       THEN /\ lk' = [lk EXCEPT ![r.par] = r.pv + 2]
            /\ th' = [th EXCEPT ![t] = [r EXCEPT !.pc = "i_gw2", !.held = <<r.par>>]] /\ UNCHANGED nodes
       ELSE /\ th' = [th EXCEPT ![t] = Restart(r)] /\ nodes' = Discard(nodes, {r.newn}) /\ UNCHANGED lk
  /\ UNCHANGED <<root, next, abs, obs, waitfor, bad>>
I_gw2(t) == th[t].pc = "i_gw2" /\
  LET r == th[t] IN
  /\ IF lk[r.node] = r.nv
       THEN /\ lk' = [lk EXCEPT ![r.node] = r.nv + 2]
            /\ th' = [th EXCEPT ![t] = [r EXCEPT !.pc = IF ObsoleteReplacedNode THEN "i_go" ELSE "i_gf",
                                                   !.held = <<r.node>> \o r.held]] /\ UNCHANGED nodes
       ELSE /\ th' = [th EXCEPT ![t] = Unwind(DiscardNew(r), ToRestart)]
            /\ nodes' = Discard(nodes, {r.newn}) /\ UNCHANGED lk
  /\ UNCHANGED <<root, next, abs, obs, waitfor, bad>>
I_go(t) == th[t].pc = "i_go" /\ ObsoleteStep(t, th[t].node, "i_gf")
I_gf(t) == th[t].pc = "i_gf" /\
  LET r == th[t]  old == nodes[r.node]
      nn == [Inode(old.prefix, (r.cb :> r.cleaf) @@ old.ch, old.cls + 1) EXCEPT !.st = "live"]
      nd1 == [nodes EXCEPT ![r.newn] = nn, ![r.cleaf].st = "live", ![r.node].st = "retired"] IN
  /\ nodes' = SetSlot(nd1, r.slot, r.newn)
  /\ root' = IF r.slot[1] = 0 THEN r.newn ELSE root
  /\ waitfor' = Retire(waitfor, r.node, t)
  /\ abs' = (r.k :> r.v) @@ abs /\ obs' = ObsUpdate(r.k, r.v)
  /\ bad' = Flag(r.k \in DOMAIN abs, "Linearizable(insert published over an existing entry)")
  /\ th' = [th EXCEPT ![t] = Unwind([r EXCEPT !.cleaf = 0, !.newn = 0], Ok)]
  /\ UNCHANGED <<lk, next>>

\* add to a node with room: upgrade the node, re-validate the parent, add
I_aw(t) == th[t].pc = "i_aw" /\
  UpgradeStep(t, th[t].node, th[t].nv, IF RecheckParentAfterAdd THEN "i_ac" ELSE "i_af", LAMBDA r : Restart(r))
I_ac(t) == th[t].pc = "i_ac" /\
  CheckStep(t, th[t].par, th[t].pv, LAMBDA r : [r EXCEPT !.pc = "i_af"], LAMBDA r : Unwind(r, ToRestart))
I_af(t) == th[t].pc = "i_af" /\
  LET r == th[t] IN
  /\ nodes' = [nodes EXCEPT ![r.node].ch = (r.cb :> r.cleaf) @@ @, ![r.cleaf].st = "live"]
  /\ abs' = (r.k :> r.v) @@ abs /\ obs' = ObsUpdate(r.k, r.v)
  /\ bad' = Flag(r.k \in DOMAIN abs, "Linearizable(insert published over an existing entry)")
  /\ th' = [th EXCEPT ![t] = Unwind([r EXCEPT !.cleaf = 0], Ok)]
  /\ UNCHANGED <<lk, root, next, waitfor>>

\* descend: try_read_unlock parent, load the child pointer, check the node
I_cu(t) == th[t].pc = "i_cu" /\
  CheckStep(t, th[t].par, th[t].pv, LAMBDA r : [r EXCEPT !.pc = "i_cl"], LAMBDA r : Restart(r))
I_cl(t) == th[t].pc = "i_cl" /\
  LET r == th[t]  n == r.node
      c == IF r.cb \in DOMAIN nodes[n].ch THEN nodes[n].ch[r.cb] ELSE 0 IN
  FieldRead(t, n, [r EXCEPT !.pc = "i_cc", !.par = n, !.pv = r.nv, !.node = c, !.slot = <<n, r.cb>>,
                            !.depth = r.depth + Len(nodes[n].prefix) + 1])
I_cc(t) == th[t].pc = "i_cc" /\
  CheckStep(t, th[t].par, th[t].pv, LAMBDA r : [r EXCEPT !.pc = "i_nl"], LAMBDA r : Restart(r))

InsStep(t) == I_rl(t) \/ I_rl_s(t) \/ I_rf(t) \/ I_ew(t) \/ I_es(t) \/ I_rc(t) \/ I_sp(t) \/ I_nl(t) \/ I_nl_s(t)
              \/ I_du1(t) \/ I_du2(t) \/ I_sw1(t) \/ I_sw2(t) \/ I_sf(t) \/ I_nf(t)
              \/ I_pw1(t) \/ I_pw2(t) \/ I_pf(t) \/ I_gw1(t) \/ I_gw2(t) \/ I_go(t) \/ I_gf(t)
              \/ I_aw(t) \/ I_ac(t) \/ I_af(t) \/ I_cu(t) \/ I_cl(t) \/ I_cc(t)

-----------------------------------------------------------------------------
(* try_remove *)

R_rl(t) == th[t].pc = "r_rl" /\
  ReadLockStep(t, 0, "r_rl_s", LAMBDA r, w : [r EXCEPT !.pc = "r_rf", !.par = 0, !.pv = w, !.depth = 0, !.slot = <<0, 0>>],
               LAMBDA r : Restart(r))
R_rl_s(t) == th[t].pc = "r_rl_s" /\ SpinStep(t, "r_rl")
R_rf(t) == th[t].pc = "r_rf" /\
  /\ th' = [th EXCEPT ![t] = [@ EXCEPT !.node = root, !.pc = "r_rc"]]
  /\ UNCHANGED <<nodes, lk, root, next, abs, obs, waitfor, bad>>
\* check of the root lock; an empty tree returns Absent here
R_rc(t) == th[t].pc = "r_rc" /\
  LET r == th[t] IN
  /\ IF lk[0] # r.pv THEN th' = [th EXCEPT ![t] = [r EXCEPT !.pc = "r_sp"]] /\ UNCHANGED <<bad, waitfor>>
     ELSE IF r.node = 0 THEN Finish(t, Return(r, t, Absent), Absent)
     ELSE th' = [th EXCEPT ![t] = [r EXCEPT !.pc = "r_nl"]] /\ UNCHANGED <<bad, waitfor>>
  /\ UNCHANGED <<nodes, lk, root, next, abs, obs>>
R_sp(t) == th[t].pc = "r_sp" /\ SpinStep(t, "restart")
\* read lock of the root node (restart through a spin when obsolete)
R_nl(t) == th[t].pc = "r_nl" /\
  ReadLockStep(t, th[t].node, "r_nl_s",
               LAMBDA r, w : [r EXCEPT !.nv = w,
                                       !.pc = IF nodes[r.node].kind = "leaf"
                                                THEN (IF nodes[r.node].key = r.k THEN "r_lw1" ELSE "r_lu")
                                                ELSE "r_nf"],
               LAMBDA r : [r EXCEPT !.pc = "r_sp"])
R_nl_s(t) == th[t].pc = "r_nl_s" /\ SpinStep(t, "r_nl")
\* root leaf, other key
R_lu(t) == th[t].pc = "r_lu" /\ CheckRet(t, th[t].node, th[t].nv, Absent)
\* root leaf, our key: upgrade root lock, upgrade leaf, obsolete leaf, clear the root pointer
R_lw1(t) == th[t].pc = "r_lw1" /\ UpgradeStep(t, 0, th[t].pv, "r_lw2", LAMBDA r : Restart(r))
R_lw2(t) == th[t].pc = "r_lw2" /\ UpgradeStep(t, th[t].node, th[t].nv, "r_lo", LAMBDA r : Unwind(r, ToRestart))
R_lo(t) == th[t].pc = "r_lo" /\ ObsoleteStep(t, th[t].node, "r_ls")
R_ls(t) == th[t].pc = "r_ls" /\
  LET r == th[t] IN
  /\ root' = 0
  /\ nodes' = [nodes EXCEPT ![r.node].st = "retired"]
  /\ waitfor' = Retire(waitfor, r.node, t)
  /\ abs' = [x \in DOMAIN abs \ {r.k} |-> abs[x]] /\ obs' = ObsUpdate(r.k, Absent)
  /\ bad' = Flag(r.k \notin DOMAIN abs, "Linearizable(remove unlinked an absent entry)")
  /\ th' = [th EXCEPT ![t] = Unwind(r, Ok)]
  /\ UNCHANGED <<lk, next>>

\* inner node: prefix, child lookup and load of the child pointer (one field segment)
R_nf(t) == th[t].pc = "r_nf" /\
  LET r == th[t]  n == r.node IN
  FieldRead(t, n,
    IF ~PrefixMatches(n, r) \/ ~HasChild(n, r) THEN [r EXCEPT !.pc = "r_m1"]
    ELSE [r EXCEPT !.cb = Byte(n, r), !.child = nodes[n].ch[Byte(n, r)],
                   !.depth = r.depth + Len(nodes[n].prefix),
                   !.pc = IF RemoveChecksNodeBeforeChildLock THEN "r_nc" ELSE "r_cl"])
R_m1(t) == th[t].pc = "r_m1" /\
  CheckStep(t, th[t].par, th[t].pv, LAMBDA r : [r EXCEPT !.pc = "r_m2"], LAMBDA r : Restart(r))
R_m2(t) == th[t].pc = "r_m2" /\ CheckRet(t, th[t].node, th[t].nv, Absent)
R_nc(t) == th[t].pc = "r_nc" /\
  CheckStep(t, th[t].node, th[t].nv, LAMBDA r : [r EXCEPT !.pc = "r_cl"], LAMBDA r : Restart(r))
\* read lock of the child
R_cl(t) == th[t].pc = "r_cl" /\
  ReadLockStep(t, th[t].child, "r_cl_s",
               LAMBDA r, w : [r EXCEPT !.cv = w,
                                       !.pc = IF nodes[r.child].kind # "leaf" THEN "r_pu"
                                              ELSE IF nodes[r.child].key = r.k THEN "r_ms" ELSE "r_x1"],
               LAMBDA r : Restart(r))
R_cl_s(t) == th[t].pc = "r_cl_s" /\ SpinStep(t, "r_cl")
\* child is an inner node: unlock the parent and descend
R_pu(t) == th[t].pc = "r_pu" /\
  CheckStep(t, th[t].par, th[t].pv,
            LAMBDA r : [r EXCEPT !.pc = "r_nf", !.par = r.node, !.pv = r.nv, !.node = r.child, !.nv = r.cv,
                                 !.slot = <<r.node, r.cb>>, !.depth = r.depth + 1],
            LAMBDA r : Restart(r))
\* child is a leaf with another key
R_x1(t) == th[t].pc = "r_x1" /\
  CheckStep(t, th[t].par, th[t].pv, LAMBDA r : [r EXCEPT !.pc = "r_x2"], LAMBDA r : Restart(r))
R_x2(t) == th[t].pc = "r_x2" /\
  CheckStep(t, th[t].node, th[t].nv, LAMBDA r : [r EXCEPT !.pc = "r_x3"], LAMBDA r : Restart(r))
R_x3(t) == th[t].pc = "r_x3" /\ CheckRet(t, th[t].child, th[t].cv, Absent)

\* child is our leaf: a field segment reads the node's size (and, for a two-child
\* inode_4, the remaining child); smaller nodes are allocated thread-locally
R_ms(t) == th[t].pc = "r_ms" /\
  LET r == th[t]  n == r.node  nd == nodes[n]  cnt == Cardinality(DOMAIN nd.ch) IN
  /\ bad' = Flag(Touch(n), "NoUseAfterFree(node fields)")
  /\ IF cnt > MinSize(nd.cls)
       THEN th' = [th EXCEPT ![t] = [r EXCEPT !.pc = "r_d1"]] /\ UNCHANGED nodes
     ELSE IF nd.cls = 1
       THEN LET others == DOMAIN nd.ch \ {r.cb}
                rm == IF others = {} THEN 0 ELSE nd.ch[CHOOSE b \in others : TRUE] IN
            th' = [th EXCEPT ![t] = [r EXCEPT !.rem = rm, !.pc = "r_k1"]] /\ UNCHANGED nodes
       ELSE LET ni == NewInode(nodes, Inode(<<>>, <<>>, nd.cls - 1)) IN
            /\ nodes' = ni[1]
            /\ th' = [th EXCEPT ![t] = [r EXCEPT !.newn = ni[2], !.pc = "r_s1"]]
  /\ UNCHANGED <<lk, root, next, abs, obs, waitfor>>

\* plain removal from a node above its minimum size
R_d1(t) == th[t].pc = "r_d1" /\
  CheckStep(t, th[t].par, th[t].pv, LAMBDA r : [r EXCEPT !.pc = "r_d2"], LAMBDA r : Restart(r))
R_d2(t) == th[t].pc = "r_d2" /\ UpgradeStep(t, th[t].node, th[t].nv, "r_d3", LAMBDA r : Restart(r))
R_d3(t) == th[t].pc = "r_d3" /\ UpgradeStep(t, th[t].child, th[t].cv, "r_d4", LAMBDA r : Unwind(r, ToRestart))
R_d4(t) == th[t].pc = "r_d4" /\ ObsoleteStep(t, th[t].child, "r_d5")
R_d5(t) == th[t].pc = "r_d5" /\
  LET r == th[t] IN
  /\ nodes' = [nodes EXCEPT ![r.node].ch = [b \in DOMAIN @ \ {r.cb} |-> @[b]], ![r.child].st = "retired"]
  /\ waitfor' = Retire(waitfor, r.child, t)
  /\ abs' = [x \in DOMAIN abs \ {r.k} |-> abs[x]] /\ obs' = ObsUpdate(r.k, Absent)
  /\ bad' = Flag(r.k \notin DOMAIN abs, "Linearizable(remove unlinked an absent entry)")
  /\ th' = [th EXCEPT ![t] = Unwind(r, Ok)]
  /\ UNCHANGED <<lk, root, next>>

\* collapse of a two-child inode_4 into its remaining child
RemIsInode(r) == r.rem # 0 /\ nodes[r.rem].kind = "inode"
R_k1(t) == th[t].pc = "r_k1" /\
  CheckStep(t, th[t].node, th[t].nv,
            LAMBDA r : [r EXCEPT !.pc = IF LockRemainingChildOnCollapse /\ RemIsInode(r) THEN "r_k2" ELSE "r_k3"],
            LAMBDA r : Restart(r))
R_k2(t) == th[t].pc = "r_k2" /\
  ReadLockStep(t, th[t].rem, "r_k2_s", LAMBDA r, w : [r EXCEPT !.rv = w, !.pc = "r_k3"], LAMBDA r : Restart(r))
R_k2_s(t) == th[t].pc = "r_k2_s" /\ SpinStep(t, "r_k2")
R_k3(t) == th[t].pc = "r_k3" /\ UpgradeStep(t, th[t].par, th[t].pv, "r_k4", LAMBDA r : Restart(r))
R_k4(t) == th[t].pc = "r_k4" /\ UpgradeStep(t, th[t].node, th[t].nv, "r_k5", LAMBDA r : Unwind(r, ToRestart))
R_k5(t) == th[t].pc = "r_k5" /\
  UpgradeStep(t, th[t].child, th[t].cv,
              IF LockRemainingChildOnCollapse /\ RemIsInode(th[t]) THEN "r_k6" ELSE "r_k7",
              LAMBDA r : Unwind(r, ToRestart))
R_k6(t) == th[t].pc = "r_k6" /\ UpgradeStep(t, th[t].rem, th[t].rv, "r_k7", LAMBDA r : Unwind(r, ToRestart))
R_k7(t) == th[t].pc = "r_k7" /\ ObsoleteStep(t, th[t].node, "r_k8")
R_k8(t) == th[t].pc = "r_k8" /\ ObsoleteStep(t, th[t].child, "r_k9")
\* leave_last_child: the remaining inner child's prefix is extended in place
R_k9(t) == th[t].pc = "r_k9" /\
  LET r == th[t]  nd == nodes[r.node]
      rb == CHOOSE b \in DOMAIN nd.ch : nd.ch[b] = r.rem
      nd1 == [nodes EXCEPT ![r.node].st = "retired", ![r.child].st = "retired"]
      nd2 == IF nodes[r.rem].kind = "inode"
               THEN [nd1 EXCEPT ![r.rem].prefix = nd.prefix \o <<rb>> \o @] ELSE nd1 IN
  /\ nodes' = SetSlot(nd2, r.slot, r.rem)
  /\ root' = IF r.slot[1] = 0 THEN r.rem ELSE root
  /\ waitfor' = [Retire(waitfor, r.node, t) EXCEPT ![r.child] = {u \in Threads : InOp(u)}]
  /\ abs' = [x \in DOMAIN abs \ {r.k} |-> abs[x]] /\ obs' = ObsUpdate(r.k, Absent)
  /\ bad' = Flag(r.k \notin DOMAIN abs, "Linearizable(remove unlinked an absent entry)")
  /\ th' = [th EXCEPT ![t] = Unwind(r, Ok)]
  /\ UNCHANGED <<lk, next>>

\* shrink to the next smaller class
R_s1(t) == th[t].pc = "r_s1" /\
  LET r == th[t] IN
  /\ IF lk[r.par] = r.pv
       THEN /\ lk' = [lk EXCEPT ![r.par] = r.pv + 2]
            /\ th' = [th EXCEPT ![t] = [r EXCEPT !.pc = "r_s2", !.held = <<r.par>>]] /\ UNCHANGED nodes
       ELSE /\ th' = [th EXCEPT ![t] = Restart(r)] /\ nodes' = Discard(nodes, {r.newn}) /\ UNCHANGED lk
  /\ UNCHANGED <<root, next, abs, obs, waitfor, bad>>
ShrinkFail(t, L, ver, okPc) ==
  LET r == th[t] IN
  /\ IF lk[L] = ver
       THEN /\ lk' = [lk EXCEPT ![L] = ver + 2]
            /\ th' = [th EXCEPT ![t] = [r EXCEPT !.pc = okPc, !.held = <<L>> \o r.held]] /\ UNCHANGED nodes
       ELSE /\ th' = [th EXCEPT ![t] = Unwind(DiscardNew(r), ToRestart)]
            /\ nodes' = Discard(nodes, {r.newn}) /\ UNCHANGED lk
  /\ UNCHANGED <<root, next, abs, obs, waitfor, bad>>
R_s2(t) == th[t].pc = "r_s2" /\ ShrinkFail(t, th[t].node, th[t].nv, "r_s3")
R_s3(t) == th[t].pc = "r_s3" /\ ShrinkFail(t, th[t].child, th[t].cv, "r_s4")
R_s4(t) == th[t].pc = "r_s4" /\ ObsoleteStep(t, th[t].child, "r_s5")
R_s5(t) == th[t].pc = "r_s5" /\ ObsoleteStep(t, th[t].node, "r_s6")
R_s6(t) == th[t].pc = "r_s6" /\
  LET r == th[t]  old == nodes[r.node]
      nn == [Inode(old.prefix, [b \in DOMAIN old.ch \ {r.cb} |-> old.ch[b]], old.cls - 1) EXCEPT !.st = "live"]
      nd1 == [nodes EXCEPT ![r.newn] = nn, ![r.node].st = "retired", ![r.child].st = "retired"] IN
  /\ nodes' = SetSlot(nd1, r.slot, r.newn)
  /\ root' = IF r.slot[1] = 0 THEN r.newn ELSE root
  /\ waitfor' = [Retire(waitfor, r.node, t) EXCEPT ![r.child] = {u \in Threads : InOp(u)}]
  /\ abs' = [x \in DOMAIN abs \ {r.k} |-> abs[x]] /\ obs' = ObsUpdate(r.k, Absent)
  /\ bad' = Flag(r.k \notin DOMAIN abs, "Linearizable(remove unlinked an absent entry)")
  /\ th' = [th EXCEPT ![t] = Unwind([r EXCEPT !.newn = 0], Ok)]
  /\ UNCHANGED <<lk, next>>

RemStep(t) == R_rl(t) \/ R_rl_s(t) \/ R_rf(t) \/ R_rc(t) \/ R_sp(t) \/ R_nl(t) \/ R_nl_s(t) \/ R_lu(t)
              \/ R_lw1(t) \/ R_lw2(t) \/ R_lo(t) \/ R_ls(t) \/ R_nf(t) \/ R_m1(t) \/ R_m2(t) \/ R_nc(t)
              \/ R_cl(t) \/ R_cl_s(t) \/ R_pu(t) \/ R_x1(t) \/ R_x2(t) \/ R_x3(t) \/ R_ms(t)
              \/ R_d1(t) \/ R_d2(t) \/ R_d3(t) \/ R_d4(t) \/ R_d5(t)
              \/ R_k1(t) \/ R_k2(t) \/ R_k2_s(t) \/ R_k3(t) \/ R_k4(t) \/ R_k5(t) \/ R_k6(t) \/ R_k7(t) \/ R_k8(t) \/ R_k9(t)
              \/ R_s1(t) \/ R_s2(t) \/ R_s3(t) \/ R_s4(t) \/ R_s5(t) \/ R_s6(t)

-----------------------------------------------------------------------------
Step(t) == Call(t) \/ GetStep(t) \/ InsStep(t) \/ RemStep(t) \/ UnwindStep(t)
AllDone == \A t \in Threads : th[t].pc = "done"
Next == (\E t \in Threads : Step(t)) \/ (\E n \in 1..MaxNodes : Free(n))
        \/ (AllDone /\ UNCHANGED vars)
Spec == Init /\ [][Next]_vars

-----------------------------------------------------------------------------
(* properties *)

\* C03 / C04 clauses evaluated where they arise
NoBadOutcome == bad = ""

\* C07 as relied upon by the tree: a lock word is write-locked iff exactly one thread holds it
Holders(L) == {t \in Threads : \E i \in 1..Len(th[t].held) : th[t].held[i] = L}
OneWriterPerNode == \A L \in 0..MaxNodes : IF IsLocked(lk[L]) THEN Cardinality(Holders(L)) = 1 ELSE Holders(L) = {}

\* C14: a thread at a call boundary holds nothing (deadlock freedom is TLC's deadlock check:
\* spinning threads are enabled only through SPIN/L_LOAD cycles, see StuckSpinner)
NoLockHeldAtReturn == \A t \in Threads : th[t].pc \in {"idle", "done"} => th[t].held = <<>>
\* a write-locked word always has an owner that can still move
NoOrphanLock == \A L \in 0..MaxNodes : IsLocked(lk[L]) => \E t \in Holders(L) : InOp(t)

\* C14: a thread that waits for a lock holds no write lock itself, hence lock holders
\* never wait and no wait cycle (deadlock) can form
SpinPcs == {"g_rl_s", "g_nl_s", "i_rl_s", "i_nl_s", "r_rl_s", "r_nl_s", "r_cl_s", "r_k2_s"}
SpinnersHoldNothing == \A t \in Threads : th[t].pc \in SpinPcs => th[t].held = <<>>

\* Mutual aborts of optimistic operations can repeat for ever under an adversarial schedule
\* (each round bumps lock versions), so the reachable state space is infinite; exploration is
\* cut where a lock version exceeds MaxVersion (state constraint: safety within the bound).
VersionBound == \A L \in 0..MaxNodes : lk[L] <= MaxVersion

\* the tree as a sequential reader sees it
RECURSIVE Lookup(_, _, _)
Lookup(n, k, d) ==
  IF n = 0 THEN Absent
  ELSE IF nodes[n].kind = "leaf" THEN (IF nodes[n].key = k THEN nodes[n].val ELSE Absent)
  ELSE LET p == nodes[n].prefix  rk == Drop(k, d) IN
       IF Lcp(p, rk) < Len(p) \/ Len(rk) <= Len(p) THEN Absent
       ELSE IF rk[Len(p) + 1] \notin DOMAIN nodes[n].ch THEN Absent
       ELSE Lookup(nodes[n].ch[rk[Len(p) + 1]], k, d + Len(p) + 1)
Quiet == \A t \in Threads : th[t].pc \in {"idle", "done"}
KeysUsed == DOMAIN InitAbs \cup UNION {{Programs[t][i].k : i \in 1..Len(Programs[t])} : t \in Threads}
\* C03: whenever no operation is in flight the tree holds exactly the abstract map
FinalTreeIsMap == Quiet => \A k \in KeysUsed : Lookup(root, k, 0) = Status(k)

\* C04: nothing reachable from the root is retired or freed
RECURSIVE Reach(_, _)
Reach(S, fuel) == IF fuel = 0 THEN S
                  ELSE LET S2 == S \cup UNION {{nodes[n].ch[b] : b \in DOMAIN nodes[n].ch} : n \in {x \in S : nodes[x].kind = "inode"}}
                       IN IF S2 = S THEN S ELSE Reach(S2, fuel - 1)
Reachable == IF root = 0 THEN {} ELSE Reach({root}, KeyLen + 1)
NoReachableRetired == \A n \in Reachable : nodes[n].st = "live"
\* C04: at the end everything unlinked has been retired exactly once and can be freed; nothing private is left
NothingLeaked == AllDone => \A n \in 1..MaxNodes : nodes[n].kind # "none" =>
                                (n \in Reachable \/ nodes[n].st \in {"retired", "freed"})
\* structural sanity: size classes respected
ShapeOK == \A n \in Reachable : nodes[n].kind = "inode" =>
             /\ Cardinality(DOMAIN nodes[n].ch) <= Caps[nodes[n].cls]
             /\ (Quiet => Cardinality(DOMAIN nodes[n].ch) >= MinSize(nodes[n].cls))
=============================================================================
