----------------------------- MODULE OlcArtIter -----------------------------
(***************************************************************************)
(* The iterator / scan protocol of olc_art.hpp on top of OlcArt: try_first,*)
(* try_last, try_left/right_most_traversal, try_next, try_prior, try_seek, *)
(* the re-seek loops of next()/prior() and the scan loops, one action per  *)
(* scheduling point (hook), transcribed against the recorded signatures of *)
(* the real code (tools/olcart.py).  All four node classes: in the sorted   *)
(* ones (inode_4, inode_16) a child index is the rank of its key byte, so  *)
(* in-place insertions/removals shift what an index on the stack means; in *)
(* inode_48 / inode_256 it is the key byte itself.                         *)
(*                                                                         *)
(* Property C09: ScanBounded, ScanOrdered, ScanValueWasHeld (no phantoms), *)
(* ScanComplete for keys present during the whole scan.                    *)
(***************************************************************************)
EXTENDS OlcArt

CONSTANT IterChecksAfterNextRead,  \* protection: "no further child" is acted upon only after re-validating the node
         KeepSeen                  \* observation only: a finished scan keeps its visitor sequence (behaviour replay
                                   \* compares it with the real visitor calls); FALSE in the exhaustive runs

VARIABLE it     \* per thread: iterator state and scan ghosts

ivars == <<vars, it>>

NoIt == [on |-> FALSE]

LexLess(a, b) == LET j == Lcp(a, b) IN
                 IF j = Len(a) THEN j < Len(b) ELSE IF j = Len(b) THEN FALSE ELSE a[j + 1] < b[j + 1]

\* scan parameters come from the program entry
ScanOp(t) == Programs[t][th[t].i]
Up(o) == IF o.kind = "range" THEN LexLess(o.from, o.to) ELSE o.fwd
InInterval(k, o) ==
  CASE o.kind = "all" -> TRUE
    [] o.kind = "from" -> IF o.fwd THEN ~LexLess(k, o.from) ELSE ~LexLess(o.from, k)
    [] o.kind = "range" -> IF LexLess(o.from, o.to) THEN ~LexLess(k, o.from) /\ LexLess(k, o.to)
                           ELSE IF LexLess(o.to, o.from) THEN LexLess(o.to, k) /\ ~LexLess(o.from, k) ELSE FALSE
Before(a, b, o) == IF Up(o) THEN LexLess(a, b) ELSE LexLess(b, a)

NewIt == [on |-> TRUE, seen |-> <<>>, always |-> DOMAIN abs, ever |-> {<<k, abs[k]>> : k \in DOMAIN abs},
          stk |-> <<>>, rs |-> <<>>, sk |-> <<>>, sfwd |-> TRUE, match |-> FALSE,
          par |-> 0, pv |-> 0, node |-> 0, nv |-> 0, ent |-> 0, cur |-> <<>>, child |-> 0]

\* A child index on the iterator stack.  inode_4 / inode_16 keep their key bytes sorted and the index is the
\* RANK of the key byte (1-based here, 0 = none), so in-place insertions and removals shift what an index means.
\* inode_48 / inode_256 are indexed by the key byte itself (child_indexes[256] / children[256]): the index is the
\* key byte + 1 (0 = none) and stays meaningful whatever is added or removed around it.
Cnt(n) == Cardinality(DOMAIN nodes[n].ch)
Sorted(n) == nodes[n].cls <= 2
MinB(S) == CHOOSE b \in S : \A x \in S : b <= x
MaxB(S) == CHOOSE b \in S : \A x \in S : b >= x
NthByte(n, i) == CHOOSE b \in DOMAIN nodes[n].ch : Cardinality({x \in DOMAIN nodes[n].ch : x < b}) = i - 1
ChildAt(n, i) == IF Sorted(n) THEN (IF i >= 1 /\ i <= Cnt(n) THEN nodes[n].ch[NthByte(n, i)] ELSE 0)
                 ELSE (IF i >= 1 /\ (i - 1) \in DOMAIN nodes[n].ch THEN nodes[n].ch[i - 1] ELSE 0)
RankOf(n, b) == IF Sorted(n) THEN Cardinality({x \in DOMAIN nodes[n].ch : x < b}) + 1 ELSE b + 1
FirstIdx(n) == IF Sorted(n) THEN 1 ELSE MinB(DOMAIN nodes[n].ch) + 1
LastIdx(n) == IF Sorted(n) THEN Cnt(n) ELSE MaxB(DOMAIN nodes[n].ch) + 1
NextIdx(n, ci) == IF Sorted(n) THEN (IF ci + 1 <= Cnt(n) THEN ci + 1 ELSE 0)
                  ELSE LET S == {b \in DOMAIN nodes[n].ch : b + 1 > ci} IN IF S = {} THEN 0 ELSE MinB(S) + 1
PriorIdx(n, ci) == IF Sorted(n) THEN (IF ci - 1 >= 1 /\ ci - 1 <= Cnt(n) THEN ci - 1 ELSE 0)
                   ELSE LET S == {b \in DOMAIN nodes[n].ch : b + 1 < ci} IN IF S = {} THEN 0 ELSE MaxB(S) + 1

Push(I, e) == [I EXCEPT !.stk = <<e>> \o @]
Pop(I) == [I EXCEPT !.stk = Tail(@)]
Top(I) == Head(I.stk)
Entry(n, ci, ver, leaf) == [n |-> n, ci |-> ci, ver |-> ver, leaf |-> leaf]

-----------------------------------------------------------------------------
(* local control: what happens between two hooks.  Cont resolves "return b to the caller" *)
(* down to the next pc that performs a shared access, or "END" (the scan returns).        *)

\* the visitor is called for the leaf on top of the stack (or the scan ends)
Deliver(I, t) ==
  LET o == ScanOp(t) IN
  IF I.stk = <<>> THEN <<I, "END">>
  ELSE LET k == nodes[Top(I).n].key  v == nodes[Top(I).n].val IN
       IF o.kind = "range" /\ ~Before(k, o.to, o) THEN <<I, "END">>
       ELSE LET I1 == [I EXCEPT !.seen = Append(@, <<k, v>>), !.cur = k] IN
            IF o.halt > 0 /\ Len(I1.seen) = o.halt THEN <<I1, "END">>
            \* it.next() / it.prior(): try_next / try_prior first
            ELSE <<[I1 EXCEPT !.rs = <<"c_next1">> \o @], "n_top">>

RECURSIVE Cont(_, _, _)
Cont(I, b, t) ==
  LET c == Head(I.rs)  I0 == [I EXCEPT !.rs = Tail(@)] IN
  CASE c = "c_first" -> IF b THEN Deliver(I0, t) ELSE <<[I0 EXCEPT !.rs = <<"c_first">> \o @], "f_sp">>
    [] c = "c_seek" -> IF b THEN Deliver(I0, t) ELSE <<[I0 EXCEPT !.rs = <<"c_seek">> \o @], "k_sp">>
    [] c = "c_next1" -> IF b THEN Deliver(I0, t)
                        ELSE <<[I0 EXCEPT !.sk = I0.cur, !.sfwd = Up(ScanOp(t)), !.rs = <<"c_next2">> \o @], "k0">>
    [] c = "c_next2" -> IF ~b THEN <<[I0 EXCEPT !.rs = <<"c_next2">> \o @], "k0">>
                        ELSE IF ~I0.match THEN Deliver(I0, t)
                        ELSE <<[I0 EXCEPT !.rs = <<"c_next3">> \o @], "n_top">>
    [] c = "c_next3" -> IF ~b THEN <<[I0 EXCEPT !.rs = <<"c_next2">> \o @], "k0">> ELSE Deliver(I0, t)
    \* try_seek: traversal finished, unlock_and_return(node_critical_section, result)
    [] c = "c_pm_done" -> IF b THEN <<[I0 EXCEPT !.ent = 0], "k_pmu">> ELSE <<[I0 EXCEPT !.ent = 2], "k_pmu">>
    [] c = "c_pm_step" -> IF b THEN <<[I0 EXCEPT !.ent = 1], "k_pmu">> ELSE <<[I0 EXCEPT !.ent = 2], "k_pmu">>
    [] OTHER -> <<I0, "BUG">>

\* apply <<iterator record, pc>>; END = the scan returns: completeness is judged (C09)
Apply(t, res, extraBad) ==
  LET I == res[1]  p == res[2]  o == ScanOp(t) IN
  IF p # "END"
    THEN /\ it' = [it EXCEPT ![t] = I]
         /\ th' = [th EXCEPT ![t].pc = p]
         /\ bad' = IF extraBad # "" /\ bad = "" THEN extraBad ELSE bad
         /\ UNCHANGED waitfor
    ELSE LET seenK == {I.seen[i][1] : i \in 1..Len(I.seen)}
             halted == o.halt > 0 /\ Len(I.seen) = o.halt
             lastK == IF I.seen = <<>> THEN <<>> ELSE I.seen[Len(I.seen)][1]
             due == {k \in I.always : InInterval(k, o) /\ (~halted \/ k = lastK \/ Before(k, lastK, o))}
             r2 == Return(th[t], t, Ok)
             flag == IF extraBad # "" THEN extraBad
                     ELSE IF ~(due \subseteq seenK) THEN "ScanComplete(a key present throughout was not delivered)" ELSE ""
         IN /\ it' = [it EXCEPT ![t] = IF KeepSeen THEN [on |-> FALSE, seen |-> I.seen] ELSE NoIt]
            /\ th' = [th EXCEPT ![t] = r2]
            /\ bad' = IF flag # "" /\ bad = "" THEN flag ELSE bad
            /\ waitfor' = QuiesceAt(waitfor, t, r2)

\* clauses evaluated when a key is delivered (folded into Deliver's caller through SeenOK)
SeenOK(I, t) ==
  LET o == ScanOp(t)  n == Len(I.seen) IN
  IF n = 0 THEN ""
  ELSE LET kv == I.seen[n] IN
       IF ~InInterval(kv[1], o) THEN "ScanBounded"
       ELSE IF n > 1 /\ ~Before(I.seen[n - 1][1], kv[1], o) THEN "ScanOrdered"
       ELSE IF kv \notin I.ever THEN "ScanValueWasHeld"
       ELSE ""

\* return b from the current try_ function
RetB(t, I, b) == LET res == Cont(I, b, t) IN Apply(t, res, SeenOK(res[1], t))

Keep == UNCHANGED <<nodes, lk, root, next, abs, obs>>
Goto(t, I, p) == /\ it' = [it EXCEPT ![t] = I] /\ th' = [th EXCEPT ![t].pc = p] /\ UNCHANGED <<bad, waitfor>>
\* enter try_next / try_prior: with an empty stack it returns true without any access
ToNext(t, I) == IF I.stk = <<>> THEN RetB(t, I, TRUE) ELSE Goto(t, I, "n_top")

-----------------------------------------------------------------------------
(* first() / last(): try_first / try_last *)
Pcs(t, S) == th[t].pc \in S
IsAll(t) == ScanOp(t).kind = "all"

\* L_LOAD(root lock)
F0(t) == /\ (Pcs(t, {"f0"}) \/ (Pcs(t, {"s_call"}) /\ IsAll(t)))
         /\ LET I == [it[t] EXCEPT !.stk = <<>>, !.sfwd = Up(ScanOp(t)),
                                   !.rs = IF th[t].pc = "s_call" THEN <<"c_first">> ELSE @] IN
            IF IsLocked(lk[0]) THEN Goto(t, I, "f0_s")
            ELSE Goto(t, [I EXCEPT !.par = 0, !.pv = lk[0]], "f1")
         /\ Keep
F0_s(t) == Pcs(t, {"f0_s"}) /\ Goto(t, it[t], "f0") /\ Keep
F_sp(t) == Pcs(t, {"f_sp"}) /\ Goto(t, it[t], "f0") /\ Keep
\* F_LOAD(root)
F1(t) == /\ Pcs(t, {"f1"})
         /\ Goto(t, [it[t] EXCEPT !.node = root], IF root = 0 THEN "f2" ELSE "t0")
         /\ Keep
\* empty tree: try_read_unlock(root lock)
F2(t) == Pcs(t, {"f2"}) /\ RetB(t, it[t], lk[0] = it[t].pv) /\ Keep

-----------------------------------------------------------------------------
(* try_left_most_traversal / try_right_most_traversal (direction = scan direction) *)

\* check of the parent section
T0(t) == /\ Pcs(t, {"t0"})
         /\ IF lk[it[t].par] = it[t].pv THEN Goto(t, it[t], "t1") ELSE Goto(t, it[t], "t0_s")
         /\ Keep
\* spin_wait_loop_body, then return false
T0_s(t) == Pcs(t, {"t0_s"}) /\ RetB(t, it[t], FALSE) /\ Keep
\* read lock of the node
T1(t) == /\ Pcs(t, {"t1"})
         /\ LET I == it[t]  w == lk[I.node] IN
            IF IsLocked(w) THEN Goto(t, I, "t1_s")
            ELSE IF w = Obsolete THEN RetB(t, I, FALSE)
            ELSE Goto(t, [I EXCEPT !.nv = w], "t2")
         /\ Keep
T1_s(t) == Pcs(t, {"t1_s"}) /\ Goto(t, it[t], "t1") /\ Keep
\* try_read_unlock of the parent
T2(t) == /\ Pcs(t, {"t2"})
         /\ LET I == it[t] IN
            IF lk[I.par] # I.pv THEN RetB(t, I, FALSE)
            ELSE IF nodes[I.node].kind = "leaf"
              THEN Goto(t, Push(I, Entry(I.node, 0, I.nv, TRUE)), "t3")
              ELSE Goto(t, I, "t4")
         /\ Keep
\* leaf pushed: try_read_unlock of the leaf
T3(t) == Pcs(t, {"t3"}) /\ RetB(t, it[t], lk[it[t].node] = it[t].nv) /\ Keep
\* begin() / last() of the inner node (field segment)
T4(t) == /\ Pcs(t, {"t4"})
         /\ LET I == it[t] IN Goto(t, [I EXCEPT !.ent = IF I.sfwd THEN FirstIdx(I.node) ELSE LastIdx(I.node)], "t5")
         /\ Keep
\* check; push the entry
T5(t) == /\ Pcs(t, {"t5"})
         /\ LET I == it[t] IN
            IF lk[I.node] # I.nv THEN RetB(t, I, FALSE)
            ELSE Goto(t, Push(I, Entry(I.node, I.ent, I.nv, FALSE)), "t6")
         /\ Keep
\* get_child (field segment)
T6(t) == /\ Pcs(t, {"t6"})
         /\ LET I == it[t] IN Goto(t, [I EXCEPT !.ent = ChildAt(I.node, Top(I).ci)], "t7")
         /\ Keep
\* check; descend
T7(t) == /\ Pcs(t, {"t7"})
         /\ LET I == it[t] IN
            IF lk[I.node] # I.nv \/ I.ent = 0 THEN RetB(t, I, FALSE)
            ELSE Goto(t, [I EXCEPT !.par = I.node, !.pv = I.nv, !.node = I.ent], "t1")
         /\ Keep

-----------------------------------------------------------------------------
(* try_next / try_prior (direction = I.sfwd) *)
\* check of the rehydrated section of the node on top of the stack
N_top(t) ==
  /\ Pcs(t, {"n_top"})
  /\ LET I0 == it[t]  I == [I0 EXCEPT !.sfwd = Up(ScanOp(t))] IN
     LET e == Top(I) IN
          IF lk[e.n] # e.ver THEN RetB(t, I, FALSE)
          ELSE IF e.leaf THEN Goto(t, I, "n_lu")
          \* prior() at the first child reads nothing; every other case reads the node
          ELSE IF ~I.sfwd /\ e.ci <= 1 THEN Goto(t, [I EXCEPT !.ent = 0], "n_chk")
          ELSE Goto(t, I, "n_rd")
  /\ Keep
\* leaf: pop, try_read_unlock
N_lu(t) == /\ Pcs(t, {"n_lu"})
           /\ LET I == it[t]  e == Top(I)  I1 == Pop(I) IN
              IF lk[e.n] # e.ver THEN RetB(t, I1, FALSE)
              ELSE ToNext(t, I1)
           /\ Keep
\* inode->next / prior (field segment)
N_rd(t) == /\ Pcs(t, {"n_rd"})
           /\ LET I == it[t]  e == Top(I)
                  nx == IF I.sfwd THEN NextIdx(e.n, e.ci) ELSE PriorIdx(e.n, e.ci) IN
              Goto(t, [I EXCEPT !.ent = nx], "n_chk")
           /\ Keep
\* check after the read
N_chk(t) == /\ Pcs(t, {"n_chk"})
            /\ LET I == it[t]  e == Top(I) IN
               IF lk[e.n] # e.ver /\ (IterChecksAfterNextRead \/ I.ent # 0) THEN RetB(t, I, FALSE)
               ELSE IF I.ent = 0 THEN Goto(t, I, "n_none")
               ELSE Goto(t, Push(Pop(I), Entry(e.n, I.ent, e.ver, FALSE)), "n_gc")
            /\ Keep
\* nothing more in this node: pop, try_read_unlock
N_none(t) == /\ Pcs(t, {"n_none"})
             /\ LET I == it[t]  e == Top(I)  I1 == Pop(I) IN
                IF lk[e.n] # e.ver /\ IterChecksAfterNextRead THEN RetB(t, I1, FALSE)
                ELSE ToNext(t, I1)
             /\ Keep
\* get_child of the new entry (field segment), check, then traverse
N_gc(t) == /\ Pcs(t, {"n_gc"})
           /\ LET I == it[t]  e == Top(I) IN Goto(t, [I EXCEPT !.ent = ChildAt(e.n, e.ci)], "n_gk")
           /\ Keep
N_gk(t) == /\ Pcs(t, {"n_gk"})
           /\ LET I == it[t]  e == Top(I) IN
              IF lk[e.n] # e.ver \/ I.ent = 0 THEN RetB(t, I, FALSE)
              ELSE Goto(t, [I EXCEPT !.par = e.n, !.pv = e.ver, !.node = I.ent], "t0")
           /\ Keep

-----------------------------------------------------------------------------
(* try_seek(sk, match, sfwd) *)
IsSeek(t) == ScanOp(t).kind \in {"from", "range"}
K0(t) == /\ (Pcs(t, {"k0"}) \/ (Pcs(t, {"s_call"}) /\ IsSeek(t)))
         /\ LET o == ScanOp(t)
                I0 == IF th[t].pc = "s_call"
                        THEN [it[t] EXCEPT !.sk = o.from, !.sfwd = Up(o), !.rs = <<"c_seek">>] ELSE it[t]
                I == [I0 EXCEPT !.stk = <<>>, !.match = FALSE] IN
            IF IsLocked(lk[0]) THEN Goto(t, I, "k0_s")
            ELSE Goto(t, [I EXCEPT !.par = 0, !.pv = lk[0]], "k1")
         /\ Keep
K0_s(t) == Pcs(t, {"k0_s"}) /\ Goto(t, it[t], "k0") /\ Keep
K_sp(t) == Pcs(t, {"k_sp"}) /\ Goto(t, it[t], "k0") /\ Keep
K1(t) == /\ Pcs(t, {"k1"})
         /\ Goto(t, [it[t] EXCEPT !.node = root, !.cur = <<>>, !.child = 0], IF root = 0 THEN "k2" ELSE "k3")
         /\ Keep
K2(t) == Pcs(t, {"k2"}) /\ RetB(t, it[t], lk[0] = it[t].pv) /\ Keep
\* check of the root lock (spin + false on failure)
K3(t) == /\ Pcs(t, {"k3"})
         /\ IF lk[0] = it[t].pv THEN Goto(t, [it[t] EXCEPT !.ent = 0], "k4") ELSE Goto(t, it[t], "t0_s")
         /\ Keep
\* depth of the descent is kept in I.ent2 = Len(consumed key): use field "child" for depth here
K4(t) == /\ Pcs(t, {"k4"})
         /\ LET I == it[t]  w == lk[I.node] IN
            IF IsLocked(w) THEN Goto(t, I, "k4_s")
            ELSE IF w = Obsolete THEN RetB(t, I, FALSE)
            ELSE Goto(t, [I EXCEPT !.nv = w], "k5")
         /\ Keep
K4_s(t) == Pcs(t, {"k4_s"}) /\ Goto(t, it[t], "k4") /\ Keep
\* check of the parent
K5(t) == /\ Pcs(t, {"k5"})
         /\ LET I == it[t] IN
            IF lk[I.par] # I.pv THEN RetB(t, I, FALSE)
            ELSE Goto(t, I, IF nodes[I.node].kind = "leaf" THEN "k6" ELSE "k8")
         /\ Keep
\* leaf: try_read_unlock parent, push, compare, try_read_unlock leaf
K6(t) == /\ Pcs(t, {"k6"})
         /\ LET I == it[t] IN
            IF lk[I.par] # I.pv THEN RetB(t, I, FALSE)
            ELSE Goto(t, Push(I, Entry(I.node, 0, I.nv, TRUE)), "k7")
         /\ Keep
K7(t) == /\ Pcs(t, {"k7"})
         /\ LET I == it[t]  lkey == nodes[I.node].key IN
            IF lk[I.node] # I.nv THEN RetB(t, I, FALSE)
            ELSE IF lkey = I.sk THEN RetB(t, [I EXCEPT !.match = TRUE], TRUE)
            ELSE IF I.sfwd THEN (IF LexLess(I.sk, lkey) THEN RetB(t, I, TRUE) ELSE ToNext(t, I))
            ELSE (IF LexLess(lkey, I.sk) THEN RetB(t, I, TRUE) ELSE ToNext(t, I))
         /\ Keep
\* inner node: prefix, child lookup (one field segment); depth d = I.child
SeekRem(I) == Drop(I.sk, I.child)
K8(t) ==
  /\ Pcs(t, {"k8"})
  /\ LET I == it[t]  n == I.node  p == nodes[n].prefix  rk == SeekRem(I)  j == Lcp(p, rk) IN
     IF j < Len(p)
       THEN \* the search key leaves the tree inside the prefix: left/right-most traversal of this node
            LET before == rk[j + 1] < p[j + 1]
                travLeft == IF I.sfwd THEN before ELSE before     \* cmp<0: left-most; cmp>0: right-most
                thenStep == IF I.sfwd THEN ~before ELSE before    \* fwd & after: +next; rev & before: +prior
            IN Goto(t, [I EXCEPT !.rs = <<IF thenStep THEN "c_pm_step" ELSE "c_pm_done">> \o @,
                                 !.cur = <<n, I.nv, IF I.sfwd THEN 1 ELSE 0>>,
                                 !.sfwd = travLeft], "t0")
     ELSE LET b == rk[Len(p) + 1]  d2 == I.child + Len(p) IN
          IF b \in DOMAIN nodes[n].ch
            THEN \* simple case: push the path, descend
                 Goto(t, [Push(I, Entry(n, RankOf(n, b), I.nv, FALSE)) EXCEPT !.ent = nodes[n].ch[b], !.child = d2 + 1], "k13")
            ELSE LET cand == IF I.sfwd THEN {x \in DOMAIN nodes[n].ch : x > b} ELSE {x \in DOMAIN nodes[n].ch : x < b} IN
                 IF cand = {} THEN Goto(t, I, "k9")
                 ELSE LET nb == IF I.sfwd THEN MinOf(cand) ELSE CHOOSE x \in cand : \A y \in cand : y <= x IN
                      Goto(t, [I EXCEPT !.ent = nodes[n].ch[nb], !.cur = <<RankOf(n, nb)>>], "k11")
  /\ Keep
\* fall off the node: unlock parent, unlock node, then try_next / try_prior
K9(t) == /\ Pcs(t, {"k9"})
         /\ IF lk[it[t].par] # it[t].pv THEN RetB(t, it[t], FALSE) ELSE Goto(t, it[t], "k10")
         /\ Keep
K10(t) == /\ Pcs(t, {"k10"})
          /\ IF lk[it[t].node] # it[t].nv THEN RetB(t, it[t], FALSE) ELSE ToNext(t, it[t])
          /\ Keep
\* a later (earlier) child exists: check node, unlock parent, push, traverse below it
K11(t) == /\ Pcs(t, {"k11"})
          /\ IF lk[it[t].node] # it[t].nv THEN RetB(t, it[t], FALSE) ELSE Goto(t, it[t], "k12")
          /\ Keep
K12(t) == /\ Pcs(t, {"k12"})
          /\ LET I == it[t] IN
             IF lk[I.par] # I.pv THEN RetB(t, I, FALSE)
             ELSE Goto(t, [Push(I, Entry(I.node, I.cur[1], I.nv, FALSE)) EXCEPT !.par = I.node, !.pv = I.nv, !.node = I.ent], "t0")
          /\ Keep
\* simple case: check node, unlock the (grand)parent, continue below
K13(t) == /\ Pcs(t, {"k13"})
          /\ IF lk[it[t].node] # it[t].nv THEN RetB(t, it[t], FALSE) ELSE Goto(t, it[t], "k14")
          /\ Keep
K14(t) == /\ Pcs(t, {"k14"})
          /\ LET I == it[t] IN
             IF lk[I.par] # I.pv THEN RetB(t, I, FALSE)
             ELSE Goto(t, [I EXCEPT !.par = I.node, !.pv = I.nv, !.node = I.ent], "k4")
          /\ Keep
\* prefix mismatch: after the traversal, try_read_unlock of the node section taken by try_seek
K_pmu(t) == /\ Pcs(t, {"k_pmu"})
            /\ LET I == it[t]  n == I.cur[1]  v == I.cur[2]
                   I1 == [I EXCEPT !.sfwd = (I.cur[3] = 1)] IN
               IF I.ent = 2 \/ lk[n] # v THEN RetB(t, I1, FALSE)
               ELSE IF I.ent = 1 THEN ToNext(t, I1)
               ELSE RetB(t, I1, TRUE)
            /\ Keep

ScanStep(t) == F0(t) \/ F0_s(t) \/ F_sp(t) \/ F1(t) \/ F2(t)
               \/ T0(t) \/ T0_s(t) \/ T1(t) \/ T1_s(t) \/ T2(t) \/ T3(t) \/ T4(t) \/ T5(t) \/ T6(t) \/ T7(t)
               \/ N_top(t) \/ N_lu(t) \/ N_rd(t) \/ N_chk(t) \/ N_none(t) \/ N_gc(t) \/ N_gk(t)
               \/ K0(t) \/ K0_s(t) \/ K_sp(t) \/ K1(t) \/ K2(t) \/ K3(t) \/ K4(t) \/ K4_s(t) \/ K5(t) \/ K6(t) \/ K7(t)
               \/ K8(t) \/ K9(t) \/ K10(t) \/ K11(t) \/ K12(t) \/ K13(t) \/ K14(t) \/ K_pmu(t)

-----------------------------------------------------------------------------
\* steps of OlcArt leave the iterators alone except for the scan ghosts, which follow the
\* abstract map; a Call of a scan initialises its ghosts at the call boundary
GhostUpd ==
  it' = [t \in Threads |->
           IF th[t].pc = "idle" /\ th'[t].pc = "s_call" THEN NewIt
           ELSE IF it[t].on
             THEN [it[t] EXCEPT !.always = @ \cap DOMAIN abs',
                                !.ever = @ \cup {<<k, abs'[k]>> : k \in DOMAIN abs'}]
             ELSE it[t]]

InitI == Init /\ it = [t \in Threads |-> NoIt]
NextI == (Next /\ GhostUpd) \/ (\E t \in Threads : ScanStep(t))
SpecI == InitI /\ [][NextI]_ivars
=============================================================================
