------------------------------ MODULE OlcTrace ------------------------------
(***************************************************************************)
(* Validation of recorded concurrent executions of the real olc_db         *)
(* (harness/olc_driver.cpp: real qsbr_threads under the baton scheduler)   *)
(* against the requirements of C03, C04, C09, C14.                         *)
(*                                                                         *)
(* The log is totally ordered (one thread runs at a time), so its order is *)
(* the real-time order.  The abstract state is the map; every call takes   *)
(* effect at an unlogged internal step Lin(t) between its `call` and `ret` *)
(* events, chosen by TLC: the trace is accepted iff SOME choice of         *)
(* linearization points explains every returned result (C03).  Scans are   *)
(* not atomic: their visitor calls are events of their own and are judged  *)
(* against what the keys held during the scan (C09).  Memory events carry  *)
(* the harness monitor's observations (which threads touched a block since *)
(* their last quiescent state) and are judged here (C04).  Scheduler       *)
(* verdicts (`stuck`, `budget`) have no action: they are rejected (C14).   *)
(*                                                                         *)
(* Events: reset(init keys/values, threads)                                *)
(*   call(t,op,k[,v])  ret(t,r[,v])        op in ins rem get               *)
(*   scall(t,kind,from,to,fwd,halt) visit(t,k,v) sret(t)                   *)
(*   recheck(t,k,v0,v)   value view re-read before the quiescent state     *)
(*   free(b,by,touchers) uaf(t,b) dblfree(b) wdisc(t,b)                         *)
(*   final(keys,vals,held,mem,leaked,locked)                               *)
(***************************************************************************)
EXTENDS Integers, Sequences, FiniteSets, TLC, Json, IOUtils

VARIABLES l, abs, pend, scan

JTrace == ndJsonDeserialize(IOEnv.TRACE)
Ev == JTrace[l]
tvars == <<l, abs, pend, scan>>

Mode == IF "MODE" \in DOMAIN IOEnv THEN IOEnv.MODE ELSE "all"
CheckShape == Mode \in {"all", "C10"}
CheckLin == Mode \in {"all", "C03"}
CheckScan == Mode \in {"all", "C09"}
CheckMem == Mode \in {"all", "C04"}
CheckLive == Mode \in {"all", "C14"}

AllT == 1..8
NoOp == [op |-> "none"]

\* the declarative radix-tree shape of a key set (C10 after concurrent phases)
Shape == INSTANCE ArtShape WITH Caps <- <<4, 16, 48, 256>>
RECURSIVE BytesOf(_, _)
BytesOf(k, n) == IF n = 0 THEN <<>> ELSE Append(BytesOf(k \div 256, n - 1), k % 256)
Key8(k) == BytesOf(k, 8)
NoScan == [on |-> FALSE]

TInit == /\ TLCSet(1, 0)
         /\ l = 1 /\ abs = <<>> /\ pend = [t \in AllT |-> NoOp] /\ scan = [t \in AllT |-> NoScan]

MapOf(ks, vs) == [k \in {ks[i] : i \in 1..Len(ks)} |-> vs[CHOOSE i \in 1..Len(ks) : ks[i] = k]]

Reset == /\ Ev.e = "reset"
         /\ abs' = MapOf(Ev.keys, Ev.vals)
         /\ pend' = [t \in AllT |-> NoOp] /\ scan' = [t \in AllT |-> NoScan]
         /\ l' = l + 1

-----------------------------------------------------------------------------
(* point operations: linearizability *)
Call == /\ Ev.e = "call" /\ pend[Ev.t].op = "none"
        /\ pend' = [pend EXCEPT ![Ev.t] = [op |-> Ev.op, k |-> Ev.k, v |-> IF "v" \in DOMAIN Ev THEN Ev.v ELSE -1,
                                           lin |-> FALSE, res |-> FALSE, rv |-> -1]]
        /\ l' = l + 1 /\ UNCHANGED <<abs, scan>>

\* effect of a successful write on the scans in flight (C09 ghosts):
\*   always = keys present for the whole duration so far,
\*   ever   = (key, value) pairs held at some moment so far
ScanSeesInsert(k, v) == [t \in AllT |-> IF scan[t].on THEN [scan[t] EXCEPT !.ever = @ \cup {<<k, v>>}] ELSE scan[t]]
ScanSeesRemove(k) == [t \in AllT |-> IF scan[t].on THEN [scan[t] EXCEPT !.always = @ \ {k}] ELSE scan[t]]

Lin(t) ==
  /\ pend[t].op # "none" /\ ~pend[t].lin
  /\ LET p == pend[t] IN
     \/ /\ p.op = "ins"
        /\ IF p.k \in DOMAIN abs
             THEN /\ pend' = [pend EXCEPT ![t].lin = TRUE, ![t].res = FALSE] /\ UNCHANGED <<abs, scan>>
             ELSE /\ abs' = (p.k :> p.v) @@ abs
                  /\ pend' = [pend EXCEPT ![t].lin = TRUE, ![t].res = TRUE]
                  /\ scan' = ScanSeesInsert(p.k, p.v)
     \/ /\ p.op = "rem"
        /\ IF p.k \in DOMAIN abs
             THEN /\ abs' = [x \in DOMAIN abs \ {p.k} |-> abs[x]]
                  /\ pend' = [pend EXCEPT ![t].lin = TRUE, ![t].res = TRUE]
                  /\ scan' = ScanSeesRemove(p.k)
             ELSE /\ pend' = [pend EXCEPT ![t].lin = TRUE, ![t].res = FALSE] /\ UNCHANGED <<abs, scan>>
     \/ /\ p.op = "get"
        /\ pend' = [pend EXCEPT ![t].lin = TRUE, ![t].res = (p.k \in DOMAIN abs),
                                ![t].rv = IF p.k \in DOMAIN abs THEN abs[p.k] ELSE -1]
        /\ UNCHANGED <<abs, scan>>
  /\ UNCHANGED l

Ret == /\ Ev.e = "ret" /\ pend[Ev.t].op # "none" /\ pend[Ev.t].lin
       /\ CheckLin => /\ pend[Ev.t].res = Ev.r
                      /\ (pend[Ev.t].op = "get" /\ Ev.r) => pend[Ev.t].rv = Ev.v
       \* when results are not enforced the recorded result must still drive the state
       /\ ~CheckLin => (pend[Ev.t].op \in {"ins", "rem"} => pend[Ev.t].res = Ev.r)
       /\ pend' = [pend EXCEPT ![Ev.t] = NoOp] /\ l' = l + 1 /\ UNCHANGED <<abs, scan>>

\* a value view obtained by get / shown to a visitor is re-read just before the
\* caller's next quiescent state: same bytes (C04)
Recheck == /\ Ev.e = "recheck"
           /\ CheckMem => Ev.v = Ev.v0
           /\ l' = l + 1 /\ UNCHANGED <<abs, pend, scan>>

-----------------------------------------------------------------------------
(* scans (C09) *)
InInterval(k, s) ==
  CASE s.kind = "all" -> TRUE
    [] s.kind = "from" -> IF s.fwd THEN k >= s.from ELSE k <= s.from
    [] s.kind = "range" -> IF s.from < s.to THEN k >= s.from /\ k < s.to
                           ELSE IF s.from > s.to THEN k > s.to /\ k <= s.from ELSE FALSE
Up(s) == IF s.kind = "range" THEN s.from < s.to ELSE s.fwd
Before(a, b, s) == IF Up(s) THEN a < b ELSE a > b

SCall == /\ Ev.e = "scall" /\ ~scan[Ev.t].on /\ pend[Ev.t].op = "none"
         /\ scan' = [scan EXCEPT ![Ev.t] = [on |-> TRUE, kind |-> Ev.kind, from |-> Ev.from, to |-> Ev.to,
                                            fwd |-> Ev.fwd, halt |-> Ev.halt,
                                            always |-> DOMAIN abs, ever |-> {<<k, abs[k]>> : k \in DOMAIN abs},
                                            seen |-> <<>>]]
         /\ l' = l + 1 /\ UNCHANGED <<abs, pend>>

Visit == /\ Ev.e = "visit" /\ scan[Ev.t].on
         /\ LET s == scan[Ev.t] IN
            /\ CheckScan =>
                 /\ InInterval(Ev.k, s)                                           \* ScanBounded
                 /\ Len(s.seen) > 0 => Before(s.seen[Len(s.seen)], Ev.k, s)        \* ScanOrdered (strictly monotone)
                 /\ <<Ev.k, Ev.v>> \in s.ever                                      \* ScanValueWasHeld / ScanNoPhantom
                 /\ (s.halt = 0 \/ Len(s.seen) < s.halt)                           \* halted scans stop
            /\ scan' = [scan EXCEPT ![Ev.t].seen = Append(@, Ev.k)]
         /\ l' = l + 1 /\ UNCHANGED <<abs, pend>>

SRet == /\ Ev.e = "sret" /\ scan[Ev.t].on
        /\ LET s == scan[Ev.t]
               seenSet == {s.seen[i] : i \in 1..Len(s.seen)}
               halted == s.halt > 0 /\ Len(s.seen) = s.halt
               \* ScanComplete: every key present throughout, in the interval, before the halt point
               due == {k \in s.always : InInterval(k, s) /\
                          (~halted \/ k = s.seen[Len(s.seen)] \/ Before(k, s.seen[Len(s.seen)], s))}
           IN CheckScan => due \subseteq seenSet
        /\ scan' = [scan EXCEPT ![Ev.t] = NoScan]
        /\ l' = l + 1 /\ UNCHANGED <<abs, pend>>

-----------------------------------------------------------------------------
(* memory (C04) *)
\* a block is handed back to the allocator: no other thread has touched it since
\* its last quiescent state (a freed block that is still reachable shows up as a
\* `uaf` of the single-threaded sweep at the end of the execution)
Free == /\ Ev.e = "free"
        /\ CheckMem => {Ev.touchers[i] : i \in 1..Len(Ev.touchers)} \subseteq {Ev.by}
        /\ l' = l + 1 /\ UNCHANGED <<abs, pend, scan>>
\* a hooked access inside a freed block / a second free of a block: only in other modes
Uaf == /\ Ev.e \in {"uaf", "dblfree"} /\ ~CheckMem
       /\ l' = l + 1 /\ UNCHANGED <<abs, pend, scan>>
\* write discipline (what makes validated reads snapshots, C07 as used by C03/C09): a store
\* into a protected field of a published node by a thread that does not hold the node's write
\* lock is rejected where results are judged
WDisc == /\ Ev.e = "wdisc" /\ ~(CheckLin \/ CheckScan)
         /\ l' = l + 1 /\ UNCHANGED <<abs, pend, scan>>

-----------------------------------------------------------------------------
(* end of an execution: sweep by a single thread, everything quiesced *)
Final == /\ Ev.e = "final"
         /\ \A t \in AllT : pend[t].op = "none" /\ ~scan[t].on
         \* the final content is the abstract map (C03)
         /\ CheckLin => /\ MapOf(Ev.keys, Ev.vals) = abs /\ Len(Ev.keys) = Cardinality(DOMAIN abs)
                        /\ Ev.back = Len(Ev.keys)          \* the reverse scan sees as many entries
                        /\ \A i \in 1..(Len(Ev.keys) - 1) : Ev.keys[i] < Ev.keys[i + 1]
                        \* point lookups of every key used agree with the map
                        /\ \A i \in 1..Len(Ev.gets) :
                              LET g == Ev.gets[i] IN
                              IF g[1] \in DOMAIN abs THEN g[2] = 1 /\ g[3] = abs[g[1]] ELSE g[2] = 0
         \* everything unlinked was freed exactly once, nothing else: bytes held = reported memory use (C04)
         /\ CheckMem => Ev.held = Ev.mem /\ Ev.leaked = 0
         \* C10: once all threads have quiesced the statistics are those of the radix tree
         \* of the final key set, whatever the concurrent history was
         /\ CheckShape =>
              LET K == {Key8(Ev.keys[i]) : i \in 1..Len(Ev.keys)}
                  sh == Shape!CanonShape(K)
                  cnt == Shape!ShapeCounts(sh)
              IN /\ Ev.st[1] = Len(Ev.keys)
                 /\ <<Ev.st[2], Ev.st[3], Ev.st[4], Ev.st[5]>> = cnt
                 /\ Ev.mem = Len(Ev.keys) * (Ev.leafbase + 8 + 2)
                             + cnt[1] * Ev.sizes[1] + cnt[2] * Ev.sizes[2] + cnt[3] * Ev.sizes[3] + cnt[4] * Ev.sizes[4]
                 /\ Ev.held = Ev.mem /\ Ev.leaked = 0
                 \* growth/shrink counters move exactly when an inner node is created, replaced by
                 \* one of another class, or dissolved: the nodes alive per class are accounted for
                 \* (the index was built from empty and never cleared in these executions)
                 /\ LET g == <<Ev.st[6], Ev.st[7], Ev.st[8], Ev.st[9], 0>>
                        h == <<Ev.st[10], Ev.st[11], Ev.st[12], Ev.st[13], 0>>
                    IN \A c \in 1..4 : cnt[c] = g[c] + h[c + 1] - g[c + 1] - h[c]
         \* no node or root lock left held (C14)
         /\ CheckLive => Ev.locked = 0
         /\ l' = l + 1 /\ UNCHANGED <<abs, pend, scan>>

\* scheduler verdicts without an action (rejected): stuck, budget, crash, hang.
\* In modes other than C14 a stuck/budget execution is skipped by the checker.

TNext == \/ (l <= Len(JTrace) /\ (Reset \/ Call \/ Ret \/ Recheck \/ SCall \/ Visit \/ SRet \/ Free \/ Uaf \/ WDisc \/ Final))
         \/ (l <= Len(JTrace) /\ \E t \in AllT : Lin(t))
TSpec == TInit /\ [][TNext]_tvars

\* acceptance: the whole log can be consumed
NotAccepted == l <= Len(JTrace)
\* the longest prefix that could be explained (reported when the log is rejected)
Progress == TLCSet(1, IF TLCGet(1) < l THEN l ELSE TLCGet(1))
ReportMax == PrintT(<<"MAXL", TLCGet(1)>>)
=============================================================================
