------------------------------- MODULE OptLock -------------------------------
(***************************************************************************)
(* unodb::optimistic_lock (optimistic_lock.hpp) with two protected words,  *)
(* every atomic access one action (= one scheduling point of the hooks:    *)
(* L_LOAD, SPIN, F_LOAD, L_CHECK, L_CAS, F_STORE, L_UNLOCK, L_OBSOLETE).   *)
(*                                                                         *)
(* Lock word layout as in the code: bit 0 obsolete (then the whole word is *)
(* 1), bit 1 write-locked, version from bit 2: free words are multiples    *)
(* of 4, locking adds 2, unlocking adds 2 again.                           *)
(*                                                                         *)
(* Each thread runs Sections sections; the kind of each is chosen          *)
(* nondeterministically:                                                   *)
(*   "R"  try_read_lock; read d1; check; read d2; try_read_unlock          *)
(*   "W"  try_read_lock; read d1; read d2; upgrade; write d1,d2; unlock    *)
(*   "O"  ... same, but write_unlock_and_obsolete                          *)
(* Writers keep d1 = d2 whenever the lock is not write-locked.             *)
(*                                                                         *)
(* Property C07: OneWriter, ValidatedSnapshot, UpgradeOnlyIfUnchanged,     *)
(* ObsoleteFinal.  Sequential consistency is assumed.                      *)
(***************************************************************************)
EXTENDS Naturals, FiniteSets, TLC

\* (the @type comments are Apalache annotations: spec/OptLockInd.tla proves an inductive invariant
\*  for unbounded versions and any number of sections; TLC ignores them)
CONSTANTS
  \* @type: Set(Int);
  Threads,
  \* @type: Int;
  Sections,
  \* protections of the design; TRUE in the faithful model
  \* @type: Bool;
  CheckComparesVersion,     \* check()/try_read_unlock compare the whole word
  \* @type: Bool;
  UpgradeComparesVersion,   \* upgrade CAS expects the version read at lock time
  \* @type: Bool;
  ReadLockRefusesObsolete,  \* try_read_lock fails on an obsolete word
  \* @type: Bool;
  UnlockBumpsVersion        \* write_unlock advances the version

VARIABLES
  \* @type: Int;
  word,
  \* @type: Int;
  d1,
  \* @type: Int;
  d2,
  \* per thread: control state, kind of section, sections left
  \* @type: Int -> Str;
  pc,
  \* @type: Int -> Str;
  kind,
  \* @type: Int -> Int;
  left,
  \* per thread: version snapshot, values read
  \* @type: Int -> Int;
  ver,
  \* @type: Int -> Int;
  r1,
  \* @type: Int -> Int;
  r2,
  \* per thread: outcome of the last lock call
  \* @type: Int -> Str;
  out,
  \* ghosts: memory at section open; a writer became active since
  \* @type: Int -> Int;
  snap1,
  \* @type: Int -> Int;
  snap2,
  \* @type: Int -> Bool;
  sawWriter,
  \* ghost: "" or the name of the violated clause
  \* @type: Str;
  bad

vars == <<word, d1, d2, pc, kind, left, ver, r1, r2, out, snap1, snap2, sawWriter, bad>>

Kinds == {"R", "W", "O"}
Obsolete == 1
IsFree(w) == w % 4 = 0
IsLocked(w) == w % 4 = 2
OpenPcs == {"rd1", "chk", "rd2", "unl", "cas"}
WriterPcs == {"wr1", "wr2", "wul", "wob"}

Init ==
  /\ word = 0 /\ d1 = 0 /\ d2 = 0
  /\ pc = [t \in Threads |-> "idle"]
  /\ kind = [t \in Threads |-> "R"]
  /\ left = [t \in Threads |-> Sections]
  /\ ver = [t \in Threads |-> 0]
  /\ r1 = [t \in Threads |-> 0] /\ r2 = [t \in Threads |-> 0]
  /\ out = [t \in Threads |-> "none"]
  /\ snap1 = [t \in Threads |-> 0] /\ snap2 = [t \in Threads |-> 0]
  /\ sawWriter = [t \in Threads |-> FALSE]
  /\ bad = ""

Flag(cond, name) == IF bad = "" /\ cond THEN name ELSE bad

\* begin a section of kind k
Begin(t, k) ==
  /\ pc[t] = "idle" /\ left[t] > 0
  /\ kind' = [kind EXCEPT ![t] = k]
  /\ left' = [left EXCEPT ![t] = @ - 1]
  /\ pc' = [pc EXCEPT ![t] = "load"]
  /\ out' = [out EXCEPT ![t] = "none"]
  /\ UNCHANGED <<word, d1, d2, ver, r1, r2, snap1, snap2, sawWriter, bad>>

\* try_read_lock: load of the lock word (L_LOAD)
Load(t) ==
  /\ pc[t] = "load"
  /\ IF IsFree(word) \/ (word = Obsolete /\ ~ReadLockRefusesObsolete)
       THEN /\ ver' = [ver EXCEPT ![t] = word]
            /\ snap1' = [snap1 EXCEPT ![t] = d1]
            /\ snap2' = [snap2 EXCEPT ![t] = d2]
            /\ sawWriter' = [sawWriter EXCEPT ![t] = FALSE]
            /\ pc' = [pc EXCEPT ![t] = "rd1"]
            /\ out' = [out EXCEPT ![t] = "locked"]
            \* ObsoleteFinal: no read section can be opened on an obsolete lock
            /\ bad' = Flag(word = Obsolete, "ReadLockOnObsolete")
       ELSE IF word = Obsolete
         THEN /\ pc' = [pc EXCEPT ![t] = "idle"]
              /\ out' = [out EXCEPT ![t] = "obsolete"]
              /\ UNCHANGED <<ver, snap1, snap2, sawWriter, bad>>
         ELSE /\ pc' = [pc EXCEPT ![t] = "spin"]      \* write-locked: spin
              /\ UNCHANGED <<ver, snap1, snap2, sawWriter, out, bad>>
  /\ UNCHANGED <<word, d1, d2, kind, left, r1, r2>>

\* spin_wait_loop_body (SPIN)
Spin(t) ==
  /\ pc[t] = "spin"
  /\ pc' = [pc EXCEPT ![t] = "load"]
  /\ UNCHANGED <<word, d1, d2, kind, left, ver, r1, r2, out, snap1, snap2, sawWriter, bad>>

\* protected read of d1 (F_LOAD)
Read1(t) ==
  /\ pc[t] = "rd1"
  /\ r1' = [r1 EXCEPT ![t] = d1]
  /\ pc' = [pc EXCEPT ![t] = IF kind[t] = "R" THEN "chk" ELSE "rd2"]
  /\ UNCHANGED <<word, d1, d2, kind, left, ver, r2, out, snap1, snap2, sawWriter, bad>>

CheckOK(t) == IF CheckComparesVersion THEN word = ver[t] ELSE ~IsLocked(word)

\* read_critical_section::check (L_CHECK) in the middle of an "R" section
Check(t) ==
  /\ pc[t] = "chk"
  /\ IF CheckOK(t)
       THEN /\ pc' = [pc EXCEPT ![t] = "rd2"]
            /\ out' = [out EXCEPT ![t] = "check_ok"]
            /\ bad' = Flag(sawWriter[t] \/ r1[t] # snap1[t] \/ word = Obsolete, "ValidatedSnapshot(check)")
       ELSE /\ pc' = [pc EXCEPT ![t] = "idle"]
            /\ out' = [out EXCEPT ![t] = "check_fail"]
            /\ UNCHANGED bad
  /\ UNCHANGED <<word, d1, d2, kind, left, ver, r1, r2, snap1, snap2, sawWriter>>

\* protected read of d2 (F_LOAD)
Read2(t) ==
  /\ pc[t] = "rd2"
  /\ r2' = [r2 EXCEPT ![t] = d2]
  /\ pc' = [pc EXCEPT ![t] = IF kind[t] = "R" THEN "unl" ELSE "cas"]
  /\ UNCHANGED <<word, d1, d2, kind, left, ver, r1, out, snap1, snap2, sawWriter, bad>>

\* try_read_unlock (L_CHECK) closing an "R" section
Unlock(t) ==
  /\ pc[t] = "unl"
  /\ pc' = [pc EXCEPT ![t] = "idle"]
  /\ IF CheckOK(t)
       THEN /\ out' = [out EXCEPT ![t] = "unlock_ok"]
            /\ bad' = Flag(sawWriter[t] \/ r1[t] # snap1[t] \/ r2[t] # snap2[t]
                           \/ r1[t] # r2[t] \/ word = Obsolete, "ValidatedSnapshot(unlock)")
       ELSE /\ out' = [out EXCEPT ![t] = "unlock_fail"]
            /\ UNCHANGED bad
  /\ UNCHANGED <<word, d1, d2, kind, left, ver, r1, r2, snap1, snap2, sawWriter>>

\* try_upgrade_to_write_lock (L_CAS)
Upgrade(t) ==
  /\ pc[t] = "cas"
  /\ IF (IF UpgradeComparesVersion THEN word = ver[t] ELSE IsFree(word))
       THEN /\ word' = word + 2
            /\ pc' = [pc EXCEPT ![t] = "wr1"]
            /\ out' = [out EXCEPT ![t] = "upgrade_ok"]
            \* every other open section has now overlapped a writer
            /\ sawWriter' = [u \in Threads |-> IF u # t /\ pc[u] \in OpenPcs THEN TRUE ELSE sawWriter[u]]
            /\ bad' = Flag(sawWriter[t] \/ word = Obsolete, "UpgradeOnlyIfUnchanged")
       ELSE /\ pc' = [pc EXCEPT ![t] = "idle"]
            /\ out' = [out EXCEPT ![t] = "upgrade_fail"]
            /\ UNCHANGED <<word, sawWriter, bad>>
  /\ UNCHANGED <<d1, d2, kind, left, ver, r1, r2, snap1, snap2>>

\* protected writes (F_STORE), d1 then d2
Write1(t) ==
  /\ pc[t] = "wr1"
  /\ d1' = r1[t] + 1
  /\ pc' = [pc EXCEPT ![t] = "wr2"]
  /\ UNCHANGED <<word, d2, kind, left, ver, r1, r2, out, snap1, snap2, sawWriter, bad>>

Write2(t) ==
  /\ pc[t] = "wr2"
  /\ d2' = r1[t] + 1
  /\ pc' = [pc EXCEPT ![t] = IF kind[t] = "W" THEN "wul" ELSE "wob"]
  /\ UNCHANGED <<word, d1, kind, left, ver, r1, r2, out, snap1, snap2, sawWriter, bad>>

\* write_unlock (L_UNLOCK)
WUnlock(t) ==
  /\ pc[t] = "wul"
  /\ word' = IF UnlockBumpsVersion THEN word + 2 ELSE word - 2
  /\ pc' = [pc EXCEPT ![t] = "idle"]
  /\ out' = [out EXCEPT ![t] = "unlocked"]
  /\ UNCHANGED <<d1, d2, kind, left, ver, r1, r2, snap1, snap2, sawWriter, bad>>

\* write_unlock_and_obsolete (L_OBSOLETE)
WObsolete(t) ==
  /\ pc[t] = "wob"
  /\ word' = Obsolete
  /\ pc' = [pc EXCEPT ![t] = "idle"]
  /\ out' = [out EXCEPT ![t] = "obsoleted"]
  /\ UNCHANGED <<d1, d2, kind, left, ver, r1, r2, snap1, snap2, sawWriter, bad>>

Step(t) == \/ \E k \in Kinds : Begin(t, k)
           \/ Load(t) \/ Spin(t) \/ Read1(t) \/ Check(t) \/ Read2(t) \/ Unlock(t)
           \/ Upgrade(t) \/ Write1(t) \/ Write2(t) \/ WUnlock(t) \/ WObsolete(t)

Next == \E t \in Threads : Step(t)

Spec == Init /\ [][Next]_vars

-----------------------------------------------------------------------------
\* C07

\* at most one write guard is active
OneWriter == Cardinality({t \in Threads : pc[t] \in WriterPcs}) <= 1
WriterHoldsBit == (\E t \in Threads : pc[t] \in WriterPcs) <=> IsLocked(word)

\* ValidatedSnapshot, UpgradeOnlyIfUnchanged and the per-call clauses of
\* ObsoleteFinal are evaluated where the call returns (ghost 'bad')
NoBadOutcome == bad = ""

\* the writers' invariant: protected words agree whenever no writer is active
WritersInvariant == ~IsLocked(word) => d1 = d2

\* once obsolete, always obsolete
ObsoleteFinal == [][word = Obsolete => word' = Obsolete]_vars

Done == \A t \in Threads : pc[t] = "idle" /\ left[t] = 0
=============================================================================
