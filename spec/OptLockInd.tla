----------------------------- MODULE OptLockInd -----------------------------
(***************************************************************************)
(* An inductive invariant of OptLock for UNBOUNDED lock versions and any   *)
(* number of sections per thread, discharged by Apalache:                  *)
(*   Init => IndInv                 (apalache-mc check --length=0)         *)
(*   IndInv /\ Next => IndInv'      (--init=IndInv --length=1)             *)
(* IndInv implies the C07 invariants OneWriter, WriterHoldsBit,            *)
(* NoBadOutcome (ValidatedSnapshot, UpgradeOnlyIfUnchanged, no read lock / *)
(* upgrade / validated check on an obsolete word) and WritersInvariant.    *)
(* TLC checks the same module exhaustively for small bounds (OptLock's     *)
(* cfgs); this module removes the bound on versions and sections.          *)
(***************************************************************************)
EXTENDS OptLock

PcSet == {"idle", "load", "spin", "rd1", "chk", "rd2", "unl", "cas", "wr1", "wr2", "wul", "wob"}
OutSet == {"none", "locked", "obsolete", "check_ok", "check_fail", "unlock_ok", "unlock_fail",
           "upgrade_ok", "upgrade_fail", "unlocked", "obsoleted"}
AfterRd1 == {"chk", "rd2", "unl", "cas"}
AfterRd2 == {"unl", "cas"}

TypeOK ==
  /\ word \in Nat /\ d1 \in Nat /\ d2 \in Nat
  /\ pc \in [Threads -> PcSet]
  /\ kind \in [Threads -> Kinds]
  /\ left \in [Threads -> Nat]
  /\ ver \in [Threads -> Nat]
  /\ r1 \in [Threads -> Nat] /\ r2 \in [Threads -> Nat]
  /\ out \in [Threads -> OutSet]
  /\ snap1 \in [Threads -> Nat] /\ snap2 \in [Threads -> Nat]
  /\ sawWriter \in [Threads -> BOOLEAN]
  /\ bad \in {"", "ReadLockOnObsolete", "ValidatedSnapshot(check)", "ValidatedSnapshot(unlock)", "UpgradeOnlyIfUnchanged"}

IndInv ==
  /\ TypeOK
  /\ bad = ""
  \* the word is obsolete, free or write-locked
  /\ word = Obsolete \/ IsFree(word) \/ IsLocked(word)
  \* exactly the active write guard holds the write bit
  /\ \A t, u \in Threads : (pc[t] \in WriterPcs /\ pc[u] \in WriterPcs) => t = u
  /\ (\E t \in Threads : pc[t] \in WriterPcs) <=> IsLocked(word)
  \* the writers' invariant, and what a writer has stored so far
  /\ ~IsLocked(word) => d1 = d2
  /\ \A t \in Threads : pc[t] \in {"wul", "wob"} => d1 = d2
  /\ \A t \in Threads : (pc[t] = "wr2") => d1 = r1[t] + 1
  \* kinds: only "R" sections check/unlock, only "W"/"O" sections upgrade and write
  /\ \A t \in Threads : pc[t] \in {"chk", "unl"} => kind[t] = "R"
  /\ \A t \in Threads : pc[t] \in {"cas"} \cup WriterPcs => kind[t] \in {"W", "O"}
  /\ \A t \in Threads : pc[t] = "wul" => kind[t] = "W"
  /\ \A t \in Threads : pc[t] = "wob" => kind[t] = "O"
  \* an open read section: its version is that of a free word, never ahead of the lock word;
  \* the memory it saw at opening satisfied the writers' invariant
  /\ \A t \in Threads : pc[t] \in OpenPcs =>
       /\ IsFree(ver[t])
       /\ snap1[t] = snap2[t]
       /\ (word # Obsolete => ver[t] <= word)
       \* a writer became active since it was opened  =>  the word has moved on for good
       /\ (sawWriter[t] => (word = Obsolete \/ word > ver[t]))
       \* no writer since it was opened  =>  nothing has changed
       /\ (~sawWriter[t] => (word = ver[t] /\ d1 = snap1[t] /\ d2 = snap2[t]))
       /\ ((~sawWriter[t] /\ pc[t] \in AfterRd1) => r1[t] = snap1[t])
       /\ ((~sawWriter[t] /\ pc[t] \in AfterRd2) => r2[t] = snap2[t])
  \* the active write guard was upgraded from an unchanged section
  /\ \A t \in Threads : pc[t] \in WriterPcs => (~sawWriter[t] /\ r1[t] = snap1[t] /\ word = ver[t] + 2)

\* what the C07 clauses need from it (checked as ordinary invariants with --init=IndInv --length=0)
C07 == OneWriter /\ WriterHoldsBit /\ NoBadOutcome /\ WritersInvariant
=============================================================================
