------------------------------ MODULE PtrTrace ------------------------------
(***************************************************************************)
(* Trace validation of executions of the real qsbr_ptr / qsbr_ptr_span     *)
(* recorded by harness/ptr_driver.cpp against QsbrPtr.  Every event is one *)
(* call of the wrapper API (the action is addressed by the recorded        *)
(* operation and operands): its recorded result must be the one QsbrPtr's  *)
(* action yields, the observable state read back after it (get() of every  *)
(* live wrapper, begin().get() and size() of every live span) must be the  *)
(* successor state, and a returned reference must be the object itself.    *)
(* A Probe event is the verdict of quiescent() (k = "q") or of             *)
(* qsbr_pause()+qsbr_resume() (k = "p") in a forked child: killed by       *)
(* SIGABRT exactly when the build has assertions and QuiescentAllowed is   *)
(* false; otherwise it ran to completion.  The invariants of QsbrPtr are   *)
(* checked in every state.  Fully recorded, hence deterministic: accepted  *)
(* iff the whole trace is consumed.  The specification is that of ONE      *)
(* thread: in recordings made with --foreign a second QSBR thread holds a  *)
(* wrapper of its own throughout; its activity ("Foreign" events) changes  *)
(* nothing here, which is the "created on that thread" clause of C17.      *)
(***************************************************************************)
EXTENDS QsbrPtr, Json, IOUtils

VARIABLE l          \* next line of the trace

JTrace == ndJsonDeserialize(IOEnv.TRACE)
Hdr == JTrace[1]

TrNW == Hdr.NW
TrNS == Hdr.NS
TrNB == Hdr.NB
TrN == Hdr.N
TrData == Hdr.data
TrSpanArgs == {}
Assertions == Hdr.assertions

tvars == <<vars, l>>
Ev == JTrace[l]

RefOps == {"CopyAssign", "MoveAssign", "PreInc", "PreDec", "AddAssign", "SubAssign",
           "SpanCopyAssign", "SpanMoveAssign"}

SpanObsMatch(o, e) == /\ o[1] = e[1] /\ o[2] = e[2] /\ o[3] = e[3]
                      /\ o[4] = -1 \/ o[4] = e[4]

CovIdx(name) == 100 + (CHOOSE i \in 1..Len(Hdr.ops) : Hdr.ops[i] = name)
Cov(name) == TLCSet(CovIdx(name), TLCGet(CovIdx(name)) + 1)

TOp ==
  /\ Ev.e \notin {"Probe", "Foreign", "end"}
  /\ Do(Ev)
  /\ act'.res = Ev.res
  /\ act'.op = Ev.e /\ act'.x = Ev.x /\ act'.y = Ev.y /\ act'.z = Ev.z /\ act'.u = Ev.u
  /\ (Ev.e \in RefOps) => Ev.ref = 1
  /\ Len(Ev.w) = NW /\ \A d \in WS : ObsW'[d] = Ev.w[d]
  /\ Len(Ev.s) = NS /\ \A t \in SS : SpanObsMatch(ObsS'[t], Ev.s[t])
  /\ Cov(Ev.e)

Rejected == Assertions /\ ~QuiescentAllowed

TProbe ==
  /\ Ev.e = "Probe"
  /\ IF Rejected
     THEN Ev.sig = 6 /\ Ev.stage = 0
     ELSE Ev.sig = 0 /\ Ev.exit = 0 /\ Ev.stage = (IF Ev.k = "q" THEN 1 ELSE 2)
  /\ Cov(IF Rejected THEN "ProbeRejected" ELSE "ProbeAccepted")
  /\ UNCHANGED vars

\* another thread destroyed and re-created a wrapper of its own and passed through a
\* quiescent state (--foreign): this thread's registry is unaffected -- the probes
\* that follow are judged as before
TForeign ==
  /\ Ev.e = "Foreign"
  /\ UNCHANGED vars

\* the recorder's last line: everything has been destroyed
TEnd ==
  /\ Ev.e = "end"
  /\ \A d \in WS : ~w[d].live
  /\ \A t \in SS : ~sp[t].live
  /\ UNCHANGED vars

TNext ==
  /\ l <= Len(JTrace)
  /\ l' = l + 1
  /\ TOp \/ TProbe \/ TForeign \/ TEnd

TInit == /\ Init /\ l = 2
         /\ \A i \in 1..Len(Hdr.ops) : TLCSet(100 + i, 0)

TSpec == TInit /\ [][TNext]_tvars

TraceAccepted ==
  /\ PrintT(<<"COV", [i \in 1..Len(Hdr.ops) |-> <<Hdr.ops[i], TLCGet(100 + i)>>]>>)
  /\ TLCGet("stats").diameter = Len(JTrace)
=============================================================================
