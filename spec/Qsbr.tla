-------------------------------- MODULE Qsbr --------------------------------
(***************************************************************************)
(* unodb's quiescent-state-based reclamation (qsbr.hpp, qsbr.cpp), one     *)
(* action per atomic access of shared state, i.e. per verification hook:   *)
(*   Q_STATE_LOAD / Q_STATE_CAS / Q_STATE_DEC on qsbr::state,              *)
(*   Q_ORPHAN_LOAD / Q_ORPHAN_CAS / Q_ORPHAN_XCHG / Q_ORPHAN_TAIL on the    *)
(*   two orphaned-request lists.                                           *)
(* Everything a thread does between two such accesses is thread-local and  *)
(* folded into the step of the access that precedes it.                    *)
(*                                                                         *)
(* Shared state:  st = [e, tc, tip]  (2-bit epoch, registered threads,     *)
(*                threads still in the previous epoch), orphP, orphC       *)
(*                (lists of request sets, head first).                     *)
(* Per thread:    lsqe last_seen_quiescent_state_epoch, lse last_seen_     *)
(*                epoch, qsec quiescent_states_since_epoch_change (0 / 1), *)
(*                prev / cur  previous/current interval requests, paused.  *)
(*                                                                         *)
(* Clients:  take a reference to a live object, drop references, retire an *)
(* object (on_next_epoch_deallocate), quiescent(), qsbr_pause() (also      *)
(* what thread exit runs), qsbr_resume() (also what thread start runs).    *)
(*                                                                         *)
(* Properties C05 (GracePeriod, NoUseAfterFree) and C06 (NoDoubleFree,     *)
(* ThreadCountExact, ThreeRounds, DrainLeavesNothing).                     *)
(*                                                                         *)
(* ClaimFirst = TRUE is unregister_thread as repaired in /repo (D6):       *)
(* the quitting thread first claims the epoch change with a validated CAS  *)
(* (threads-in-previous 1 -> 0), only then ages the orphan lists, then     *)
(* publishes the new epoch.  ClaimFirst = FALSE is the pinned behaviour    *)
(* (orphans aged before the validating CAS).                               *)
(***************************************************************************)
EXTENDS Integers, Sequences, FiniteSets, TLC

CONSTANTS Threads, Objs,
          Budget,        \* Budget[t]: number of library calls thread t may make
          ClaimFirst,
          TrackRounds,   \* maintain the round ghosts of C06 (multiplies the state space)
          InitPaused,    \* threads that start paused (thread start = qsbr_resume)
          \* protections of the design, TRUE in the faithful model; each FALSE variant is a
          \* plausible slip whose TLC counterexample is replayed on the real code (killer schedule)
          OrphanModeFromClaimWord,        \* orphan handling decides single-thread mode from the word
                                          \* returned by the claiming fetch_sub, not from the earlier load
          UnregInProgressKeepsIntervals,  \* a thread leaving during another thread's epoch change orphans
                                          \* its two request sets as they are (no interval rotation)
          UnregAdvancesBySeenEpoch        \* a leaving thread rotates its request sets only if it has not
                                          \* seen the current epoch (last_seen_epoch), not by its
                                          \* quiescent-state epoch

VARIABLES st, orphP, orphC,           \* shared
          pc, loc,                    \* per thread control state and locals
          live, freed, refs,          \* objects: not yet retired; freed; references held per thread
          reg,                        \* ghost: thread is registered (started-or-resumed, not paused-or-exited)
          budget,
          mustWait,                   \* ghost (C05): per object, threads that must still quiesce
          dbl,                        \* ghost: some object was freed twice
          round, doneRound, qStart, reqRound, soloQ, soloStart   \* ghosts (C06)

vars == <<st, orphP, orphC, pc, loc, live, freed, refs, reg, budget, mustWait, dbl,
          round, doneRound, qStart, reqRound, soloQ, soloStart>>
ghost6 == <<round, doneRound, qStart, reqRound, soloQ, soloStart>>

Nxt(e) == (e + 1) % 4
Single(s) == s.tc < 2                       \* qsbr_state::single_thread_mode
UnionSeq(s) == UNION {s[i] : i \in 1..Len(s)}

InitLoc == [ls |-> [e |-> 0, tc |-> 0, tip |-> 0],   \* old_state / last loaded word
            lsqe |-> 0, lse |-> 0, qsec |-> 0, prev |-> {}, cur |-> {}, paused |-> FALSE,
            prepared |-> FALSE, takenP |-> <<>>, takenC |-> <<>>, oldSingle |-> FALSE,
            single |-> FALSE, arg |-> 0, cont |-> "idle", oldE |-> 0, rfo |-> FALSE, adv |-> FALSE,
            head |-> <<>>]

Init == /\ st = [e |-> 0, tc |-> Cardinality(Threads \ InitPaused), tip |-> Cardinality(Threads \ InitPaused)]
        /\ orphP = <<>> /\ orphC = <<>>
        /\ pc = [t \in Threads |-> "idle"]
        /\ loc = [t \in Threads |-> [InitLoc EXCEPT !.paused = (t \in InitPaused)]]
        /\ live = Objs /\ freed = {} /\ refs = [t \in Threads |-> {}]
        /\ reg = [t \in Threads |-> t \notin InitPaused]
        /\ budget = [t \in Threads |-> Budget[t]]
        /\ mustWait = [o \in Objs |-> {}]
        /\ dbl = FALSE
        /\ round = 0 /\ doneRound = {} /\ qStart = [t \in Threads |-> 0]
        /\ reqRound = [o \in Objs |-> -1] /\ soloQ = 0 /\ soloStart = FALSE

-----------------------------------------------------------------------------
(* thread-local helpers (qsbr_per_thread) *)

\* execute_previous_requests: returns <<locals', set of objects freed>>
ExecPrev(l, single, de, newcur) ==
  LET l1 == [l EXCEPT !.lse = de] IN
  IF ~single THEN <<[l1 EXCEPT !.prev = l.cur, !.cur = newcur], l.prev>>
             ELSE <<[l1 EXCEPT !.prev = {}, !.cur = newcur], l.prev \cup l.cur>>

\* advance_last_seen_epoch
AdvLSE(l, single, e, newcur) == IF e = l.lse THEN <<l, {}>> ELSE ExecPrev(l, single, e, newcur)

\* what a leaving thread does to catch up with the epoch e it leaves in
UnregAdv(l, single, e) ==
  IF UnregAdvancesBySeenEpoch THEN AdvLSE(l, single, e, {})
  ELSE IF l.lsqe # e THEN ExecPrev(l, single, e, {}) ELSE <<l, {}>>

DoFree(S) == /\ freed' = freed \cup S
             /\ dbl' = (dbl \/ (S \cap freed # {}))
NoFree == UNCHANGED <<freed, dbl>>

\* ghost: t enters a quiescent state / pause: nobody has to wait for it any more
Quiesced(t) == mustWait' = [o \in Objs |-> mustWait[o] \ {t}]

-----------------------------------------------------------------------------
(* calls (no shared access: the call boundary itself) *)

CallQ(t) == /\ pc[t] = "idle" /\ budget[t] > 0 /\ ~loc[t].paused /\ refs[t] = {}
            /\ pc' = [pc EXCEPT ![t] = "q1"] /\ budget' = [budget EXCEPT ![t] = @ - 1]
            /\ Quiesced(t)
            /\ UNCHANGED <<st, orphP, orphC, loc, live, freed, refs, reg, dbl>>

CallRetire(t, o) ==
  /\ pc[t] = "idle" /\ budget[t] > 0 /\ ~loc[t].paused /\ o \in live
  /\ live' = live \ {o}
  /\ refs' = [refs EXCEPT ![t] = @ \ {o}]
  /\ loc' = [loc EXCEPT ![t].arg = o]
  \* C05: every other thread that is registered and not inside a quiescent
  \* state / pause at this moment has yet to pass through one
  /\ mustWait' = [mustWait EXCEPT ![o] = {u \in Threads \ {t} : reg[u] /\ pc[u] \in {"idle", "d1"}}]
  /\ pc' = [pc EXCEPT ![t] = "d1"] /\ budget' = [budget EXCEPT ![t] = @ - 1]
  /\ UNCHANGED <<st, orphP, orphC, freed, reg, dbl>>

TakeRef(t, o) == /\ pc[t] = "idle" /\ ~loc[t].paused /\ o \in live /\ o \notin refs[t]
                 /\ refs' = [refs EXCEPT ![t] = @ \cup {o}]
                 /\ UNCHANGED <<st, orphP, orphC, pc, loc, live, freed, reg, budget, mustWait, dbl>>

DropRefs(t) == /\ pc[t] = "idle" /\ refs[t] # {}
               /\ refs' = [refs EXCEPT ![t] = {}]
               /\ UNCHANGED <<st, orphP, orphC, pc, loc, live, freed, reg, budget, mustWait, dbl>>

CallPause(t) == /\ pc[t] = "idle" /\ budget[t] > 0 /\ ~loc[t].paused /\ refs[t] = {}
                /\ pc' = [pc EXCEPT ![t] = "u1"] /\ budget' = [budget EXCEPT ![t] = @ - 1]
                /\ reg' = [reg EXCEPT ![t] = FALSE] /\ Quiesced(t)
                /\ UNCHANGED <<st, orphP, orphC, loc, live, freed, refs, dbl>>

CallResume(t) == /\ pc[t] = "idle" /\ budget[t] > 0 /\ loc[t].paused
                 /\ pc' = [pc EXCEPT ![t] = "r1"] /\ budget' = [budget EXCEPT ![t] = @ - 1]
                 /\ UNCHANGED <<st, orphP, orphC, loc, live, freed, refs, reg, mustWait, dbl>>

-----------------------------------------------------------------------------
(* quiescent() *)

\* get_state(); advance_last_seen_epoch; epoch bookkeeping
Q1(t) == /\ pc[t] = "q1"
         /\ LET l0 == loc[t]  s == st  single == Single(s)
                r == AdvLSE([l0 EXCEPT !.ls = s, !.single = single], single, s.e, {})
                l1 == r[1]
                l2 == IF s.e # l1.lsqe THEN [l1 EXCEPT !.lsqe = s.e, !.qsec = 0] ELSE l1
            IN /\ DoFree(r[2])
               /\ loc' = [loc EXCEPT ![t] = l2]
               /\ pc' = [pc EXCEPT ![t] = IF l2.qsec = 0 THEN "q2" ELSE "idle"]
         /\ UNCHANGED <<st, orphP, orphC, live, refs, reg, budget, mustWait>>

\* remove_thread_from_previous_epoch: fetch_sub on threads-in-previous
Q2(t) == /\ pc[t] = "q2"
         /\ st' = [st EXCEPT !.tip = @ - 1]
         /\ IF st.tip > 1
              THEN /\ loc' = [loc EXCEPT ![t].qsec = 1] /\ pc' = [pc EXCEPT ![t] = "idle"]
              ELSE /\ loc' = [loc EXCEPT ![t].oldSingle = IF OrphanModeFromClaimWord THEN Single(st) ELSE loc[t].single,
                                          ![t].cont = "q4"]
                   /\ pc' = [pc EXCEPT ![t] = "o1"]
         /\ UNCHANGED <<orphP, orphC, live, freed, refs, reg, budget, mustWait, dbl>>

(* epoch_change_barrier_and_handle_orphans *)
\* take_orphan_list(previous)
O1(t) == /\ pc[t] = "o1"
         /\ loc' = [loc EXCEPT ![t].takenP = orphP] /\ orphP' = <<>>
         /\ pc' = [pc EXCEPT ![t] = "o2"]
         /\ UNCHANGED <<st, orphC, live, freed, refs, reg, budget, mustWait, dbl>>
\* take_orphan_list(current); free the previous batch; in single-thread mode
\* also the current batch
O2(t) == /\ pc[t] = "o2"
         /\ orphC' = <<>>
         /\ IF loc[t].oldSingle
              THEN /\ DoFree(UnionSeq(loc[t].takenP) \cup UnionSeq(orphC))
                   /\ loc' = [loc EXCEPT ![t].takenC = <<>>]
                   /\ pc' = [pc EXCEPT ![t] = loc[t].cont]
              ELSE /\ DoFree(UnionSeq(loc[t].takenP))
                   /\ loc' = [loc EXCEPT ![t].takenC = orphC]
                   /\ pc' = [pc EXCEPT ![t] = "o3"]
         /\ UNCHANGED <<st, orphP, live, refs, reg, budget, mustWait>>
\* CAS previous list head: null -> taken current batch
O3(t) == /\ pc[t] = "o3"
         /\ IF orphP = <<>>
              THEN /\ orphP' = loc[t].takenC /\ pc' = [pc EXCEPT ![t] = loc[t].cont]
              ELSE /\ pc' = [pc EXCEPT ![t] = "o3b"] /\ UNCHANGED orphP
         /\ UNCHANGED <<st, orphC, loc, live, freed, refs, reg, budget, mustWait, dbl>>
\* somebody pushed new previous requests meanwhile: append at the tail
O3b(t) == /\ pc[t] = "o3b"
          /\ orphP' = orphP \o loc[t].takenC /\ pc' = [pc EXCEPT ![t] = loc[t].cont]
          /\ UNCHANGED <<st, orphC, loc, live, freed, refs, reg, budget, mustWait, dbl>>

(* change_epoch: load, CAS loop *)
Q4(t) == /\ pc[t] = "q4"
         /\ loc' = [loc EXCEPT ![t].ls = st] /\ pc' = [pc EXCEPT ![t] = "q5"]
         /\ UNCHANGED <<st, orphP, orphC, live, freed, refs, reg, budget, mustWait, dbl>>
Q5(t) == /\ pc[t] = "q5"
         /\ IF st = loc[t].ls
              THEN LET ne == Nxt(st.e)
                       r == ExecPrev([loc[t] EXCEPT !.lsqe = ne], loc[t].single, ne, {})
                   IN /\ st' = [e |-> ne, tc |-> st.tc, tip |-> st.tc]
                      /\ loc' = [loc EXCEPT ![t] = r[1]]
                      /\ DoFree(r[2])
                      /\ pc' = [pc EXCEPT ![t] = "idle"]
              ELSE /\ loc' = [loc EXCEPT ![t].ls = st] /\ UNCHANGED <<st, pc, freed, dbl>>
         /\ UNCHANGED <<orphP, orphC, live, refs, reg, budget, mustWait>>

-----------------------------------------------------------------------------
(* on_next_epoch_deallocate: one load of the state word *)
D1(t) == /\ pc[t] = "d1"
         /\ LET s == st  single == Single(s)  l0 == loc[t]  o == l0.arg
            IN IF single
                 THEN LET r == AdvLSE(l0, single, s.e, {})
                      IN /\ loc' = [loc EXCEPT ![t] = r[1]] /\ DoFree(r[2] \cup {o})
                 ELSE IF l0.lse # s.e
                   THEN LET r == AdvLSE(l0, single, s.e, {o})
                        IN /\ loc' = [loc EXCEPT ![t] = r[1]] /\ DoFree(r[2])
                   ELSE /\ loc' = [loc EXCEPT ![t].cur = @ \cup {o}] /\ NoFree
         /\ pc' = [pc EXCEPT ![t] = "idle"]
         /\ UNCHANGED <<st, orphP, orphC, live, refs, reg, budget, mustWait>>

-----------------------------------------------------------------------------
(* register_thread (qsbr_resume, thread start) *)
FinishResume(t, e) ==
  /\ loc' = [loc EXCEPT ![t].lsqe = e, ![t].lse = e, ![t].qsec = 0, ![t].paused = FALSE]
  /\ reg' = [reg EXCEPT ![t] = TRUE]
  /\ pc' = [pc EXCEPT ![t] = "idle"]
R1(t) == /\ pc[t] = "r1" /\ loc' = [loc EXCEPT ![t].ls = st] /\ pc' = [pc EXCEPT ![t] = "r2"]
         /\ UNCHANGED <<st, orphP, orphC, live, freed, refs, reg, budget, mustWait, dbl>>
R2(t) == /\ pc[t] = "r2"
         /\ LET s == loc[t].ls IN
            IF st # s THEN /\ loc' = [loc EXCEPT ![t].ls = st] /\ UNCHANGED <<st, pc, reg>>
            ELSE IF s.tip > 0 \/ s.tc = 0
              THEN /\ st' = [st EXCEPT !.tc = @ + 1, !.tip = @ + 1] /\ FinishResume(t, s.e)
              ELSE \* epoch change in progress: bump the thread count only, then spin
                   /\ st' = [st EXCEPT !.tc = @ + 1]
                   /\ loc' = [loc EXCEPT ![t].oldE = s.e] /\ pc' = [pc EXCEPT ![t] = "r4"]
                   /\ UNCHANGED reg
         /\ UNCHANGED <<orphP, orphC, live, freed, refs, budget, mustWait, dbl>>
\* spin until the epoch change completes (each iteration loads the word; the
\* iterations that see the old epoch are stuttering steps)
R4(t) == /\ pc[t] = "r4" /\ st.e # loc[t].oldE
         /\ FinishResume(t, st.e)
         /\ UNCHANGED <<st, orphP, orphC, live, freed, refs, budget, mustWait, dbl>>

-----------------------------------------------------------------------------
(* unregister_thread (qsbr_pause, thread exit) *)

\* what the loop body decides from the word it holds in ls (thread-local)
UDecide(t, l0) ==
  LET s == l0.ls IN
  IF s.tip = 0 THEN <<l0, "u2a">>
  ELSE LET rfo == (l0.lsqe # s.e) \/ (l0.qsec = 0)
           adv == rfo /\ s.tip = 1
           l1 == [l0 EXCEPT !.rfo = rfo, !.adv = adv, !.oldSingle = Single(s)]
       IN IF adv /\ ~l0.prepared
            THEN IF ClaimFirst THEN <<[l1 EXCEPT !.cont = "ug"], "uc">>
                               ELSE <<[l1 EXCEPT !.prepared = TRUE, !.cont = "u3"], "o1">>
            ELSE <<l1, "u3">>

\* after the state CAS succeeded: orphan_pending_requests skips empty vectors
AfterUnreg(l) == IF l.prev # {} THEN "p1" ELSE IF l.cur # {} THEN "p2" ELSE "idle"
\* qsbr_pause returns (paused = true) as soon as nothing is left to push
Park(l, nextpc) == IF nextpc = "idle" THEN [l EXCEPT !.paused = TRUE] ELSE l

U1(t) == /\ pc[t] = "u1"
         /\ LET d == UDecide(t, [loc[t] EXCEPT !.ls = st, !.prepared = FALSE])
            IN loc' = [loc EXCEPT ![t] = d[1]] /\ pc' = [pc EXCEPT ![t] = d[2]]
         /\ UNCHANGED <<st, orphP, orphC, live, freed, refs, reg, budget, mustWait, dbl>>

\* epoch change in progress: decrement the thread count only
U2a(t) == /\ pc[t] = "u2a"
          /\ IF st = loc[t].ls
               THEN LET l1 == IF UnregInProgressKeepsIntervals THEN loc[t]
                                   ELSE [loc[t] EXCEPT !.prev = loc[t].cur, !.cur = {}] IN
                    /\ st' = [st EXCEPT !.tc = @ - 1]
                    /\ pc' = [pc EXCEPT ![t] = AfterUnreg(l1)]
                    /\ loc' = [loc EXCEPT ![t] = Park(l1, AfterUnreg(l1))]
                    /\ IF UnregInProgressKeepsIntervals THEN NoFree ELSE DoFree(loc[t].prev)
               ELSE LET d == UDecide(t, [loc[t] EXCEPT !.ls = st])
                    IN loc' = [loc EXCEPT ![t] = d[1]] /\ pc' = [pc EXCEPT ![t] = d[2]] /\ UNCHANGED st
          /\ UNCHANGED <<orphP, orphC, live, freed, refs, reg, budget, mustWait, dbl>>

\* the validating CAS of the pinned code
U3(t) == /\ pc[t] = "u3"
         /\ LET s == loc[t].ls  l == loc[t] IN
            IF st # s
              THEN LET d == UDecide(t, [l EXCEPT !.ls = st])
                   IN /\ loc' = [loc EXCEPT ![t] = d[1]] /\ pc' = [pc EXCEPT ![t] = d[2]]
                      /\ UNCHANGED st /\ NoFree
              ELSE LET new == IF l.rfo THEN (IF l.adv THEN [e |-> Nxt(s.e), tc |-> s.tc - 1, tip |-> s.tc - 1]
                                                      ELSE [e |-> s.e, tc |-> s.tc - 1, tip |-> s.tip - 1])
                                        ELSE [e |-> s.e, tc |-> s.tc - 1, tip |-> s.tip]
                       r1 == UnregAdv(l, l.oldSingle, s.e)
                       r2 == IF l.adv THEN ExecPrev(r1[1], l.oldSingle, Nxt(s.e), {}) ELSE <<r1[1], {}>>
                   IN /\ st' = new
                      /\ loc' = [loc EXCEPT ![t] = Park(r2[1], AfterUnreg(r2[1]))]
                      /\ DoFree(r1[2] \cup r2[2])
                      /\ pc' = [pc EXCEPT ![t] = AfterUnreg(r2[1])]
         /\ UNCHANGED <<orphP, orphC, live, refs, reg, budget, mustWait>>

\* repaired variant: claim the epoch change (threads-in-previous 1 -> 0) with a
\* CAS that validates the loaded word ...
UC(t) == /\ pc[t] = "uc"
         /\ IF st = loc[t].ls
              THEN /\ st' = [st EXCEPT !.tip = 0] /\ pc' = [pc EXCEPT ![t] = "o1"]
                   /\ loc' = [loc EXCEPT ![t].ls = [st EXCEPT !.tip = 0]]
              ELSE LET d == UDecide(t, [loc[t] EXCEPT !.ls = st])
                   IN loc' = [loc EXCEPT ![t] = d[1]] /\ pc' = [pc EXCEPT ![t] = d[2]] /\ UNCHANGED st
         /\ UNCHANGED <<orphP, orphC, live, freed, refs, reg, budget, mustWait, dbl>>
\* ... age the orphans (o1..o3b), then publish epoch+1, threads-1 with a CAS
\* loop starting from the claimed word (only the thread count can change meanwhile)
UG(t) == /\ pc[t] = "ug"
         /\ IF st = loc[t].ls
              THEN LET s == st  l == loc[t]
                       r1 == UnregAdv(l, l.oldSingle, s.e)
                       r2 == ExecPrev(r1[1], l.oldSingle, Nxt(s.e), {})
                   IN /\ st' = [e |-> Nxt(s.e), tc |-> s.tc - 1, tip |-> s.tc - 1]
                      /\ loc' = [loc EXCEPT ![t] = Park(r2[1], AfterUnreg(r2[1]))]
                      /\ DoFree(r1[2] \cup r2[2])
                      /\ pc' = [pc EXCEPT ![t] = AfterUnreg(r2[1])]
              ELSE /\ loc' = [loc EXCEPT ![t].ls = st] /\ UNCHANGED <<st, pc>> /\ NoFree
         /\ UNCHANGED <<orphP, orphC, live, refs, reg, budget, mustWait>>

(* orphan_pending_requests: push the two request vectors (load head, CAS) *)
P1(t) == /\ pc[t] = "p1" /\ loc' = [loc EXCEPT ![t].head = orphP] /\ pc' = [pc EXCEPT ![t] = "p1c"]
         /\ UNCHANGED <<st, orphP, orphC, live, freed, refs, reg, budget, mustWait, dbl>>
P1c(t) == /\ pc[t] = "p1c"
          /\ IF orphP = loc[t].head
               THEN /\ orphP' = <<loc[t].prev>> \o orphP
                    /\ loc' = [loc EXCEPT ![t] = Park([loc[t] EXCEPT !.prev = {}], IF loc[t].cur # {} THEN "p2" ELSE "idle")]
                    /\ pc' = [pc EXCEPT ![t] = IF loc[t].cur # {} THEN "p2" ELSE "idle"]
               ELSE /\ loc' = [loc EXCEPT ![t].head = orphP] /\ UNCHANGED <<orphP, pc>>
          /\ UNCHANGED <<st, orphC, live, freed, refs, reg, budget, mustWait, dbl>>
P2(t) == /\ pc[t] = "p2" /\ loc' = [loc EXCEPT ![t].head = orphC] /\ pc' = [pc EXCEPT ![t] = "p2c"]
         /\ UNCHANGED <<st, orphP, orphC, live, freed, refs, reg, budget, mustWait, dbl>>
P2c(t) == /\ pc[t] = "p2c"
          /\ IF orphC = loc[t].head
               THEN /\ orphC' = <<loc[t].cur>> \o orphC
                    /\ loc' = [loc EXCEPT ![t].cur = {}, ![t].paused = TRUE]
                    /\ pc' = [pc EXCEPT ![t] = "idle"]
               ELSE /\ loc' = [loc EXCEPT ![t].head = orphC] /\ UNCHANGED <<orphC, pc>>
          /\ UNCHANGED <<st, orphP, live, freed, refs, reg, budget, mustWait, dbl>>
-----------------------------------------------------------------------------
LibStep(t) == \/ Q1(t) \/ Q2(t) \/ O1(t) \/ O2(t) \/ O3(t) \/ O3b(t) \/ Q4(t) \/ Q5(t)
              \/ D1(t) \/ R1(t) \/ R2(t) \/ R4(t)
              \/ U1(t) \/ U2a(t) \/ U3(t) \/ UC(t) \/ UG(t)
              \/ P1(t) \/ P1c(t) \/ P2(t) \/ P2c(t)
ClientStep(t) == \/ CallQ(t) \/ CallPause(t) \/ CallResume(t) \/ DropRefs(t)
                 \/ \E o \in Objs : CallRetire(t, o) \/ TakeRef(t, o)
Step(t) == LibStep(t) \/ ClientStep(t)

-----------------------------------------------------------------------------
(* C06 ghosts: rounds of quiescent states, the solo drain *)
Retired == Objs \ live
InQuiescentPcs == {"q1", "q2", "q4", "q5"}
RoundUpd(t) ==
  IF ~TrackRounds THEN UNCHANGED ghost6 ELSE
  LET finishedQ == (pc[t] \in {"q1", "q2", "q5"}) /\ pc'[t] = "idle"
      startedQ == pc[t] = "idle" /\ pc'[t] = "q1"
      dr1 == IF finishedQ /\ qStart[t] = round THEN doneRound \cup {t} ELSE doneRound
      regs == {u \in Threads : reg'[u]}
      \* a round completes only while no start, exit, pause or resume is in flight
      quietElsewhere == \A u \in Threads :
           \/ pc'[u] \in {"idle", "d1"} \cup InQuiescentPcs
           \/ (pc'[u] \in {"o1", "o2", "o3", "o3b"} /\ loc'[u].cont = "q4")
      complete == regs # {} /\ regs \subseteq dr1 /\ quietElsewhere
      soloNow == regs = {t} /\ \A u \in Threads \ {t} : pc'[u] = "idle"
      newReq == pc[t] = "idle" /\ pc'[t] = "d1"
  IN /\ round' = IF complete THEN round + 1 ELSE round
     /\ doneRound' = IF complete THEN {} ELSE dr1
     /\ qStart' = IF startedQ THEN [qStart EXCEPT ![t] = round] ELSE qStart
     \* the request call returned during round' (the earliest round that counts is the next full one)
     /\ reqRound' = IF pc[t] = "d1" /\ pc'[t] = "idle" THEN [reqRound EXCEPT ![loc[t].arg] = round'] ELSE reqRound
     /\ soloStart' = IF startedQ THEN soloNow ELSE IF ~soloNow THEN FALSE ELSE soloStart
     /\ soloQ' = IF ~soloNow \/ newReq THEN 0
                 ELSE IF finishedQ /\ soloStart THEN (IF soloQ < 2 THEN soloQ + 1 ELSE 2) ELSE soloQ

Next == \E t \in Threads : Step(t) /\ RoundUpd(t)
Spec == Init /\ [][Next]_vars

-----------------------------------------------------------------------------
(* C05 *)
\* no thread holds a reference to freed memory
NoUseAfterFree == \A t \in Threads : refs[t] \cap freed = {}
\* memory is not freed while a thread that was registered at request time has
\* yet to pass through a quiescent state, pause or exit
GracePeriod == \A o \in freed : mustWait[o] = {}
\* a request is executed at once only when at most one thread is registered:
\* (an object freed in the same step as its request implies single-thread mode)
WordOK == /\ st.tip <= st.tc /\ st.tc <= Cardinality(Threads)
          /\ \A t \in Threads : pc[t] \in {"idle", "q1", "q2", "o1", "o2", "o3", "o3b", "q4", "q5", "d1",
                                            "r1", "r2", "r4", "u1", "u2a", "u3", "uc", "ug", "p1", "p1c", "p2", "p2c"}

(* C06 *)
NoDoubleFree == ~dbl
ThreadCountExact ==
  (\A t \in Threads : pc[t] = "idle") => st.tc = Cardinality({t \in Threads : ~loc[t].paused})
RegGhostExact == \A t \in Threads : pc[t] = "idle" => (reg[t] <=> ~loc[t].paused)
\* freed no later than the end of the third consecutive round after the request
ThreeRounds == TrackRounds =>
  \A o \in Retired : (reqRound[o] >= 0 /\ round >= reqRound[o] + 4) => o \in freed
\* once all but one thread have unregistered, two further quiescent states of
\* the remaining thread leave no request pending anywhere
DrainLeavesNothing == TrackRounds =>
  (soloQ >= 2 => /\ Retired \subseteq freed /\ orphP = <<>> /\ orphC = <<>>
                 /\ \A u \in Threads : loc[u].prev = {} /\ loc[u].cur = {})
\* nothing is lost: when every thread has paused/exited with an empty budget
\* ... requests may legitimately remain orphaned (the library documents that the
\* last thread should pass through two more quiescent states), so loss is judged
\* by DrainLeavesNothing.

Sym == Permutations(Threads)
=============================================================================
