--------------------------- MODULE QsbrFaultTrace ---------------------------
(***************************************************************************)
(* C08 for QSBR: a qsbr_resume(), qsbr_thread construction or deferred-    *)
(* deallocation request that fails with an exception is a stuttering step  *)
(* on the observable QSBR state (registered-thread count, orphaned and own *)
(* pending requests, the retired block, heap bytes in use); repeating the  *)
(* call without the fault succeeds with the normal effect.                 *)
(* Events (harness/qsbr_fault_driver.cpp): obs(vec) fail(op,n,hb,ha)       *)
(* ok(op,n) drained(live) end(points).                                     *)
(***************************************************************************)
EXTENDS Integers, Sequences, TLC, Json, IOUtils
VARIABLES l, last, afterFail, afterOk, base
JTrace == ndJsonDeserialize(IOEnv.TRACE)
Ev == JTrace[l]
tvars == <<l, last, afterFail, afterOk, base>>

TInit == l = 1 /\ last = <<>> /\ afterFail = FALSE /\ afterOk = "" /\ base = <<>> /\ TLCSet(1, 0)

\* the failed call: UNCHANGED on every observable
Fail == /\ Ev.e = "fail"
        /\ TLCSet(1, TLCGet(1) + 1)
        /\ afterFail' = TRUE /\ afterOk' = ""
        /\ UNCHANGED <<last, base>>
Ok == /\ Ev.e = "ok"
      /\ afterOk' = Ev.op /\ afterFail' = FALSE
      /\ UNCHANGED <<last, base>>
Obs == /\ Ev.e = "obs"
       /\ afterFail => Ev.vec = last           \* observably unchanged
       \* the normal effect of the successful call
       /\ afterOk = "resume" => Ev.vec[1] = last[1] + 1
       /\ afterOk = "start" => Ev.vec[1] = last[1] + 1
       /\ afterOk = "retire" => (Ev.vec[1] = last[1] /\ Ev.vec[5] = 0 /\ Ev.vec[6] = 1)
       \* a thread lagging behind the global epoch: the request opens the thread's new current interval
       /\ afterOk = "retire_lagging" => (Ev.vec[1] = last[1] /\ Ev.vec[5] = 0 /\ Ev.vec[6] = 1)
       \* a single registered thread: executed at once
       /\ afterOk = "retire_single" => (Ev.vec[1] = last[1] /\ Ev.vec[1] = 1 /\ Ev.vec[6] = 0)
       /\ last' = Ev.vec /\ afterFail' = FALSE /\ afterOk' = ""
       /\ UNCHANGED base
\* after the drain phase the retired block has been freed
Other == /\ Ev.e \in {"reset", "end"} /\ UNCHANGED <<last, afterFail, afterOk, base>>
Drained == /\ Ev.e = "drained" /\ Ev.live = 0 /\ UNCHANGED <<last, afterFail, afterOk, base>>
\* nothing leaked: every family runs on a thread of its own; once that thread has exited and everything has
\* been drained, the heap bytes in use are what they were before it started.  (Judged there, not between
\* rounds: a live thread may legitimately keep buffers -- request vectors that retain their capacity, a
\* pre-allocated list node that a retry reuses -- and all of that is returned when the thread exits.)
Baseline == /\ Ev.e = "baseline"
            /\ base' = (Ev.op :> Ev.heap) @@ base
            /\ UNCHANGED <<last, afterFail, afterOk>>
After == /\ Ev.e = "after"
         /\ Ev.op \in DOMAIN base /\ Ev.heap = base[Ev.op]
         /\ UNCHANGED <<last, afterFail, afterOk, base>>

TNext == l <= Len(JTrace) /\ l' = l + 1 /\ (Fail \/ Ok \/ Obs \/ Other \/ Drained \/ Baseline \/ After)
TSpec == TInit /\ [][TNext]_tvars
TraceAccepted == /\ PrintT(<<"QFAULTS", TLCGet(1)>>)
                 /\ TLCGet("stats").diameter - 1 = Len(JTrace)
=============================================================================
