------------------------------- MODULE QsbrPtr -------------------------------
(***************************************************************************)
(* unodb::qsbr_ptr<T> / unodb::qsbr_ptr_span<T> (qsbr_ptr.hpp) used by one  *)
(* thread, together with that thread's debug registry of active pointers   *)
(* (qsbr_per_thread::active_ptrs, qsbr.hpp / qsbr.cpp).  Property C17.      *)
(*                                                                         *)
(* Objects live in slots so that construction and destruction are explicit *)
(* steps.  A pointer value is <<buffer, offset>> into one of NB buffers of *)
(* N elements, offsets 0..N (N = one past the end), or Null.  One action   *)
(* per public call of the wrapper API; every action                        *)
(*   - has as its guard the precondition under which the same expression   *)
(*     on raw pointers is defined (arithmetic stays inside                 *)
(*     [begin, one-past-end], dereference below the end, relational        *)
(*     comparison and difference within one array, distinct objects for    *)
(*     assignment, no use of a moved-from span's length);                  *)
(*   - updates `active` by the register/unregister calls the code makes,   *)
(*     in the code's order (qsbr_ptr.hpp line numbers in the comments);    *)
(*   - records itself and its result in `act` (the step's observable).     *)
(*                                                                         *)
(* Invariants: RegistryExact (active = multiset of the addresses held by   *)
(* non-null live wrappers, including the start wrapper inside every live   *)
(* span), LivenessVerdict (quiescent/pause/resume accepted <=> no non-null *)
(* wrapper alive); action property ArithOK (every operator result equals   *)
(* arithmetic on the raw integer addresses).                               *)
(***************************************************************************)
EXTENDS Integers, Sequences, FiniteSets, TLC

CONSTANTS NW,        \* number of wrapper slots
          NS,        \* number of span slots
          NB,        \* number of buffers
          N,         \* elements per buffer
          Data,      \* Data[b][i] = element i-1 of buffer b (an integer byte)
          SpanArgs   \* the <<b, o, n>> explored by Next for "construct from std::span"
                     \* (b = 0: std::span{} with null data); any legal triple is accepted
                     \* by the action itself

VARIABLES w,         \* wrapper slots:  [live, p]
          sp,        \* span slots:     [live, p, n]   (p = the wrapper `start`, n = `length`)
          active,    \* the registry: address -> number of registrations
          act        \* last call and its result (write-only; excluded from VIEWs)

vars == <<w, sp, active, act>>

WS == 1..NW
SS == 1..NS
Null == <<0, 0>>
Addr == (1..NB) \X (0..N)
PtrVal == Addr \cup {Null}

Absent == [live |-> FALSE, p |-> Null]
SAbsent == [live |-> FALSE, p |-> Null, n |-> 0]

-----------------------------------------------------------------------------
(* Raw pointers: the reference semantics *)

\* integer address of a pointer value; buffers are far apart, null is 0
Raw(p) == IF p = Null THEN 0 ELSE 1000 * p[1] + p[2]

\* p + n is defined: stays within [begin, one-past-end]; nullptr + 0 is defined
CanAdd(p, n) == IF p = Null THEN n = 0 ELSE p[2] + n \in 0..N
Add(p, n) == IF p = Null THEN Null ELSE <<p[1], p[2] + n>>
\* p - q, p < q, ... are defined: same array, or both null
SameArray(p, q) == IF p = Null \/ q = Null THEN p = q ELSE p[1] = q[1]
\* *p / p[n] is defined
CanDeref(p, n) == p # Null /\ p[2] + n \in 0..(N - 1)
Elem(p, n) == Data[p[1]][p[2] + n + 1]

B2I(b) == IF b THEN 1 ELSE 0

\* a span whose start has been moved away while its length stayed (what the
\* defaulted move operations leave): only destruction, assignment to it,
\* copying/moving it and begin() are used on it
MovedFrom(s) == s.p = Null /\ s.n > 0

-----------------------------------------------------------------------------
(* The registry: qsbr_ptr_base::register_active_ptr / unregister_active_ptr *)
(* (qsbr_ptr.cpp 20-26: no-op for nullptr; qsbr.cpp 136-150: multiset)      *)

Reg(f, p) == IF p = Null THEN f ELSE [f EXCEPT ![p] = @ + 1]
Unreg(f, p) == IF p = Null THEN f ELSE [f EXCEPT ![p] = @ - 1]

A(op, x, y, z, u, res) == [op |-> op, x |-> x, y |-> y, z |-> z, u |-> u, res |-> res]

Live(d) == d \in WS /\ w[d].live
Free(d) == d \in WS /\ ~w[d].live
SLive(t) == t \in SS /\ sp[t].live
SFree(t) == t \in SS /\ ~sp[t].live
Put(d, p) == [live |-> TRUE, p |-> p]

-----------------------------------------------------------------------------
(* qsbr_ptr: construction, destruction, assignment *)

\* explicit qsbr_ptr(pointer)                                    (77-83)
Construct(d, p) ==
  /\ Free(d) /\ p \in PtrVal
  /\ w' = [w EXCEPT ![d] = Put(d, p)]
  /\ active' = Reg(active, p)
  /\ act' = A("Construct", d, p[1], p[2], 0, <<>>)
  /\ UNCHANGED sp

\* qsbr_ptr()                                                    (72)
DefaultConstruct(d) ==
  /\ Free(d)
  /\ w' = [w EXCEPT ![d] = Put(d, Null)]
  /\ act' = A("DefaultConstruct", d, 0, 0, 0, <<>>)
  /\ UNCHANGED <<sp, active>>

\* qsbr_ptr(const qsbr_ptr&)                                     (86-91)
CopyConstruct(d, s) ==
  /\ Free(d) /\ Live(s)
  /\ w' = [w EXCEPT ![d] = Put(d, w[s].p)]
  /\ active' = Reg(active, w[s].p)
  /\ act' = A("CopyConstruct", d, s, 0, 0, <<>>)
  /\ UNCHANGED sp

\* qsbr_ptr(qsbr_ptr&&): the source is left null, the registration moves (96-97)
MoveConstruct(d, s) ==
  /\ Free(d) /\ Live(s)
  /\ w' = [w EXCEPT ![d] = Put(d, w[s].p), ![s] = Put(s, Null)]
  /\ act' = A("MoveConstruct", d, s, 0, 0, <<>>)
  /\ UNCHANGED <<sp, active>>

\* ~qsbr_ptr()                                                   (102-106)
Destroy(d) ==
  /\ Live(d)
  /\ w' = [w EXCEPT ![d] = Absent]
  /\ active' = Unreg(active, w[d].p)
  /\ act' = A("Destroy", d, 0, 0, 0, <<>>)
  /\ UNCHANGED sp

\* operator=(const qsbr_ptr&), distinct objects                  (109-120)
CopyAssign(d, s) ==
  /\ d # s /\ Live(d) /\ Live(s)
  /\ w' = [w EXCEPT ![d] = Put(d, w[s].p)]
  /\ active' = Reg(Unreg(active, w[d].p), w[s].p)
  /\ act' = A("CopyAssign", d, s, 0, 0, <<>>)
  /\ UNCHANGED sp

\* operator=(qsbr_ptr&&), distinct objects: source left null     (123-130)
MoveAssign(d, s) ==
  /\ d # s /\ Live(d) /\ Live(s)
  /\ w' = [w EXCEPT ![d] = Put(d, w[s].p), ![s] = Put(s, Null)]
  /\ active' = Unreg(active, w[d].p)
  /\ act' = A("MoveAssign", d, s, 0, 0, <<>>)
  /\ UNCHANGED sp

-----------------------------------------------------------------------------
(* qsbr_ptr: arithmetic *)

\* the in-place operators: unregister old, change, register new
\* (154-163, 176-185, 199-208, 228-237)
InPlace(name, d, n, zfield) ==
  /\ Live(d) /\ CanAdd(w[d].p, n)
  /\ w' = [w EXCEPT ![d] = Put(d, Add(w[d].p, n))]
  /\ active' = Reg(Unreg(active, w[d].p), Add(w[d].p, n))
  /\ act' = A(name, d, 0, zfield, 0, <<>>)
  /\ UNCHANGED sp

PreInc(d) == Live(d) /\ w[d].p # Null /\ InPlace("PreInc", d, 1, 0)
PreDec(d) == Live(d) /\ w[d].p # Null /\ InPlace("PreDec", d, -1, 0)
AddAssign(d, n) == InPlace("AddAssign", d, n, n)
SubAssign(d, n) == InPlace("SubAssign", d, -n, n)

\* p++ / p--: a copy of the old value is returned into the free slot r, then
\* the in-place operator runs                                     (167-171, 190-194)
PostStep(name, d, r, n) ==
  /\ Live(d) /\ Free(r) /\ w[d].p # Null /\ CanAdd(w[d].p, n)
  /\ w' = [w EXCEPT ![r] = Put(r, w[d].p), ![d] = Put(d, Add(w[d].p, n))]
  /\ active' = Reg(Unreg(Reg(active, w[d].p), w[d].p), Add(w[d].p, n))
  /\ act' = A(name, d, r, 0, 0, <<>>)
  /\ UNCHANGED sp

PostInc(d, r) == PostStep("PostInc", d, r, 1)
PostDec(d, r) == PostStep("PostDec", d, r, -1)

\* p + n, n + p, p - n: a copy is made, changed in place and returned into the
\* free slot r; n + p additionally copies its by-value parameter   (213-246)
Binary(name, r, s, n, zfield) ==
  /\ Free(r) /\ Live(s) /\ CanAdd(w[s].p, n)
  /\ w' = [w EXCEPT ![r] = Put(r, Add(w[s].p, n))]
  /\ active' = Reg(Unreg(Reg(active, w[s].p), w[s].p), Add(w[s].p, n))
  /\ act' = A(name, r, s, zfield, 0, <<>>)
  /\ UNCHANGED sp

Plus(r, s, n) == Binary("Plus", r, s, n, n)
IntPlus(r, s, n) == Binary("IntPlus", r, s, n, n)
Minus(r, s, n) == Binary("Minus", r, s, -n, n)

-----------------------------------------------------------------------------
(* qsbr_ptr: read-only operators (by-value parameters are copied and         *)
(* destroyed within the call: the registry is unchanged)                     *)

ReadOnly(a) == act' = a /\ UNCHANGED <<w, sp, active>>

\* p - q                                                         (249-252)
Diff(a, b) ==
  /\ Live(a) /\ Live(b) /\ SameArray(w[a].p, w[b].p)
  /\ ReadOnly(A("Diff", a, b, 0, 0, <<w[a].p[2] - w[b].p[2]>>))

CmpNames == {"Eq", "Ne", "Lt", "Le", "Gt", "Ge"}
CmpRes(name, p, q) ==
  CASE name = "Eq" -> p = q
    [] name = "Ne" -> p # q
    [] name = "Lt" -> p[2] < q[2]
    [] name = "Le" -> p[2] <= q[2]
    [] name = "Gt" -> p[2] > q[2]
    [] name = "Ge" -> p[2] >= q[2]

\* == != < <= > >=  (!= is the rewritten ==)                      (255-282)
Cmp(name, a, b) ==
  /\ name \in CmpNames /\ Live(a) /\ Live(b)
  /\ IF name \in {"Eq", "Ne"} THEN TRUE ELSE SameArray(w[a].p, w[b].p)
  /\ ReadOnly(A(name, a, b, 0, 0, <<B2I(CmpRes(name, w[a].p, w[b].p))>>))

\* *p, p[n], p.operator->()                                      (135-150)
Deref(s) ==
  /\ Live(s) /\ CanDeref(w[s].p, 0)
  /\ ReadOnly(A("Deref", s, 0, 0, 0, <<Elem(w[s].p, 0)>>))
Index(s, n) ==
  /\ Live(s) /\ CanDeref(w[s].p, n)
  /\ ReadOnly(A("Index", s, 0, n, 0, <<Elem(w[s].p, n)>>))
Arrow(s) ==
  /\ Live(s)
  /\ ReadOnly(A("Arrow", s, 0, 0, 0, <<w[s].p[1], w[s].p[2]>>))

-----------------------------------------------------------------------------
(* qsbr_ptr_span: a wrapper `start` plus a length; the special members are   *)
(* defaulted, i.e. member-wise                                     (301-358) *)

SPut(p, n) == [live |-> TRUE, p |-> p, n |-> n]

\* explicit qsbr_ptr_span(const std::span<T>&)                    (313-314)
LegalSpanArg(b, o, n) == \/ b = 0 /\ o = 0 /\ n = 0
                         \/ b \in 1..NB /\ o \in 0..N /\ n \in 0..(N - o)
SpanFromStd(t, b, o, n) ==
  /\ SFree(t) /\ LegalSpanArg(b, o, n)
  /\ sp' = [sp EXCEPT ![t] = SPut(<<b, o>>, n)]
  /\ active' = Reg(active, <<b, o>>)
  /\ act' = A("SpanFromStd", t, b, o, n, <<>>)
  /\ UNCHANGED w

\* qsbr_ptr_span()                                                (305-306)
SpanDefault(t) ==
  /\ SFree(t)
  /\ sp' = [sp EXCEPT ![t] = SPut(Null, 0)]
  /\ act' = A("SpanDefault", t, 0, 0, 0, <<>>)
  /\ UNCHANGED <<w, active>>

SpanCopy(t, s) ==
  /\ SFree(t) /\ SLive(s)
  /\ sp' = [sp EXCEPT ![t] = SPut(sp[s].p, sp[s].n)]
  /\ active' = Reg(active, sp[s].p)
  /\ act' = A("SpanCopy", t, s, 0, 0, <<>>)
  /\ UNCHANGED w

\* the source keeps its length, its start becomes null
SpanMove(t, s) ==
  /\ SFree(t) /\ SLive(s)
  /\ sp' = [sp EXCEPT ![t] = SPut(sp[s].p, sp[s].n), ![s] = SPut(Null, sp[s].n)]
  /\ act' = A("SpanMove", t, s, 0, 0, <<>>)
  /\ UNCHANGED <<w, active>>

SpanCopyAssign(t, s) ==
  /\ t # s /\ SLive(t) /\ SLive(s)
  /\ sp' = [sp EXCEPT ![t] = SPut(sp[s].p, sp[s].n)]
  /\ active' = Reg(Unreg(active, sp[t].p), sp[s].p)
  /\ act' = A("SpanCopyAssign", t, s, 0, 0, <<>>)
  /\ UNCHANGED w

SpanMoveAssign(t, s) ==
  /\ t # s /\ SLive(t) /\ SLive(s)
  /\ sp' = [sp EXCEPT ![t] = SPut(sp[s].p, sp[s].n), ![s] = SPut(Null, sp[s].n)]
  /\ active' = Unreg(active, sp[t].p)
  /\ act' = A("SpanMoveAssign", t, s, 0, 0, <<>>)
  /\ UNCHANGED w

SpanDestroy(t) ==
  /\ SLive(t)
  /\ sp' = [sp EXCEPT ![t] = SAbsent]
  /\ active' = Unreg(active, sp[t].p)
  /\ act' = A("SpanDestroy", t, 0, 0, 0, <<>>)
  /\ UNCHANGED w

\* begin(): a copy of start, into the free wrapper slot r          (336-338)
SpanBegin(r, t) ==
  /\ Free(r) /\ SLive(t)
  /\ w' = [w EXCEPT ![r] = Put(r, sp[t].p)]
  /\ active' = Reg(active, sp[t].p)
  /\ act' = A("SpanBegin", r, t, 0, 0, <<>>)
  /\ UNCHANGED sp

\* end(): qsbr_ptr{start.get() + length}                          (342-344)
SpanEnd(r, t) ==
  /\ Free(r) /\ SLive(t) /\ ~MovedFrom(sp[t])
  /\ w' = [w EXCEPT ![r] = Put(r, Add(sp[t].p, sp[t].n))]
  /\ active' = Reg(active, Add(sp[t].p, sp[t].n))
  /\ act' = A("SpanEnd", r, t, 0, 0, <<>>)
  /\ UNCHANGED sp

\* size()                                                         (348-350)
SpanSize(t) ==
  /\ SLive(t) /\ ~MovedFrom(sp[t])
  /\ ReadOnly(A("SpanSize", t, 0, 0, 0, <<sp[t].n>>))

\* the element sequence obtained by iterating begin()..end(): that of the
\* std::span the span was built from
SpanElems(t) ==
  /\ SLive(t) /\ ~MovedFrom(sp[t])
  /\ ReadOnly(A("SpanElems", t, 0, 0, 0, [i \in 1..sp[t].n |-> Elem(sp[t].p, i - 1)]))

-----------------------------------------------------------------------------

Init == /\ w = [d \in WS |-> Absent]
        /\ sp = [t \in SS |-> SAbsent]
        /\ active = [a \in Addr |-> 0]
        /\ act = A("Init", 0, 0, 0, 0, <<>>)

Offs == (-N)..N

Next ==
  \/ \E d \in WS, p \in PtrVal : Construct(d, p)
  \/ \E d \in WS : DefaultConstruct(d) \/ Destroy(d) \/ PreInc(d) \/ PreDec(d)
                   \/ Deref(d) \/ Arrow(d)
  \/ \E d \in WS, s \in WS : \/ CopyConstruct(d, s) \/ MoveConstruct(d, s)
                             \/ CopyAssign(d, s) \/ MoveAssign(d, s)
                             \/ PostInc(d, s) \/ PostDec(d, s) \/ Diff(d, s)
                             \/ \E c \in CmpNames : Cmp(c, d, s)
  \/ \E d \in WS, n \in Offs : AddAssign(d, n) \/ SubAssign(d, n) \/ Index(d, n)
  \/ \E r \in WS, s \in WS, n \in Offs : Plus(r, s, n) \/ IntPlus(r, s, n) \/ Minus(r, s, n)
  \/ \E t \in SS, a \in SpanArgs : SpanFromStd(t, a[1], a[2], a[3])
  \/ \E t \in SS : SpanDefault(t) \/ SpanDestroy(t) \/ SpanSize(t) \/ SpanElems(t)
  \/ \E t \in SS, s \in SS : \/ SpanCopy(t, s) \/ SpanMove(t, s)
                             \/ SpanCopyAssign(t, s) \/ SpanMoveAssign(t, s)
  \/ \E r \in WS, t \in SS : SpanBegin(r, t) \/ SpanEnd(r, t)

\* the same actions addressed by a recorded event [e, x, y, z, u] (trace validation)
Do(e) ==
  CASE e.e = "Construct"        -> Construct(e.x, <<e.y, e.z>>)
    [] e.e = "DefaultConstruct" -> DefaultConstruct(e.x)
    [] e.e = "CopyConstruct"    -> CopyConstruct(e.x, e.y)
    [] e.e = "MoveConstruct"    -> MoveConstruct(e.x, e.y)
    [] e.e = "Destroy"          -> Destroy(e.x)
    [] e.e = "CopyAssign"       -> CopyAssign(e.x, e.y)
    [] e.e = "MoveAssign"       -> MoveAssign(e.x, e.y)
    [] e.e = "PreInc"           -> PreInc(e.x)
    [] e.e = "PreDec"           -> PreDec(e.x)
    [] e.e = "PostInc"          -> PostInc(e.x, e.y)
    [] e.e = "PostDec"          -> PostDec(e.x, e.y)
    [] e.e = "AddAssign"        -> AddAssign(e.x, e.z)
    [] e.e = "SubAssign"        -> SubAssign(e.x, e.z)
    [] e.e = "Plus"             -> Plus(e.x, e.y, e.z)
    [] e.e = "IntPlus"          -> IntPlus(e.x, e.y, e.z)
    [] e.e = "Minus"            -> Minus(e.x, e.y, e.z)
    [] e.e = "Diff"             -> Diff(e.x, e.y)
    [] e.e \in CmpNames         -> Cmp(e.e, e.x, e.y)
    [] e.e = "Deref"            -> Deref(e.x)
    [] e.e = "Index"            -> Index(e.x, e.z)
    [] e.e = "Arrow"            -> Arrow(e.x)
    [] e.e = "SpanFromStd"      -> SpanFromStd(e.x, e.y, e.z, e.u)
    [] e.e = "SpanDefault"      -> SpanDefault(e.x)
    [] e.e = "SpanCopy"         -> SpanCopy(e.x, e.y)
    [] e.e = "SpanMove"         -> SpanMove(e.x, e.y)
    [] e.e = "SpanCopyAssign"   -> SpanCopyAssign(e.x, e.y)
    [] e.e = "SpanMoveAssign"   -> SpanMoveAssign(e.x, e.y)
    [] e.e = "SpanDestroy"      -> SpanDestroy(e.x)
    [] e.e = "SpanBegin"        -> SpanBegin(e.x, e.y)
    [] e.e = "SpanEnd"          -> SpanEnd(e.x, e.y)
    [] e.e = "SpanSize"         -> SpanSize(e.x)
    [] e.e = "SpanElems"        -> SpanElems(e.x)
    [] OTHER                    -> FALSE

Spec == Init /\ [][Next]_vars

-----------------------------------------------------------------------------
(* Observables *)

\* what the harness reads back after every step: get() of every live wrapper,
\* begin().get() and size() of every live span (the length of a moved-from
\* span is not part of the contract: -1 = not compared)
ObsW == [d \in WS |-> IF w[d].live THEN <<1, w[d].p[1], w[d].p[2]>> ELSE <<0, 0, 0>>]
ObsS == [t \in SS |-> IF sp[t].live
                      THEN <<1, sp[t].p[1], sp[t].p[2], IF MovedFrom(sp[t]) THEN -1 ELSE sp[t].n>>
                      ELSE <<0, 0, 0, 0>>]

\* the verdict of quiescent() / qsbr_pause() / qsbr_resume() in an
\* assertion-enabled build (qsbr.hpp 1395, 1482, 1496)
QuiescentAllowed == \A a \in Addr : active[a] = 0

-----------------------------------------------------------------------------
(* Properties *)

TypeOK ==
  /\ w \in [WS -> [live : BOOLEAN, p : PtrVal]]
  /\ sp \in [SS -> [live : BOOLEAN, p : PtrVal, n : 0..N]]
  /\ active \in [Addr -> Nat]          \* never unregisters what is not registered
  /\ \A d \in WS : ~w[d].live => w[d] = Absent
  /\ \A t \in SS : ~sp[t].live => sp[t] = SAbsent
  /\ \A t \in SS : sp[t].p # Null => sp[t].p[2] + sp[t].n <= N

Holders(a) == Cardinality({d \in WS : w[d].live /\ w[d].p = a})
              + Cardinality({t \in SS : sp[t].live /\ sp[t].p = a})

\* the registry is exactly the multiset of addresses held by live non-null wrappers
RegistryExact == active = [a \in Addr |-> Holders(a)]

NonNullAlive == \/ \E d \in WS : w[d].live /\ w[d].p # Null
                \/ \E t \in SS : sp[t].live /\ sp[t].p # Null

\* rejected precisely when a non-null wrapper is alive
LivenessVerdict == QuiescentAllowed <=> ~NonNullAlive

\* every operator result equals arithmetic / comparison on the integer addresses
ArithOK ==
  LET a == act' IN
  /\ a.op \in {"PreInc", "PostInc"} => Raw(w'[a.x].p) = Raw(w[a.x].p) + 1
  /\ a.op \in {"PreDec", "PostDec"} => Raw(w'[a.x].p) = Raw(w[a.x].p) - 1
  /\ a.op \in {"PostInc", "PostDec"} => Raw(w'[a.y].p) = Raw(w[a.x].p)
  /\ a.op = "AddAssign" => Raw(w'[a.x].p) = Raw(w[a.x].p) + a.z
  /\ a.op = "SubAssign" => Raw(w'[a.x].p) = Raw(w[a.x].p) - a.z
  /\ a.op \in {"Plus", "IntPlus"} => Raw(w'[a.x].p) = Raw(w[a.y].p) + a.z /\ w'[a.y] = w[a.y]
  /\ a.op = "Minus" => Raw(w'[a.x].p) = Raw(w[a.y].p) - a.z /\ w'[a.y] = w[a.y]
  /\ a.op = "Diff" => a.res = <<Raw(w[a.x].p) - Raw(w[a.y].p)>>
  /\ a.op = "Eq" => a.res = <<B2I(Raw(w[a.x].p) = Raw(w[a.y].p))>>
  /\ a.op = "Ne" => a.res = <<B2I(Raw(w[a.x].p) # Raw(w[a.y].p))>>
  /\ a.op = "Lt" => a.res = <<B2I(Raw(w[a.x].p) < Raw(w[a.y].p))>>
  /\ a.op = "Le" => a.res = <<B2I(Raw(w[a.x].p) <= Raw(w[a.y].p))>>
  /\ a.op = "Gt" => a.res = <<B2I(Raw(w[a.x].p) > Raw(w[a.y].p))>>
  /\ a.op = "Ge" => a.res = <<B2I(Raw(w[a.x].p) >= Raw(w[a.y].p))>>
  /\ a.op \in {"CopyConstruct", "CopyAssign"} => w'[a.x].p = w[a.y].p /\ w'[a.y] = w[a.y]
  /\ a.op \in {"MoveConstruct", "MoveAssign"} => w'[a.x].p = w[a.y].p /\ w'[a.y].p = Null
  /\ a.op = "SpanBegin" => Raw(w'[a.x].p) = Raw(sp[a.y].p)
  /\ a.op = "SpanEnd" => Raw(w'[a.x].p) = Raw(sp[a.y].p) + sp[a.y].n
  /\ a.op = "SpanElems" => /\ Len(a.res) = sp[a.x].n
                           /\ \A i \in 1..Len(a.res) : a.res[i] = Data[sp[a.x].p[1]][sp[a.x].p[2] + i]

ArithProp == [][ArithOK]_vars
=============================================================================
