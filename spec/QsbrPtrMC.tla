------------------------------ MODULE QsbrPtrMC ------------------------------
(***************************************************************************)
(* Model-checking and behaviour-generation instances of QsbrPtr.           *)
(*                                                                         *)
(* MCSpec: exhaustive exploration (optionally to an operation bound        *)
(* MaxSteps).  Every generated transition is printed as one JSON line      *)
(*   {"f": state, "a": action+result, "t": successor, "qa": verdict}       *)
(* so that tools/check_ptr.py can build the labelled state graph, compute  *)
(* an edge cover and replay it into the real wrappers.  `steps` and `act`  *)
(* are excluded from the VIEW (run with one worker when MaxSteps binds:    *)
(* breadth-first order then makes `steps` the distance from Init).         *)
(*                                                                         *)
(* SimSpec: random simulation; the history of actions with the predicted   *)
(* observable state after each is printed once per run by Finish.          *)
(***************************************************************************)
EXTENDS QsbrPtr, Json

CONSTANTS MaxSteps,   \* MCSpec: states at this distance from Init are not expanded
          SimLen      \* SimSpec: operations per simulated behaviour

VARIABLES steps, hist
mcvars == <<vars, steps, hist>>

\* element i of buffer b is 16 b + i (what harness/ptr_driver.cpp stores)
MCData == [b \in 1..NB |-> [i \in 1..N |-> 16 * b + i]]

AllSpanArgs == {<<0, 0, 0>>} \cup {<<b, o, n>> \in (1..NB) \X (0..N) \X (0..N) : o + n <= N}
\* a few spans: a whole buffer, an inner part, an empty one at the end, a null one
FewSpanArgs == {<<0, 0, 0>>, <<1, 0, N>>, <<1, 1, 2>>, <<NB, N, 0>>, <<NB, N - 1, 1>>}
NoSpanArgs == {}

Obs == <<ObsW, ObsS>>
Edge == [f |-> Obs, a |-> act', t |-> Obs', qa |-> QuiescentAllowed']

MCInit == /\ Init /\ steps = 0 /\ hist = <<>>
          /\ PrintT(ToJson([init |-> Obs, qa |-> QuiescentAllowed]))
MCNext == /\ Next
          /\ steps' = steps + 1
          /\ UNCHANGED hist
          /\ PrintT(ToJson(Edge))
MCSpec == MCInit /\ [][MCNext]_mcvars
\* the same without printing, `steps` part of the state (any number of workers)
MCQuietNext == Next /\ steps' = steps + 1 /\ UNCHANGED hist
MCQuietSpec == MCInit /\ [][MCQuietNext]_mcvars
MCQuietView == <<w, sp, active, steps>>
MCView == <<w, sp, active>>
Bound == steps < MaxSteps
MCArithProp == [][ArithOK]_mcvars

SimNext == IF Len(hist) < SimLen
           THEN /\ Next
                /\ hist' = Append(hist, [a |-> act', t |-> Obs', qa |-> QuiescentAllowed'])
                /\ steps' = steps + 1
           ELSE /\ steps = SimLen            \* Finish: the only successor, taken once
                /\ steps' = steps + 1
                /\ PrintT(ToJson([hist |-> hist]))
                /\ UNCHANGED <<vars, hist>>
SimSpec == MCInit /\ [][SimNext]_mcvars
=============================================================================
