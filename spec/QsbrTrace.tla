----------------------------- MODULE QsbrTrace -----------------------------
(***************************************************************************)
(* The QSBR contract (C05, C06) at the level of call boundaries, and the   *)
(* validation of recorded executions of the real library against it.       *)
(*                                                                         *)
(* State is what the properties talk about: which threads are registered,  *)
(* which are inside a call, references held, retired / freed objects, and  *)
(* the ghosts mustWait (C05) and rounds / solo drain (C06), defined        *)
(* exactly as in Qsbr.tla (there they are history variables of the         *)
(* detailed model; here they are recomputed from the observed events).     *)
(* Events (harness/qsbr_driver.cpp, totally ordered by the scheduler):     *)
(*   reset(threads) call(t,op[,o]) ret(t,op) take(t,o) drop(t) free(o)     *)
(*   quiet(tc) drain(unfreed, orphPempty, orphCempty)                      *)
(* A `free` is accepted only if the contract allows it at that moment.     *)
(***************************************************************************)
EXTENDS Integers, Sequences, FiniteSets, TLC, Json, IOUtils

VARIABLES l, T, areg, inCall, arg, arefs, retired, afreed, mw,
          round, doneRound, qStart, reqRound, soloQ, soloStart

JTrace == ndJsonDeserialize(IOEnv.TRACE)
Ev == JTrace[l]
tvars == <<l, T, areg, inCall, arg, arefs, retired, afreed, mw,
           round, doneRound, qStart, reqRound, soloQ, soloStart>>

MaxT == 8
AllT == 1..MaxT
Objs == 0..63

Fresh(n) ==
  /\ T' = 1..n
  /\ areg' = 1..n
  /\ inCall' = [t \in AllT |-> "none"]
  /\ arg' = [t \in AllT |-> -1]
  /\ arefs' = [t \in AllT |-> {}]
  /\ retired' = {} /\ afreed' = {}
  /\ mw' = [o \in Objs |-> {}]
  /\ round' = 0 /\ doneRound' = {} /\ qStart' = [t \in AllT |-> 0]
  /\ reqRound' = [o \in Objs |-> -1] /\ soloQ' = 0 /\ soloStart' = FALSE

\* coverage counters (how often each clause actually demanded something)
Cnt(i) == TLCSet(i, TLCGet(i) + 1)
CFree == 11   \* free events judged
CFreeReg == 12   \* ... while at least one other thread was registered
CImm == 13    \* ... executed at once inside the request call
CQuiet == 14  \* thread-count clause enforced
CDrain == 15  \* drain clause enforced (soloQ >= 2)
CRetire == 16

TInit == /\ \A i \in 11..16 : TLCSet(i, 0)
         /\ l = 1 /\ T = {} /\ areg = {}
         /\ inCall = [t \in AllT |-> "none"] /\ arg = [t \in AllT |-> -1]
         /\ arefs = [t \in AllT |-> {}] /\ retired = {} /\ afreed = {}
         /\ mw = [o \in Objs |-> {}]
         /\ round = 0 /\ doneRound = {} /\ qStart = [t \in AllT |-> 0]
         /\ reqRound = [o \in Objs |-> -1] /\ soloQ = 0 /\ soloStart = FALSE

-----------------------------------------------------------------------------
(* round / solo ghosts, evaluated after every call-boundary event of thread t *)
Rounds(t, startedQ, finishedQ, newReq, retRetire) ==
  LET dr1 == IF finishedQ /\ qStart[t] = round THEN doneRound \cup {t} ELSE doneRound
      regs == areg'
      quietElsewhere == \A u \in T : inCall'[u] \in {"none", "q", "retire"}
      complete == regs # {} /\ regs \subseteq dr1 /\ quietElsewhere
      soloNow == regs = {t} /\ \A u \in T \ {t} : inCall'[u] = "none"
  IN /\ round' = IF complete THEN round + 1 ELSE round
     /\ doneRound' = IF complete THEN {} ELSE dr1
     /\ qStart' = IF startedQ THEN [qStart EXCEPT ![t] = round] ELSE qStart
     /\ reqRound' = IF retRetire THEN [reqRound EXCEPT ![arg[t]] = round'] ELSE reqRound
     /\ soloStart' = IF startedQ THEN soloNow ELSE IF ~soloNow THEN FALSE ELSE soloStart
     /\ soloQ' = IF ~soloNow \/ newReq THEN 0
                 ELSE IF finishedQ /\ soloStart THEN (IF soloQ < 2 THEN soloQ + 1 ELSE 2) ELSE soloQ
NoRounds == UNCHANGED <<round, doneRound, qStart, reqRound, soloQ, soloStart>>

Quiesced(t) == [o \in Objs |-> mw[o] \ {t}]

-----------------------------------------------------------------------------
Call ==
  /\ Ev.e = "call"
  /\ LET t == Ev.t  op == Ev.op IN
     /\ t \in T /\ inCall[t] = "none"
     /\ inCall' = [inCall EXCEPT ![t] = op]
     /\ CASE op = "q" ->
               /\ t \in areg /\ arefs[t] = {}
               /\ mw' = Quiesced(t)
               /\ UNCHANGED <<areg, arg, arefs, retired>>
               /\ Rounds(t, TRUE, FALSE, FALSE, FALSE)
          [] op = "retire" ->
               /\ t \in areg /\ Ev.o \notin retired
               /\ retired' = retired \cup {Ev.o}
               /\ arefs' = [arefs EXCEPT ![t] = @ \ {Ev.o}]
               /\ arg' = [arg EXCEPT ![t] = Ev.o]
               \* C05: registered threads not inside a quiescent state / pause
               /\ mw' = [mw EXCEPT ![Ev.o] = {u \in areg \ {t} : inCall[u] \in {"none", "retire"}}]
               /\ Cnt(CRetire)
               /\ UNCHANGED areg
               /\ Rounds(t, FALSE, FALSE, TRUE, FALSE)
          [] op = "pause" ->
               /\ t \in areg /\ arefs[t] = {}
               /\ areg' = areg \ {t}
               /\ mw' = Quiesced(t)
               /\ UNCHANGED <<arg, arefs, retired>>
               /\ Rounds(t, FALSE, FALSE, FALSE, FALSE)
          [] op = "resume" ->
               /\ t \notin areg
               /\ UNCHANGED <<areg, arg, arefs, retired, mw>>
               /\ Rounds(t, FALSE, FALSE, FALSE, FALSE)
  /\ UNCHANGED <<T, afreed>>

Ret ==
  /\ Ev.e = "ret"
  /\ LET t == Ev.t  op == Ev.op IN
     /\ t \in T /\ inCall[t] = op
     /\ inCall' = [inCall EXCEPT ![t] = "none"]
     /\ areg' = IF op = "resume" THEN areg \cup {t} ELSE areg
     /\ Rounds(t, FALSE, op = "q", FALSE, op = "retire")
  /\ UNCHANGED <<T, arg, arefs, retired, afreed, mw>>

Take ==
  /\ Ev.e = "take"
  /\ Ev.t \in areg /\ inCall[Ev.t] = "none" /\ Ev.o \notin retired
  /\ arefs' = [arefs EXCEPT ![Ev.t] = @ \cup {Ev.o}]
  /\ UNCHANGED <<T, areg, inCall, arg, retired, afreed, mw>> /\ NoRounds

Drop ==
  /\ Ev.e = "drop"
  /\ arefs' = [arefs EXCEPT ![Ev.t] = {}]
  /\ UNCHANGED <<T, areg, inCall, arg, retired, afreed, mw>> /\ NoRounds

\* The contract for the library: a retired object may be freed only once, only
\* when nobody has to be waited for, and at once (inside the request call) only
\* when no other thread is registered.
Free ==
  /\ Ev.e = "free"
  /\ Ev.o \in retired
  /\ Ev.o \notin afreed                                   \* C06: never twice
  /\ mw[Ev.o] = {}                                        \* C05: grace period
  /\ \A t \in T : Ev.o \notin arefs[t]                    \* C05: no reference held (implied by the above)
  /\ (\E t \in T : inCall[t] = "retire" /\ arg[t] = Ev.o) => (\A u \in areg : inCall[u] = "retire" /\ arg[u] = Ev.o)
  /\ Cnt(CFree)
  /\ (areg \ {Ev.t} # {}) => Cnt(CFreeReg)
  /\ (\E t \in T : inCall[t] = "retire" /\ arg[t] = Ev.o) => Cnt(CImm)
  /\ afreed' = afreed \cup {Ev.o}
  /\ UNCHANGED <<T, areg, inCall, arg, arefs, retired, mw>> /\ NoRounds

\* every thread is at a call boundary: the reported thread count is exact (C06)
Quiet ==
  /\ Ev.e = "quiet"
  /\ (\A t \in T : inCall[t] = "none") => (Ev.tc = Cardinality(areg) /\ Cnt(CQuiet))
  /\ UNCHANGED <<T, areg, inCall, arg, arefs, retired, afreed, mw>> /\ NoRounds

\* end of the drain phase (C06)
Drain ==
  /\ Ev.e = "drain"
  /\ soloQ >= 2 => (Ev.unfreed = 0 /\ Ev.orphP /\ Ev.orphC /\ retired \subseteq afreed /\ Cnt(CDrain))
  /\ UNCHANGED <<T, areg, inCall, arg, arefs, retired, afreed, mw>> /\ NoRounds

Reset == /\ Ev.e = "reset" /\ Fresh(Ev.threads)

TNext == /\ l <= Len(JTrace) /\ l' = l + 1
         /\ (Call \/ Ret \/ Take \/ Drop \/ Free \/ Quiet \/ Drain \/ Reset)
TSpec == TInit /\ [][TNext]_tvars

\* C06: freed by the end of the third full round after the request
ThreeRounds == \A o \in retired : (reqRound[o] >= 0 /\ round >= reqRound[o] + 4) => o \in afreed

TraceAccepted == /\ PrintT(<<"QCOV", TLCGet(11), TLCGet(12), TLCGet(13), TLCGet(14), TLCGet(15), TLCGet(16)>>)
                 /\ TLCGet("stats").diameter - 1 = Len(JTrace)
=============================================================================
