SPECIFICATION Spec
CONSTANTS
  Threads = {1,2}
  KeyLen = 3
  Caps <- MCCaps
  MaxNodes = 15
  InitNodes <- MCInitNodes
  InitRoot = 1
  InitNext = 6
  InitAbs <- MCInitAbs
  Programs <- MCPrograms
  QEach = TRUE
  LockRemainingChildOnCollapse = TRUE
  RecheckParentAfterAdd = TRUE
  GetRechecksParent = TRUE
  ObsoleteReplacedNode = TRUE
  RemoveChecksNodeBeforeChildLock = TRUE
INVARIANTS NoBadOutcome OneWriterPerNode NoLockHeldAtReturn NoOrphanLock SpinnersHoldNothing FinalTreeIsMap NoReachableRetired NothingLeaked ShapeOK
CHECK_DEADLOCK TRUE
