---- MODULE OlcArtMC_d4bad ----
EXTENDS OlcArt
MCInitNodes == (1 :> [kind |-> "inode", key |-> <<>>, val |-> 0, prefix |-> <<0>>, ch |-> (0 :> 2 @@ 1 :> 3), cls |-> 1, st |-> "live"] @@ 2 :> [kind |-> "leaf", key |-> <<0, 0, 1>>, val |-> 9001, prefix |-> <<>>, ch |-> <<>>, cls |-> 0, st |-> "live"] @@ 3 :> [kind |-> "inode", key |-> <<>>, val |-> 0, prefix |-> <<>>, ch |-> (1 :> 4 @@ 2 :> 5), cls |-> 1, st |-> "live"] @@ 4 :> [kind |-> "leaf", key |-> <<0, 1, 1>>, val |-> 9002, prefix |-> <<>>, ch |-> <<>>, cls |-> 0, st |-> "live"] @@ 5 :> [kind |-> "leaf", key |-> <<0, 1, 2>>, val |-> 9003, prefix |-> <<>>, ch |-> <<>>, cls |-> 0, st |-> "live"])
MCInitAbs == (<<0, 0, 1>> :> 9001 @@ <<0, 1, 1>> :> 9002 @@ <<0, 1, 2>> :> 9003)
MCPrograms == <<<<[op |-> "get", k |-> <<0, 1, 1>>, v |-> 101]>>, <<[op |-> "rem", k |-> <<0, 0, 1>>, v |-> 201]>>>>
MCCaps == <<4, 16, 48, 256>>
====
