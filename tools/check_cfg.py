"""C16: results independent of build configuration; assertions stay silent.
seq_driver is built in {AVX2, SSE4.1} x {stats on, off} x {assertions, NDEBUG} x
{PAUSE, EMPTY spin} and run with identical seeds on the C01/C02 histories; every
trace is validated against the ONE specification (ArtSeqTrace, all clauses), so
all configurations return what the spec says and hence the same; the per-call
result streams are additionally compared directly.  Assertion-enabled builds
must exit 0.  DESIGN.md section 3.14."""
import hashlib
import itertools
import json
import os
import shutil
import time

import check_seq
import vlib

PROPS = ["C16"]


def config(simd, stats, dbg, spin):
    flags = ["-O1", "-g"] if dbg else ["-O2", "-DNDEBUG"]
    flags += ["-mavx2"] if simd == "avx2" else ["-msse4.1"]
    if stats:
        flags.append("-DUNODB_DETAIL_WITH_STATS")
    flags += ["-DUNODB_SPINLOCK_LOOP_VALUE=%d" % spin, "-D" + vlib.GUARD]
    name = "%s_%s_%s_%s" % (simd, "stats" if stats else "nostats", "assert" if dbg else "ndebug", "pause" if spin == 1 else "empty")
    return ("g++", flags, name)


ALL = [config(a, b, c, d) for a, b, c, d in itertools.product(("avx2", "sse41"), (True, False), (True, False), (1, 2))]
QUICK = [config("avx2", True, True, 1), config("sse41", False, True, 2), config("sse41", True, False, 1),
         config("avx2", False, False, 2)]


def result_stream_hash(path):
    """hash of the per-call results (no statistics): compared across configurations"""
    h = hashlib.sha1()
    n = 0
    with open(path) as f:
        for ln in f:
            e = json.loads(ln)
            if e["e"] in ("init",):
                continue
            for k in ("st", "held"):
                e.pop(k, None)
            h.update(json.dumps(e, sort_keys=True).encode())
            n += 1
    return h.hexdigest(), n


def run(prop, tier, seed):
    t0 = time.time()
    rep = vlib.Report(prop)
    cfgs = QUICK if tier == "quick" else ALL
    specs = []
    for c in cfgs:
        for d, k in check_seq.INSTANCES:
            specs.append(dict(name="seq_%d_%d" % (d, k), harness_srcs=["seq_driver.cpp"], config=c,
                              hflags=["-DSEQ_DB=%d" % d, "-DSEQ_KEY=%d" % k]))
    exes = vlib.build_many(specs)
    tdir = check_seq.trace_dir(prop)
    runs, histories, ops = (1, 11, 100) if tier == "quick" else (6, 11, 250)
    jobs = []
    i = 0
    for c in cfgs:
        for d, k in check_seq.INSTANCES:
            for r in range(runs):
                s = seed * 1000 + r
                jobs.append((c[2], d, k, exes[i], s, os.path.join(tdir, "%s_%d_%d_%d.ndjson" % (c[2], d, k, s))))
            i += 1

    def work(job):
        cname, d, k, exe, s, out = job
        rc, err = check_seq.run_driver(exe, s, histories, ops, out, thorough=False)
        rej, cov, states, nev = ([], {}, 0, 0)
        hh = None
        if os.path.exists(out) and os.path.getsize(out) > 0:
            rej, cov, states, nev = check_seq.validate_isolating(out, "C16")
            hh = result_stream_hash(out)
        return job, rc, err, rej, states, nev, hh

    results = vlib.parallel_map(work, jobs, workers=vlib.NCPU)
    streams = {}
    states = nev_total = 0
    ntraces = 0
    for job, rc, err, rej, st, nev, hh in results:
        cname, d, k, exe, s, out = job
        inst = "%s<%s>" % (check_seq.DB_NAMES[d], check_seq.KEY_NAMES[k])
        states += st
        nev_total += nev
        ntraces += 1
        if rc != 0:
            rep.violation("configuration %s, %s seed %d: process ended abnormally (rc=%s): %s" % (cname, inst, s, rc, err[-400:]),
                          {"configuration": cname, "instance": inst, "seed": s, "stderr": err})
        for iso, line, ev, g in rej:
            keep = os.path.join(vlib.REPLAYS, os.path.basename(iso))
            os.makedirs(vlib.REPLAYS, exist_ok=True)
            shutil.copy(iso, keep)
            rep.violation("configuration %s, %s seed %d generator %s: trace rejected by ArtSeqTrace at line %d: %s"
                          % (cname, inst, s, g, line, check_seq.short_event(ev)),
                          {"configuration": cname, "instance": inst, "seed": s, "trace": keep, "line": line})
        if hh is not None and rc == 0:
            streams.setdefault((d, k, s), {})[cname] = hh
    disagreements = 0
    for key, per in streams.items():
        if len(set(v[0] for v in per.values())) > 1:
            disagreements += 1
            rep.violation("result streams differ between configurations for %s<%s> seed %d: %s"
                          % (check_seq.DB_NAMES[key[0]], check_seq.KEY_NAMES[key[1]], key[2],
                             {c: v[0][:10] for c, v in per.items()}), {"streams": {c: v[0] for c, v in per.items()}})
    rc = rep.finish()
    cov = {
        "states": max(states, 1), "transitions": max(states, 1),
        "traces_validated_against_impl": ntraces,
        "samples": [{"configuration": c[2], "flags": c[1]} for c in cfgs[:4]],
        "configurations": [c[2] for c in cfgs],
        "instances": ["%s<%s>" % (check_seq.DB_NAMES[a], check_seq.KEY_NAMES[b]) for a, b in check_seq.INSTANCES],
        "trace_events_validated": nev_total,
        "result_streams_compared": len(streams), "stream_disagreements": disagreements,
        "exhaustive": tier == "thorough",
    }
    vlib.write_evidence(prop, tier, seed, "model_checking", cov,
                        vlib.ASSUME_COMMON + ["x86-64 only (NEON and generic code paths are not compiled here)",
                                              "histories are generated; assertion behaviour under concurrency is exercised by the C03/C04/C09 runs (assertion-enabled olc_driver), where an abort is reported as a crash"],
                        time.time() - t0, len(rep.violations))
    if rc == 0:
        shutil.rmtree(tdir, ignore_errors=True)
    return rc
