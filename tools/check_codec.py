"""Checks bound to KeyCodec / CodecTrace: C11 (key encoding preserves order),
C12 (decoding inverts encoding; sizes; reset / buffer growth), C15 (prefix
freedom, equality iff normal-equal, text bounds).  DESIGN.md section 3.11.

1. TLC checks the KeyCodec theorems exhaustively on small instances
   (spec/KeyCodecMC.tla, cfg/KeyCodec/*.cfg).
2. harness/codec_driver.cpp records what the real key_encoder / key_decoder do
   (exhaustive 8/16-bit types, stratified + random 32/64-bit integers, float,
   double, text, tuples, encoder reuse / growth, guard page behind maxlen).
3. TLC validates every recorded event against the specification at the real
   widths (spec/CodecTrace.tla), enforcing the clauses of the property checked.
Thorough tier: larger sets, an -O2 -DNDEBUG build as well, and a native sweep
over all 2^32 values of u32 / i32 / float (a C++ monitor of the specification's
successor / round-trip predicate whose would-be violations are judged by TLC).

Environment: VERIF_CODEC_IZP=1 adds the stratum "izp" (texts with an interior
zero byte followed by the run-length bytes - outside C15's quantifier, see
cfg/KeyCodec/text_izp_expected_violation.cfg); default off.
"""
import concurrent.futures as cf
import json
import os
import re
import shutil
import subprocess
import time

import vlib
from vlib import log

PROPS = ["C11", "C12", "C15"]

# cfg -> (expected distinct states = cases + seeds of the instance, what it covers)
MC_INSTANCES = {
    "int8": (131584, "all pairs of 8-bit unsigned and signed integers"),
    "int16": (132792, "every 16-bit unsigned/signed value with its successor, all pairs of 20 boundary values, "
                      "24-bit values around every byte carry with their successors"),
    "float8": (131584, "all pairs of values of the binary formats 1+4+3 and 1+3+4, incl. exact-arithmetic order"),
    "float16": (77363, "binary16 (1+5+10): every value (round trip, widths, code = integer formula, limb split), "
                       "every NaN against 3 NaNs/+inf/max, all pairs of 40 boundary values"),
    "float16chain": (63490, "binary16: the chain of all 63490 non-NaN values in value order (FloatSucc), encoding "
                            "strictly increasing at every step = order preservation for all pairs"),
    "text_m2": (14762, "all pairs of texts of length <= 4 over {0,1,2}, MaxLen 2"),
    "text_m3": (14762, "all pairs of texts of length <= 4 over {0,1,2}, MaxLen 3"),
    "tuple": (134062, "all pairs of 2-tuples of small components, 6 schemas (text/int/float mixes)"),
}
IZP_CFG = "text_izp_expected_violation"

CLAUSE_PROP = {"EncBytes": "C11", "Order": "C11",
               "RoundTrip": "C12", "CanonNaN": "C12", "FixedWidth": "C12", "Reuse": "C12",
               "TextBounds": "C15", "EqualIff": "C15", "PrefixFree": "C15", "GuardFault": "C15", "Header": "C15"}
CRASH_PROP = {"enc": "C11", "dec": "C12", "text": "C15"}

# TLC's pretty printer wraps long tuples over several lines
_RE_REJECT = re.compile(r'<<\s*"REJECT",\s*(\d+),\s*(\d+),\s*"([^"]*)",\s*(\d+),\s*\{(.*?)\}\s*>>', re.S)
_RE_BAD = re.compile(r'<<\s*(\d+),\s*(\d+),\s*"(\w+)"\s*>>')


# ----------------------------------------------------------------------------
# 1. model instances
# ----------------------------------------------------------------------------
def model_check(prop):
    """Run all KeyCodecMC instances (in parallel).  A violation here is an
    inconsistency of the specification itself -> CheckBroken."""
    def one(name):
        w = 1 if name == "float16chain" else 2
        return name, vlib.tlc("KeyCodecMC", "cfg/KeyCodec/%s.cfg" % name, workers=w, timeout=900, deadlock=False, xmx="3g")
    res = vlib.parallel_map(one, list(MC_INSTANCES), workers=len(MC_INSTANCES))
    gen = dist = 0
    detail = {}
    for name, r in res:
        if r.error:
            raise vlib.CheckBroken(r.error)
        if r.violation:
            raise vlib.CheckBroken("KeyCodec theorem violated in model instance %s (%s):\n%s"
                                   % (name, r.violation, r.out[-2500:]))
        exp, what = MC_INSTANCES[name]
        if r.distinct != exp:
            raise vlib.CheckBroken("model instance %s: %d distinct states, expected %d (domain changed?)"
                                   % (name, r.distinct, exp))
        if name == "float16chain" and r.depth != 2 ** 16 - 2 * (2 ** 10 - 1):
            raise vlib.CheckBroken("float16 chain visited %d values, not all non-NaN values" % r.depth)
        gen += r.generated
        dist += r.distinct
        detail[name] = {"distinct": r.distinct, "generated": r.generated, "wall_s": round(r.wall, 1), "covers": what}
    boundary = None
    if prop == "C15":
        r = vlib.tlc("KeyCodecMC", "cfg/KeyCodec/%s.cfg" % IZP_CFG, workers=1, timeout=300, deadlock=False, xmx="2g")
        if r.error:
            raise vlib.CheckBroken(r.error)
        m = re.search(r'a \|-> ([^\n]*),\n\s*b \|-> ([^\n]*),\n\s*sem \|-> "none"', r.out)
        boundary = {"cfg": "cfg/KeyCodec/%s.cfg" % IZP_CFG,
                    "what": "texts over {0,1,2,3} (interior zeros and the run-length byte in the alphabet), MaxLen 3: "
                            "documented boundary of C15's domain, NOT a pass/fail gate",
                    "outcome": ("PrefixFree violated as expected" if r.violation and '"PrefixFree"' in r.out
                                else "unexpected: %s" % (r.violation or "no violation")),
                    "counterexample": ({"a": m.group(1), "b": m.group(2)} if m else None)}
    return gen, dist, detail, boundary


# ----------------------------------------------------------------------------
# 2. driver
# ----------------------------------------------------------------------------
def run_driver(exe, args, timeout):
    try:
        p = subprocess.run([exe] + args, capture_output=True, text=True, timeout=timeout)
        return p.returncode, p.stdout, p.stderr[-2000:]
    except subprocess.TimeoutExpired:
        return -999, "", "driver timeout"


def trace_dir(prop, tag):
    d = os.path.join(vlib.CACHE, "traces", "codec_%s_%s_%d" % (prop, tag, os.getpid()))
    shutil.rmtree(d, ignore_errors=True)
    os.makedirs(d)
    return d


# ----------------------------------------------------------------------------
# 3. trace validation
# ----------------------------------------------------------------------------
def validate_file(path, mode):
    """-> (rejects, TlcResult); rejects = [(line, batch_id, stratum, count, [(i, j, clause)])]"""
    acc, _, r = vlib.validate_trace("CodecTrace", "cfg/CodecTrace/trace.cfg", path, env={"MODE": mode},
                                    timeout=1500, xmx="4g")
    rej = []
    for m in _RE_REJECT.finditer(r.out):
        bad = [(int(a), int(b), c) for a, b, c in _RE_BAD.findall(m.group(5))]
        rej.append((int(m.group(1)), int(m.group(2)), m.group(3), int(m.group(4)), bad))
    with open(path) as f:
        nlines = sum(1 for _ in f)
    if acc and rej:
        raise vlib.CheckBroken("CodecTrace accepted %s but printed rejections" % path)
    if not acc and not rej:
        if r.depth != nlines:
            raise vlib.CheckBroken("CodecTrace stopped at line %d of %s without a rejection:\n%s"
                                   % (r.depth + 1, path, r.out[-2000:]))
        raise vlib.CheckBroken("CodecTrace rejected %s without naming a clause:\n%s" % (path, r.out[-2000:]))
    return rej, r


def isolate(path, line, prop, tag):
    """header + the rejected line -> a small trace kept under replays/"""
    with open(path) as f:
        lines = f.readlines()
    os.makedirs(vlib.REPLAYS, exist_ok=True)
    keep = os.path.join(vlib.REPLAYS, "%s-codec-%s-%d-l%d.ndjson" % (prop, tag, os.getpid(), line))
    with open(keep, "w") as f:
        f.write(lines[0])
        f.write(lines[line - 1])
    return keep, json.loads(lines[line - 1])


def describe(ev, bad):
    """short description of the first rejected item(s) of an event"""
    if ev.get("e") != "batch":
        return json.dumps(ev)[:300]
    i, j, clause = bad[0]
    its = ev["items"]

    def abbr(x):
        if isinstance(x, list) and x and isinstance(x[0], list):
            return [abbr(y) for y in x[:6]] + (["... %d components" % len(x)] if len(x) > 6 else [])
        if isinstance(x, list) and len(x) > 24:
            return x[:8] + ["... %d bytes ..." % len(x)] + x[-8:]
        return x

    def short(it):
        return json.dumps({k: abbr(it[k]) for k in ("v", "enc", "dec", "sz", "ends", "ref") if k in it},
                          separators=(",", ":"))
    out = "clause %s schema %s item %s" % (clause, ev["sch"] if len(ev["sch"]) < 8 else ev["sch"][:8] + ["..."],
                                           short(its[i - 1]))
    if j:
        out += " vs item %s" % short(its[j - 1])
    return out


def validate_all(files, prop, tag, rep, workers):
    results = vlib.parallel_map(lambda p: (p, validate_file(p, prop)), files, workers=workers)
    states = trans = 0
    nrej = 0
    for path, (rej, r) in results:
        states += r.distinct
        trans += r.generated
        for line, bid, stratum, count, bad in rej:
            bad = [b for b in bad if CLAUSE_PROP.get(b[2]) == prop]
            if not bad:
                continue
            nrej += 1
            if nrej > 6:
                continue
            keep, ev = isolate(path, line, prop, tag)
            clauses = sorted({b[2] for b in bad})
            rep.violation("%s build: CodecTrace rejects batch %d (stratum %s) of %s: %d rejected, clauses %s; %s"
                          % (tag, bid, stratum, os.path.basename(path), count, clauses, describe(ev, bad)),
                          {"kind": "trace", "trace": keep, "mode": prop, "clauses": clauses, "stratum": stratum,
                           "rejected": bad[:8], "build": tag,
                           "replay_cmd": "TRACE=%s MODE=%s java -cp tla2tools.jar:CommunityModules-deps.jar tlc2.TLC "
                                         "-workers 1 -deadlock -config spec/cfg/CodecTrace/trace.cfg spec/CodecTrace.tla"
                                         % (keep, prop)},
                          finding_key=("C15-text-interior-zero-prefix" if stratum == "izp" else None))
    return states, trans, nrej


def record_and_validate(prop, tier, seed, config, rep, workers):
    """build, run the driver, validate; -> dict of counts"""
    exe = vlib.build("codec_driver", ["codec_driver.cpp"], config=config,
                     extra_repo_srcs=["test_heap.cpp"] if config == "dbg" else ())
    d = trace_dir(prop, config)
    args = ["--seed", str(seed), "--out", d, "--tier", tier]
    if os.environ.get("VERIF_CODEC_IZP") == "1":
        args.append("--izp")
    rc, out, err = run_driver(exe, args, 900)
    if rc != 0:
        m = re.search(r"CRASH sig=(\d+) op=(\w+)", err)
        op = m.group(2) if m else "?"
        if rc == 3:
            raise vlib.CheckBroken("codec_driver failed: %s" % err)
        # the real code crashed (assertion, fault outside the guard page) on valid input
        rep.violation("%s build: codec_driver died (rc=%s) in operation '%s' (%s): %s"
                      % (config, rc, op, CRASH_PROP.get(op, "?"), err[-300:]),
                      {"kind": "crash", "cmd": [exe] + args, "stderr": err, "op": op})
        return {"files": 0, "items": 0, "states": 0, "trans": 0, "summary": {}, "dir": d, "rejected": 1}
    summary = json.loads(out.strip().splitlines()[-1])
    files = sorted(os.path.join(d, f) for f in os.listdir(d) if f.endswith(".ndjson"))
    states, trans, nrej = validate_all(files, prop, config, rep, workers)
    return {"files": len(files), "items": summary["items"], "states": states, "trans": trans,
            "summary": summary, "dir": d, "rejected": nrej}


def samples_from(d, n=4):
    out = []
    files = sorted(f for f in os.listdir(d) if f.endswith(".ndjson"))
    for f in files[:: max(1, len(files) // n)][:n]:
        with open(os.path.join(d, f)) as fh:
            fh.readline()
            ev = json.loads(fh.readline())
        it = ev["items"][min(3, len(ev["items"]) - 1)]
        s = {"file": f, "stratum": ev["st"], "schema": ev["sch"][:6], "mode": ev["mode"]}
        for k in ("v", "enc", "dec", "sz"):
            v = it.get(k)
            s[k] = v if len(json.dumps(v)) < 300 else "(%d entries)" % len(v)
        out.append(s)
    return out


# ----------------------------------------------------------------------------
# thorough: native sweep over all 2^32 values (C++ monitor, violations judged by TLC)
# ----------------------------------------------------------------------------
def sweep32(prop, rep):
    exe = vlib.build("codec_driver", ["codec_driver.cpp"], config="ndebug")
    res = []
    states = trans = 0
    for ty in ("u32", "i32", "f32"):
        d = trace_dir(prop, "sweep_" + ty)
        t0 = time.time()
        rc, out, err = run_driver(exe, ["--sweep32", ty, "--out", d, "--threads", "8"], 3600)
        if rc != 0:
            raise vlib.CheckBroken("sweep32 %s failed rc=%s: %s" % (ty, rc, err))
        info = json.loads(out.strip().splitlines()[-1])
        files = sorted(os.path.join(d, f) for f in os.listdir(d) if f.endswith(".ndjson"))
        st, tr, nrej = validate_all(files, prop, "sweep32-" + ty, rep, 4)
        states += st
        trans += tr
        res.append({"type": ty, "values_swept": info["values_hi"] * (1 << 20) + info["values_lo"],
                    "monitor_violations_logged": info["violations"], "rejected_by_tlc": nrej,
                    "wall_s": round(time.time() - t0, 1)})
        if nrej == 0:
            shutil.rmtree(d, ignore_errors=True)
    return res, states, trans


# ----------------------------------------------------------------------------
def run(prop, tier, seed):
    t0 = time.time()
    rep = vlib.Report(prop)
    with cf.ThreadPoolExecutor(max_workers=1) as ex:
        mc_future = ex.submit(model_check, prop)          # overlaps with build / recording / validation
        workers = max(4, min(vlib.NCPU - 4, 12))
        runs = {"dbg": record_and_validate(prop, tier, seed, "dbg", rep, workers)}
        if tier == "thorough":
            runs["ndebug"] = record_and_validate(prop, tier, seed, "ndebug", rep, workers)
        gen, dist, mc_detail, boundary = mc_future.result()
    sweep = None
    sw_states = sw_trans = 0
    if tier == "thorough":
        sweep, sw_states, sw_trans = sweep32(prop, rep)
    rc = rep.finish()
    main = runs["dbg"]
    coverage = {
        "states": dist + sum(r["states"] for r in runs.values()) + sw_states,
        "transitions": gen + sum(r["trans"] for r in runs.values()) + sw_trans,
        "traces_validated_against_impl": sum(r["files"] for r in runs.values()),
        "samples": samples_from(main["dir"]) if main["files"] else [{"note": "driver produced no trace"}],
        "events_validated_against_impl": sum(r["items"] for r in runs.values()),
        "events_per_build": {k: r["items"] for k, r in runs.items()},
        "batches_rejected": sum(r["rejected"] for r in runs.values()),
        "events_per_stratum": main["summary"].get("per_stratum", {}),
        "components_per_type": main["summary"].get("per_type_components", {}),
        "guard_page_faults": main["summary"].get("faults", 0),
        "strata": {
            "exh8/exh16": "all values of u8 i8 u16 i16, sorted, adjacent pairs",
            "int-strat": "u32 i32 u64 i64: 0/min/max +-3, +-1 around every power of two and the sign change, every "
                         "byte-position carry, boundary digits at every byte position",
            "int-rand": "seeded uniform and log-uniform values with neighbours",
            "flt-strat": "float, double: every sign x every exponent x mantissa in {0,1,mid,max-1,max}; every single "
                         "mantissa bit and byte carry at exponents {0,1,bias-1,bias,bias+1,emax-1,emax} (zeros, "
                         "subnormals, infinities, quiet/signalling NaNs of both signs)",
            "flt-rand": "seeded random bit patterns (uniform, near 1.0, NaN/inf, subnormal, tiny mantissa)",
            "text-all6 / text-pairs6": "all 1093 texts over {00,'a','b'} of length <= 6: sorted list and ALL pairs",
            "text-maxlen": "lengths maxlen-2..maxlen+2 with {0,'z'} at the four bytes around the cut, twins differing "
                           "only in the last kept / first cut byte, all-pad texts, maxlen+70000; every text (of every "
                           "stratum) ends at a PROT_NONE page after min(len,maxlen) bytes",
            "text-64k": "texts of 65535, 65536, 65537, 65541, 131072, 131077, 200000 bytes together with the empty, the "
                        "1-, 5- and maxlen-byte text of the same letter, all pairs (length >= 2^16 does not fit the "
                        "encoder's 16-bit size type)",
            "text-pads / text-rand": "random texts over {00,'a'..'d'} with embedded/trailing pads; random zero-free "
                                     "texts (all byte values) incl. lengths around 256 and up to 4300, extensions "
                                     "and padded twins",
            "tuple-rand": "random schemas of 2..5 components of all types, correlated components, fresh/reset/grown encoders",
            "grow-fault": "assertion build only: an encoder whose growth across the internal buffer failed once (allocation "
                          "failure injected), reused after reset() for keys of 258..520 bytes; ref = fresh encoders",
            "grow": "keys of 240..390 components crossing the 256-byte internal buffer (and 512, 1024, ...) at every "
                    "alignment; fresh, reset and previously grown encoders; ref = components encoded alone by fresh encoders",
        },
        "clauses_enforced": sorted(c for c, p in CLAUSE_PROP.items() if p == prop),
        "spec_model_instances": mc_detail,
        "spec_model_distinct_states": dist, "spec_model_generated_states": gen,
        "izp_stratum_enabled": os.environ.get("VERIF_CODEC_IZP") == "1",
    }
    if boundary:
        coverage["domain_boundary_instance"] = boundary
    if sweep is not None:
        coverage["native_sweep_32bit"] = {
            "label": "C++ monitor of the KeyCodec successor/round-trip/width/NaN predicate over all 2^32 values "
                     "(NOT TLC); every would-be violation is logged as an event pair and judged by TLC, plus a "
                     "sparse sample of pairs validated by TLC",
            "per_type": sweep}
    vlib.write_evidence(prop, tier, seed, "model_checking", coverage,
                        ["trusted base: TLC 2.x/tla2tools 1.8.0 + CommunityModules (Json, SequencesExt overrides), "
                         "the recorder harness/codec_driver.cpp (records, never judges), g++",
                         "float/double are IEEE-754 binary32/binary64 (static_assert in the recorder); the recorder "
                         "extracts sign/exponent/mantissa fields and base-256 digits by shifts of the value",
                         "KeyCodec theorems are checked exhaustively only on small widths (8/16/24-bit integers, "
                         "1+4+3, 1+3+4, 1+5+10 floats, MaxLen 2/3); at the real widths the same width-generic operators "
                         "judge recorded events: exhaustive for 8/16-bit types, stratified + seeded random otherwise",
                         "C11 order claim for text: normalised text without any zero byte; C15 prefix freedom: over the "
                         "texts generated (alphabet {00,'a','b'} incl. interior zeros, zero-free random text, around maxlen)",
                         ] + (["all 2^32 values of u32/i32/float are covered by a native C++ monitor, not by TLC"]
                              if sweep is not None else []),
                        time.time() - t0, len(rep.violations))
    if rc == 0:
        for r in runs.values():
            shutil.rmtree(r["dir"], ignore_errors=True)
    return rc


def replay(prop, path):
    with open(path) as f:
        p = json.load(f)
    if p.get("kind") == "trace":
        rej, r = validate_file(p["trace"], p.get("mode", prop))
        for line, bid, stratum, count, bad in rej:
            print("rejected: line %d batch %d stratum %s: %s" % (line, bid, stratum, bad[:8]))
        if rej:
            print("VIOLATION property=%s replay=%s" % (prop, path))
            return 1
        return 0
    if p.get("kind") == "crash":
        if "--out" in p["cmd"]:
            os.makedirs(p["cmd"][p["cmd"].index("--out") + 1], exist_ok=True)
        q = subprocess.run(p["cmd"], capture_output=True, text=True)
        if q.returncode not in (0, 3):
            print("VIOLATION property=%s replay=%s" % (prop, path))
            return 1
        return 0
    raise vlib.CheckBroken("unknown replay file")
