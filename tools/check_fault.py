"""C08: failed operations leave no trace.  For every insert/remove of generated
histories (all structural cases of ArtSeq) and k = 1.. until the call completes,
the k-th allocation made by the call fails (the library's own injector, global
operator new replaced); the trace after each failure carries the full observable
state, which ArtSeqTrace requires to equal the unchanged specification state
(`Fail` is a stuttering step).  Same for qsbr_resume / qsbr_thread start /
on_next_epoch_deallocate against QsbrFaultTrace.  DESIGN.md section 3.8."""
import json
import os
import re
import shutil
import subprocess
import time

import check_seq
import vlib

PROPS = ["C08"]
WRAP = ["-Wl,--wrap=malloc,--wrap=free,--wrap=calloc,--wrap=realloc,--wrap=posix_memalign,--wrap=aligned_alloc"]
_RE_FC = re.compile(r'<<"(\w+)", (\d+), (\d+)>>')


def build_fault_drivers():
    specs = [dict(name="seqf_%d_%d" % (d, k), harness_srcs=["seq_driver.cpp", "heapwrap.cpp"], config="dbg",
                  hflags=["-DSEQ_DB=%d" % d, "-DSEQ_KEY=%d" % k, "-DVERIF_HEAPWRAP"],
                  extra_repo_srcs=["test_heap.cpp"], libs=WRAP) for d, k in check_seq.INSTANCES]
    specs.append(dict(name="qsbr_fault", harness_srcs=["qsbr_fault_driver.cpp", "heapwrap.cpp"], config="dbg",
                      extra_repo_srcs=["test_heap.cpp"], libs=WRAP))
    exes = vlib.build_many(specs)
    return dict(zip(check_seq.INSTANCES, exes[:-1])), exes[-1]


def olc_fault_liveness(rep, tier, seed):
    """C14's fault clause: every allocation-failure point of the C08 histories on the OLC index (single registered
    thread); after each failed call the dump (scans both ways, gets) and all later operations must return --
    a lock word left write-locked by the failed call makes the next operation through that node spin for ever
    (the driver's per-operation watchdog turns that into exit 71).  Only hangs and deaths are judged here; the
    recorded states are C08's subject."""
    exes, _ = build_fault_drivers()
    d = check_seq.trace_dir("C14")
    runs, histories, ops = (2, 10, 50) if tier == "quick" else (12, 10, 150)
    jobs = []
    for (db, key), exe in exes.items():
        if check_seq.DB_NAMES[db] != "olc_db":
            continue
        for r in range(runs):
            s = seed * 1000 + r * 11 + db * 3 + key
            jobs.append((db, key, exe, s, os.path.join(d, "f14_%d_%d_%d.ndjson" % (db, key, s))))

    def work(job):
        db, key, exe, s, out = job
        cmd = [exe, "--seed", str(s), "--histories", str(histories), "--ops", str(ops), "--faults", "--out", out]
        try:
            p = subprocess.run(cmd, capture_output=True, text=True, timeout=900)
            rc, err = p.returncode, p.stderr[-800:]
        except subprocess.TimeoutExpired:
            rc, err = -999, "timeout"
        nfail = 0
        if os.path.exists(out):
            with open(out) as f:
                nfail = sum(1 for ln in f if ln.startswith('{"e":"fail"'))
            os.unlink(out)
        return job, rc, err, nfail
    total = 0
    for job, rc, err, nfail in vlib.parallel_map(work, jobs, workers=vlib.NCPU):
        db, key, exe, s, out = job
        total += nfail
        if rc != 0:
            rep.violation("olc_db<%s> seed %d: after an injected allocation failure an operation did not return / the driver died (rc=%s): %s"
                          % (check_seq.KEY_NAMES[key], s, rc, err[-300:]), {"seed": s, "stderr": err})
    return {"fault_points_followed_by_dump_and_further_operations": total, "runs": len(jobs),
            "rule": "C08's fault enumeration on olc_db (single registered thread); judged here: every operation after a failed call returns"}


def run(prop, tier, seed):
    t0 = time.time()
    rep = vlib.Report(prop)
    exes, qexe = build_fault_drivers()
    d = check_seq.trace_dir(prop)
    runs, histories, ops = (2, 10, 50) if tier == "quick" else (30, 11, 150)
    jobs = []
    for (db, key), exe in exes.items():
        for r in range(runs):
            s = seed * 1000 + r * 11 + db * 3 + key
            jobs.append((db, key, exe, s, os.path.join(d, "f_%d_%d_%d.ndjson" % (db, key, s))))

    def work(job):
        db, key, exe, s, out = job
        cmd = [exe, "--seed", str(s), "--histories", str(histories), "--ops", str(ops), "--faults", "--out", out]
        try:
            p = subprocess.run(cmd, capture_output=True, text=True, timeout=900)
            rc, err = p.returncode, p.stderr[-1500:]
        except subprocess.TimeoutExpired:
            rc, err = -999, "timeout"
        rej, cov, states, nev, fc, nfail = [], {}, 0, 0, {}, 0
        if os.path.exists(out) and os.path.getsize(out) > 0:
            acc, line, cov, r = check_seq.validate(out, "C08")
            states = r.distinct
            for m in _RE_FC.finditer(r.out):
                if int(m.group(3)) > 0:
                    fc[(m.group(1), int(m.group(2)))] = fc.get((m.group(1), int(m.group(2))), 0) + int(m.group(3))
            if not acc:
                rej2, cov, st2, nev = check_seq.validate_isolating(out, "C08")
                rej = rej2
                states += st2
            with open(out) as f:
                for ln in f:
                    nev += 1
                    if ln.startswith('{"e":"fail"'):
                        nfail += 1
        return job, rc, err, rej, cov, states, nev, fc, nfail

    results = vlib.parallel_map(work, jobs, workers=vlib.NCPU)
    # QSBR part
    qout = os.path.join(d, "qsbr_fault.ndjson")
    p = subprocess.run([qexe], capture_output=True, text=True, timeout=600)
    qtxt = p.stdout
    if not qtxt.endswith("\n"):          # a driver that died may leave a partial last line
        qtxt = qtxt[:qtxt.rfind("\n") + 1]
    with open(qout, "w") as f:
        f.write(qtxt)
    qfaults = 0
    if p.returncode != 0:
        rep.violation("qsbr_fault_driver died rc=%s: %s" % (p.returncode, p.stderr[-500:]), {})
    try:
        acc, matched, r = vlib.validate_trace("QsbrFaultTrace", "cfg/QsbrFaultTrace/trace.cfg", qout)
    except vlib.CheckBroken:
        if p.returncode == 0:
            raise
        # the death of the driver is already reported; what it managed to write need not be a well-formed trace
        acc, matched, r = True, 0, vlib.TlcResult()
    m = re.search(r'"QFAULTS", (\d+)', r.out)
    qfaults = int(m.group(1)) if m else 0
    qstates = r.distinct
    if not acc:
        with open(qout) as f:
            ls = f.readlines()
        ev = ls[matched].strip() if matched < len(ls) else "<end>"
        keep = os.path.join(vlib.REPLAYS, "C08_qsbr_fault.ndjson")
        os.makedirs(vlib.REPLAYS, exist_ok=True)
        shutil.copy(qout, keep)
        rep.violation("QSBR fault enumeration: QsbrFaultTrace rejects event %d: %s (previous: %s)"
                      % (matched + 1, ev, ls[matched - 1].strip() if matched > 0 else ""), {"trace": keep})
    evaluations = qfaults
    fc_total = {}
    states = qstates
    samples = []
    for job, rc, err, rej, cov, st, nev, fc, nfail in results:
        db, key, exe, s, out = job
        inst = "%s<%s>" % (check_seq.DB_NAMES[db], check_seq.KEY_NAMES[key])
        evaluations += nfail
        states += st
        for k, v in fc.items():
            fc_total[k] = fc_total.get(k, 0) + v
        if rc != 0:
            rep.violation("%s seed %d: fault driver died rc=%s: %s" % (inst, s, rc, err[-400:]),
                          {"instance": inst, "seed": s, "stderr": err})
        for iso, line, ev, g in rej:
            keep = os.path.join(vlib.REPLAYS, os.path.basename(iso))
            os.makedirs(vlib.REPLAYS, exist_ok=True)
            shutil.copy(iso, keep)
            rep.violation("%s seed %d generator %s: after a failed call the observable state differs from the unchanged spec state; ArtSeqTrace rejects line %d: %s"
                          % (inst, s, g, line, check_seq.short_event(ev)), {"instance": inst, "seed": s, "trace": keep, "line": line})
        if len(samples) < 3 and os.path.exists(out):
            with open(out) as f:
                for ln in f:
                    if ln.startswith('{"e":"fail"'):
                        samples.append({"instance": inst, "seed": s, "event": json.loads(ln)})
                        break
    rc = rep.finish()
    cov = {
        "evaluations": evaluations,
        "distinct_nontrivial": len(fc_total) + (3 if qfaults else 0),
        "rule": "one evaluation = one call executed with exactly its k-th allocation failing; non-trivial and distinct = the pair (structural case of the call as classified by ArtSeq's InsCase/RemCase or the QSBR call, k) for which the call actually threw; k runs from 1 until the call completes, so the enumeration per call is exhaustive",
        "samples": samples,
        "exhaustive": True,
        "fault_points_by_case_and_k": {"%s/k=%d" % k: v for k, v in sorted(fc_total.items())},
        "qsbr_fault_points": qfaults,
        "tlc_states": states,
        "instances": ["%s<%s>" % (check_seq.DB_NAMES[a], check_seq.KEY_NAMES[b]) for a, b in check_seq.INSTANCES] + ["qsbr"],
    }
    vlib.write_evidence(prop, tier, seed, "fault_enumeration", cov,
                        ["the library's allocation_failure_injector counts every allocation of the call (global operator new replaced by test_heap.cpp, allocate_aligned hooked)",
                         "assertion-enabled non-sanitizer build (the injector exists only there)",
                         "histories are generated; OLC index with a single registered thread",
                         "trusted: TLC, the recorder, compiler"],
                        time.time() - t0, len(rep.violations))
    if rc == 0:
        shutil.rmtree(d, ignore_errors=True)
    return rc
