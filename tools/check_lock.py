"""C07: optimistic lock.  TLC exhaustive on spec/OptLock.tla (every atomic access a
step), protection-flag variants must fail (vacuity), full edge-cover replay of the
TLC state graph into a real unodb::optimistic_lock under the baton scheduler with
the observable state compared after every step (DESIGN.md section 3.7)."""
import json
import os
import re
import subprocess
import time

import tlaparse
import vlib
from vlib import log

PROPS = ["C07"]

CODES = {"Load": "L", "Spin": "P", "Read1": "1", "Check": "C", "Read2": "2", "Unlock": "U",
         "Upgrade": "G", "Write1": "X", "Write2": "Y", "WUnlock": "V", "WObsolete": "O"}
FLAG_CFGS = ["no_check", "no_upgrade_cmp", "no_obsolete_refusal", "no_version_bump"]


def path_line(nthreads, nsections, path):
    toks = []
    for (_, lab, args, _) in path:
        if lab == "Begin":
            toks.append("%dB%s" % (args[0], args[1]))
        else:
            toks.append("%d%s" % (args[0], CODES[lab]))
    return "%d %d %s" % (nthreads, nsections, " ".join(toks))


LCOV = {}
LCOV_KEYS = ("sections_opened", "validations_judged", "validations_judged_after_a_write", "upgrades_judged",
             "refusals_seen", "events_after_obsoletion", "finals_judged")


def events_of(line):
    """One driver record line -> LockTrace events (one per change of a thread's `out`, at the
    scheduler step that executed the deciding access) framed by reset / final."""
    parts = line.split("|")
    evs = [{"e": "reset"}]
    prev = {}
    for rec in parts[1:]:
        f = rec.split()
        if not f or f[0].startswith("c"):
            continue
        if f[0] == "F":
            w = int(f[1])
            evs.append({"e": "final", "w": w & 0x7fffffff, "wobs": bool(w & 1), "wlocked": bool(w & 2),
                        "d1": int(f[2]), "d2": int(f[3])})
            continue
        t, out = int(f[0]), f[5]
        if prev.get(t, "none0") == out:
            continue
        prev[t] = out
        evs.append({"e": "ev", "t": t, "out": out, "w": int(f[2]) & 0x7fffffff, "d1": int(f[3]), "d2": int(f[4]),
                    "r1": int(f[6]), "r2": int(f[7])})
    return evs


def validate_lock_traces(rep, lines, what):
    """Validate recorded executions (driver record lines) against spec/LockTrace.tla.
    Rejected executions are isolated and reported (at most 3), the rest is still checked."""
    if not lines:
        return dict(what=what, executions=0, events=0, rejected=0)
    d = os.path.join(vlib.CACHE, "lock_%d" % os.getpid())
    os.makedirs(d, exist_ok=True)
    execs = [(ln, events_of(ln)) for ln in lines]
    nev = sum(len(e) for _, e in execs)
    rejected = 0
    rest = execs
    rnd = 0
    while rest and rnd < 4:
        f = os.path.join(d, "lt_%s_%d.ndjson" % (re.sub(r"\W", "_", what), rnd))
        with open(f, "w") as fh:
            for _, evs in rest:
                for e in evs:
                    fh.write(json.dumps(e) + "\n")
        acc, matched, r = vlib.validate_trace("LockTrace", "cfg/LockTrace/trace.cfg", f, timeout=1500, xmx="6g")
        os.unlink(f)
        if acc:
            m = re.search(r'"LCOV", ' + ", ".join([r"(\d+)"] * 7), r.out)
            if m:
                for k, v in zip(LCOV_KEYS, m.groups()):
                    LCOV[k] = LCOV.get(k, 0) + int(v)
            break
        off = 0
        bad = len(rest) - 1
        for i, (_, evs) in enumerate(rest):
            if off <= matched < off + len(evs):
                bad = i
                break
            off += len(evs)
        ln, evs = rest[bad]
        k = min(max(matched - off, 0), len(evs) - 1)
        rejected += 1
        rep.violation("LockTrace cannot explain event %d of a recorded execution of the real lock (%s): %s"
                      % (k, what, json.dumps(evs[k])),
                      {"what": what, "record": ln[:4000], "events": evs[:k + 1], "rejected_event": evs[k]})
        rest = rest[bad + 1:]
        rnd += 1
    return dict(what=what, executions=len(execs), events=nev, rejected=rejected)


def random_runs(rep, exe, tag, nthreads, nsections, runs, seed):
    """Random (sticky) schedules of random programs on the real lock, judged by LockTrace."""
    nproc = min(vlib.NCPU, 8)

    def work(i):
        try:
            pr = subprocess.run([exe, "--random", str(runs // nproc), "--seed", str((seed * 64 + i) * 10000019),  # splitmix streams of adjacent seeds overlap
                                 "--threads", str(nthreads), "--sections", str(nsections)],
                                capture_output=True, text=True, timeout=900)
        except subprocess.TimeoutExpired:
            return ("timeout", [])
        lines = [ln.split(" ", 2)[2] for ln in pr.stdout.splitlines()[1:] if ln.count(" ") > 2 and "|F " in ln]
        hung = [ln for ln in pr.stdout.splitlines() if " HUNG|" in ln]
        return (pr.returncode, lines, hung, (pr.stderr or "")[-400:])

    lines = []
    for res in vlib.parallel_map(work, range(nproc), workers=nproc):
        if res[0] == "timeout":
            rep.violation("lock_driver (%s) random runs timed out (a thread never finished)" % tag, {})
            continue
        rc, ls, hung, err = res
        lines += ls
        if rc != 0:
            rep.violation("lock_driver (%s) random %dx%d: rc=%s %s %s" % (tag, nthreads, nsections, rc,
                          "a thread could not finish (spins forever) after: " + hung[0][:600] if hung else "", err),
                          {"record": hung[0][:4000] if hung else None})
    lines = sorted(set(lines))
    return validate_lock_traces(rep, lines, "random %s %dx%d" % (tag, nthreads, nsections))


def replay_graph(rep, exe, cfgname, nthreads, nsections, tag, max_paths=None, word_offset=0):
    d = os.path.join(vlib.CACHE, "lock_%d" % os.getpid())
    os.makedirs(d, exist_ok=True)
    dot = os.path.join(d, cfgname)
    r = vlib.tlc("OptLock", "cfg/OptLock/%s.cfg" % cfgname, workers=4, deadlock=False, dump=dot, timeout=900)
    if r.error:
        raise vlib.CheckBroken(r.error)
    if r.violation:
        raise vlib.CheckBroken("OptLock %s: %s" % (cfgname, r.violation))
    g = tlaparse.load_dot(dot + ".dot")
    os.unlink(dot + ".dot")
    paths = tlaparse.edge_cover(g)
    if max_paths:
        paths = paths[:max_paths]
    # split into chunks, run drivers in parallel
    nchunks = vlib.NCPU
    chunks = [paths[i::nchunks] for i in range(nchunks)]

    def work(ci):
        ch = chunks[ci]
        if not ch:
            return []
        inp = os.path.join(d, "%s_%s_%d.in" % (cfgname, tag, ci))
        with open(inp, "w") as f:
            for p in ch:
                f.write(path_line(nthreads, nsections, p) + "\n")
        try:
            pr = subprocess.run([exe, "--in", inp] + (["--word-offset", str(word_offset)] if word_offset else []),
                                capture_output=True, text=True, timeout=900)
        except subprocess.TimeoutExpired:
            return [("timeout", ci, None, None)]
        os.unlink(inp)
        lines = pr.stdout.splitlines()
        res = []
        if pr.returncode != 0 or len(lines) != len(ch) + 1:
            res.append(("driver", ci, pr.returncode, (pr.stderr or "")[-500:] + " | " + (lines[-1][:300] if lines else "")))
            return res
        for p, ln in zip(ch, lines[1:]):
            res.append(("ok", p, ln, None))
        return res

    steps = 0
    divergent = []
    lockstep_fail = 0
    mism = 0
    edges_replayed = 0
    for chunkres in vlib.parallel_map(work, range(nchunks), workers=nchunks):
        for kind, a, b, c in chunkres:
            if kind == "timeout":
                rep.violation("lock_driver (%s) timed out replaying %s chunk %d (a thread never finished)" % (tag, cfgname, a),
                              {"cfg": cfgname})
                continue
            if kind == "driver":
                rep.violation("lock_driver (%s) failed on %s chunk %d rc=%s: %s" % (tag, cfgname, a, b, c), {"cfg": cfgname})
                continue
            path, ln = a, b
            parts = ln.split("|")
            head = parts[0].split()
            done, ls = int(head[1]), head[2] == "1"
            if not ls:
                lockstep_fail += 1
                divergent.append(ln)
            for i in range(min(done, len(path), len(parts) - 1)):
                (src, lab, args, dst), obs = path[i], parts[i + 1]
                o = obs.split()
                t = int(o[0])
                st = g.state(dst)
                pred = (st["word"], st["d1"], st["d2"], st["out"][t - 1], st["r1"][t - 1], st["r2"][t - 1])
                act = (int(o[2]), int(o[3]), int(o[4]), o[5], int(o[6]), int(o[7]))
                steps += 1
                if pred != act:
                    if mism < 3:
                        rep.violation(
                            "replay of OptLock behaviour (%s, %s): after %s%s the real lock shows (word,d1,d2,out,r1,r2)=%s, spec predicts %s"
                            % (cfgname, tag, lab, args, act, pred),
                            {"cfg": cfgname, "build": tag, "behaviour": path_line(nthreads, nsections, path),
                             "step": "%s%s" % (lab, args), "actual": act, "predicted": pred})
                    mism += 1
                    break
            edges_replayed += min(done, len(path))
    # behaviours whose step structure the code no longer follows: the schedule was still
    # executed to the end; the contract-level trace spec decides whether C07 held on them
    lt = validate_lock_traces(rep, divergent, "schedule of OptLock %s, %s" % (cfgname, tag))
    if lockstep_fail:
        log("[C07] %s/%s: %d of %d behaviours diverged from OptLock's step structure (%d rejected by LockTrace)"
            % (cfgname, tag, lockstep_fail, len(paths), lt["rejected"]))
    return dict(cfg=cfgname, build=tag, states=len(g.states), edges=g.nedges, paths=len(paths),
                steps_compared=steps, lockstep_divergences=lockstep_fail, mismatches=mism,
                divergent_schedules_judged_by_LockTrace=lt["executions"], divergent_rejected=lt["rejected"],
                generated=r.generated, distinct=r.distinct,
                sample=path_line(nthreads, nsections, paths[len(paths) // 2])[:400])


def apalache_induction(tier):
    """Unbounded versions / sections: Apalache discharges Init => IndInv, IndInv /\\ Next => IndInv' and
    IndInv => C07 for spec/OptLockInd.tla.  Error = the invariant is not inductive (a defect of the
    specification: CheckBroken); a tool failure or timeout is recorded as inconclusive, never an alarm."""
    import shutil
    import subprocess
    if shutil.which("apalache-mc") is None:
        return {"status": "apalache-mc not found"}
    out = os.path.join(vlib.CACHE, "apalache_%d" % os.getpid())
    cfg = "cfg/OptLock/ind.cfg" if tier == "quick" else "cfg/OptLock/ind4.cfg"
    jobs = [("base: Init => IndInv", ["--init=Init", "--inv=IndInv", "--length=0"]),
            ("step: IndInv /\\ Next => IndInv'", ["--init=IndInv", "--inv=IndInv", "--length=1"]),
            ("IndInv => OneWriter /\\ WriterHoldsBit /\\ NoBadOutcome /\\ WritersInvariant", ["--init=IndInv", "--inv=C07", "--length=0"])]

    def work(job):
        name, args = job
        t = time.time()
        od = os.path.join(out, str(abs(hash(name)) % 100000))
        try:
            p = subprocess.run(["apalache-mc", "check", "--config=" + cfg, "--out-dir=" + od] + args + ["OptLockInd.tla"],
                               cwd=vlib.SPEC, capture_output=True, text=True, timeout=900 if tier == "quick" else 3000)
            txt = p.stdout + p.stderr
            res = "NoError" if "The outcome is: NoError" in txt else "Error" if "The outcome is: Error" in txt else "inconclusive (rc=%s)" % p.returncode
        except subprocess.TimeoutExpired:
            res = "inconclusive (timeout)"
        return {"obligation": name, "outcome": res, "seconds": round(time.time() - t, 1)}
    res = vlib.parallel_map(work, jobs, workers=3)
    shutil.rmtree(out, ignore_errors=True)
    for r in res:
        if r["outcome"] == "Error":
            raise vlib.CheckBroken("OptLockInd: %s fails (Apalache reports a counterexample)" % r["obligation"])
    return {"module": "OptLockInd", "config": cfg, "obligations": res,
            "claim": "C07 invariants for unbounded lock versions and any number of sections per thread (threads as in the config)"}


def run(prop, tier, seed):
    t0 = time.time()
    rep = vlib.Report(prop)
    ind_future = __import__("concurrent.futures").futures.ThreadPoolExecutor(1).submit(apalache_induction, tier)
    # 1. exhaustive model checking
    cfgs = ["t2s2", "t2s3", "t3s1", "t3s2"]
    mc = vlib.parallel_map(lambda c: (c, vlib.tlc("OptLock", "cfg/OptLock/%s.cfg" % c, workers=4 if c != "t3s2" else 8,
                                                   deadlock=False, timeout=1500)), cfgs + FLAG_CFGS, workers=4)
    gen = dist = 0
    flags_detected = {}
    for c, r in mc:
        if r.error:
            raise vlib.CheckBroken(r.error)
        if c in FLAG_CFGS:
            flags_detected[c] = r.violation is not None
            continue
        if r.violation:
            # the faithful design model violates C07: a defect of the model (the
            # code is judged by the replay below), so the checker is broken
            raise vlib.CheckBroken("OptLock %s violates %s" % (c, r.violation))
        gen += r.generated
        dist += r.distinct
    # 2. replay
    exes = vlib.build_many([dict(name="lock_driver", harness_srcs=["lock_driver.cpp"], config="dbg"),
                            dict(name="lock_driver", harness_srcs=["lock_driver.cpp"], config="ndebug")])
    replays = []
    plan = [("t2s2", 2, 2, None), ("t3s1", 3, 1, None)]
    if tier == "thorough":
        plan.append(("t2s3", 2, 3, None))
    for cfgname, nt, ns, mp in plan:
        for exe, tag in zip(exes, ("dbg", "ndebug")):
            if tier == "quick" and tag == "ndebug" and cfgname != "t2s2":
                continue
            replays.append(replay_graph(rep, exe, cfgname, nt, ns, tag, mp))
    # the same graph on a lock that has already seen 2^30 - 2 write sections: the words cross the 32-bit boundary
    # during the run (a long-lived lock is an ordinary state; seed c07c: version arithmetic in 32 bits)
    for off in ([2 ** 32 - 8] if tier == "quick" else [2 ** 32 - 8, 2 ** 32 - 16, 2 ** 48 - 8, 2 ** 63 - 2 ** 20]):
        replays.append(replay_graph(rep, exes[1], "t2s2", 2, 2, "ndebug, lock word preset to %d" % off, None, word_offset=off))
    # 3. recorded executions -> contract (LockTrace.tla): random sticky schedules of random programs
    rnd = []
    rplan = [(2, 3, 4000), (3, 3, 4000)] if tier == "quick" else [(2, 3, 40000), (3, 3, 40000), (3, 4, 20000), (4, 2, 20000)]
    for nt, ns, runs in rplan:
        for exe, tag in zip(exes, ("dbg", "ndebug")):
            rnd.append(random_runs(rep, exe, tag, nt, ns, runs, seed))
    rc = rep.finish()
    cov = {
        "states": dist, "transitions": gen,
        "inductive_invariant_apalache": ind_future.result(),
        "traces_validated_against_impl": sum(r["paths"] for r in replays),
        "samples": [r["sample"] for r in replays[:2]],
        "exhaustive": True,
        "model_configs": cfgs,
        "protection_flags_whose_removal_TLC_detects": flags_detected,
        "replays": [{k: v for k, v in r.items() if k != "sample"} for r in replays],
        "recorded_executions_validated_by_LockTrace": rnd,
        "LockTrace_clause_counts_on_accepted_files": dict(LCOV),
        "rule": "edge cover of the complete TLC state graph: every transition of the 2-thread x 2-section and 3-thread x 1-section models is executed on the real lock at least once and the observable state compared after every step",
    }
    vlib.write_evidence(prop, tier, seed, "model_checking", cov,
                        vlib.ASSUME_COMMON + ["sections per thread bounded (2 threads x 3, 3 threads x 2 for TLC; replay on the graphs listed)",
                                              "rehydrate_read_lock is exercised by the iterator checks (C09), not here"],
                        time.time() - t0, len(rep.violations))
    return rc
