"""C13 - mutex_db: operations are atomic (linearizable); a get that finds its key
returns owning the index lock (the entry is pinned until the caller lets go), a
miss returns without it; no other operation returns with the lock held.
DESIGN.md section 3.12.

1. TLC on spec/MutexDb.tla: the faithful configuration must satisfy every
   invariant; every configuration with one protection flag FALSE must FAIL
   (a FALSE variant that passes is reported in the evidence as a vacuity
   warning, not as a violation).
2. harness/mutex_driver.cpp (uint64 and key_view keys; assertions on / NDEBUG;
   thorough tier also ThreadSanitizer if it links) records hundreds/thousands
   of small histories of 2-8 free-running threads on one real mutex_db.
3. Every history is validated by TLC against spec/MutexTrace.tla (= MutexDb
   constrained by the recorded events; TLC chooses the linearization).  A
   rejection is confirmed on the isolated history before it is reported.  A
   driver that crashes or hangs (watchdog) is a violation, too.
"""
import collections
import json
import os
import re
import shutil
import subprocess
import time

import vlib
from vlib import log

PROPS = ["C13"]

FLAGS = ["GetHitKeepsLock", "MissReleases", "InsertTakesLock", "RemoveLocksBeforeLookup",
         "EmptyTakesLock", "ClearTakesLock", "ScanTakesLock", "StatsTakeLock"]
KEY_NAMES = ["uint64", "key_view"]
TRACE_CFG = "cfg/MutexTrace/trace.cfg"
TSAN = ("clang++", ["-O1", "-g", "-mavx2", "-DUNODB_DETAIL_WITH_STATS", "-DUNODB_SPINLOCK_LOOP_VALUE=1",
                    "-D" + vlib.GUARD, "-fsanitize=thread"], "tsan")
RC_CRASH, RC_HANG, RC_TSAN, RC_TIMEOUT = 70, 75, 66, -999
_RE_MAXLINE = re.compile(r'<<"MAXLINE", (\d+)>>')


# ----------------------------------------------------------------------------
# 1. the design-level model
# ----------------------------------------------------------------------------
def model_check(tier, rep):
    jobs = [("faithful", "cfg/MutexDb/faithful.cfg", 4)]
    if tier == "thorough":
        jobs.append(("faithful_nosym", "cfg/MutexDb/faithful_nosym.cfg", 4))
    jobs += [("no_" + f, "cfg/MutexDb/no_%s.cfg" % f, 1) for f in FLAGS]

    def work(job):
        name, cfg, workers = job
        return job, vlib.tlc("MutexDb", cfg, workers=workers, timeout=1500, xmx="6g")

    res = vlib.parallel_map(work, jobs, workers=len(jobs))
    gen = dist = 0
    model = {}
    flags = {}
    vacuous = []
    for (name, cfg, _), r in res:
        if r.error:
            raise vlib.CheckBroken(r.error)
        gen += r.generated
        dist += r.distinct
        if name.startswith("faithful"):
            model[name] = {"cfg": cfg, "distinct": r.distinct, "generated": r.generated, "depth": r.depth,
                           "wall_s": round(r.wall, 1), "result": r.violation or "ok"}
            if r.violation:
                rep.violation("MutexDb (%s, the design of mutex_art.hpp as written) violates %s" % (cfg, r.violation),
                              {"cfg": cfg, "tlc_output_tail": r.out[-6000:]})
        else:
            flag = name[3:]
            flags[flag] = {"cfg": cfg, "result": r.violation or "PASSES (vacuity warning)",
                           "counterexample_length": r.depth, "distinct": r.distinct}
            if not r.violation:
                vacuous.append(flag)
                log("[C13] vacuity warning: MutexDb with %s = FALSE satisfies every invariant" % flag)
    return gen, dist, model, flags, vacuous


# ----------------------------------------------------------------------------
# 2. drivers
# ----------------------------------------------------------------------------
def build_drivers(tier):
    specs = []
    tags = []
    for key in (0, 1):
        for cfg in ("dbg", "ndebug"):
            specs.append(dict(name="mutex_%d" % key, harness_srcs=["mutex_driver.cpp"], config=cfg,
                              hflags=["-DMUTEX_KEY=%d" % key], repo_srcs=["art_internal.cpp"]))
            tags.append((key, cfg))
    exes = vlib.build_many(specs)
    out = list(zip(tags, exes))
    tsan_note = "not run (quick tier)"
    if tier == "thorough":
        try:
            exe = vlib.build("mutex_0", ["mutex_driver.cpp"], config=TSAN, hflags=["-DMUTEX_KEY=0"],
                             repo_srcs=["art_internal.cpp"])
            out.append(((0, "tsan"), exe))
            tsan_note = "built"
        except vlib.CheckBroken as e:
            tsan_note = "ThreadSanitizer build unavailable: %s" % str(e)[:200]
            log("[C13] " + tsan_note)
    return out, tsan_note


def run_driver(exe, seed, runs, out, threads=0, timeout=300):
    cmd = [exe, "--seed", str(seed), "--runs", str(runs), "--out", out]
    if threads:
        cmd += ["--threads", str(threads)]
    env = dict(os.environ)
    env["TSAN_OPTIONS"] = "halt_on_error=1 exitcode=%d report_signal_unsafe=0" % RC_TSAN
    try:
        p = subprocess.run(cmd, capture_output=True, text=True, timeout=timeout, env=env)
        err = p.stderr if len(p.stderr) <= 8000 else p.stderr[:4000] + "\n...\n" + p.stderr[-4000:]
        return p.returncode, err, cmd
    except subprocess.TimeoutExpired:
        return RC_TIMEOUT, "driver did not finish within %ds" % timeout, cmd


# ----------------------------------------------------------------------------
# 3. trace validation
# ----------------------------------------------------------------------------
def split_histories(path):
    """-> header line, [(first_line_no (1-based), [lines])] per history."""
    with open(path) as f:
        lines = f.readlines()
    if not lines:
        return "", []
    hist = []
    for i, ln in enumerate(lines[1:], start=2):
        if ln.startswith('{"e":"reset"'):
            hist.append((i, [ln]))
        elif hist:
            hist[-1][1].append(ln)
    return lines[0], hist


def validate(path):
    """-> accepted, first line that could not be consumed, TlcResult"""
    # short single-worker runs: C1-only JIT and two GC threads use a third of the CPU time
    acc, _, r = vlib.validate_trace("MutexTrace", TRACE_CFG, path, mode="inv", dfs=True, timeout=900,
                                    env={"JAVA_TOOL_OPTIONS": "-XX:TieredStopAtLevel=1 -XX:ParallelGCThreads=2"})
    if r.violation is not None and r.violation != "invariant NotAccepted":
        # an invariant of MutexDb failed on a state of the observed execution
        acc = False
    m = None
    for m in _RE_MAXLINE.finditer(r.out):
        pass
    return acc, (int(m.group(1)) if m else 0), r


def validate_isolating(path, max_rejections=3):
    """Validate a file of histories.  On rejection: isolate the history that
    contains the line TLC got stuck at, confirm the rejection on the isolated
    history, record it and go on with the remaining histories.
    -> (rejections [(iso_path, line, event, reset_event, why)], states, generated, accepted_histories)"""
    rejections = []
    states = generated = 0
    cur = path
    accepted = 0
    for rnd in range(max_rejections + 1):
        acc, line, r = validate(cur)
        states += r.distinct
        generated += r.generated
        hdr, hist = split_histories(cur)
        if acc:
            accepted += len(hist)
            break
        idx = None
        for i, (first, lines) in enumerate(hist):
            if first <= line < first + len(lines):
                idx = i
        if idx is None:
            raise vlib.CheckBroken("rejection of %s: cannot locate line %d\n%s" % (cur, line, r.out[-1500:]))
        first, lines = hist[idx]
        accepted += idx          # the histories before it were consumed
        iso = "%s.h%d.r%d.ndjson" % (path, idx, rnd)
        with open(iso, "w") as f:
            f.write(hdr)
            f.writelines(lines)
        acc2, line2, r2 = validate(iso)
        states += r2.distinct
        generated += r2.generated
        if acc2:
            raise vlib.CheckBroken("rejection of %s at line %d not reproduced on the isolated history %s"
                                   % (cur, line, iso))
        ev = json.loads(lines[line2 - 2]) if 2 <= line2 <= len(lines) + 1 else {"e": "<end>"}
        why = r2.violation or "no linearization consumes the event"
        rejections.append((iso, line2, ev, json.loads(lines[0]), why))
        rest = "%s.rest%d.ndjson" % (path, rnd)
        with open(rest, "w") as f:
            f.write(hdr)
            for _, ls in hist[idx + 1:]:
                f.writelines(ls)
        cur = rest
        if idx + 1 >= len(hist) or len(rejections) >= max_rejections:
            break
    return rejections, states, generated, accepted


# ----------------------------------------------------------------------------
# non-vacuity statistics of the recorded runs (computed from the stamps only)
# ----------------------------------------------------------------------------
def history_stats(lines):
    calls = []      # [t, op, call_seq, ret_seq]
    windows = []    # [t, ret_seq of the hit, drop_seq]
    open_call = {}
    last_get = {}
    nt = json.loads(lines[0]).get("nt", 0)
    for ln in lines[1:]:
        e = json.loads(ln)
        t = e["t"]
        if e["e"] == "call":
            open_call[t] = [t, e["op"], e["seq"], None]
        elif e["e"] == "ret":
            c = open_call.pop(t)
            c[3] = e["seq"]
            calls.append(c)
            if c[1] == "get":
                last_get[t] = (e["res"], e["seq"])
        elif e["e"] == "drop":
            hit, s = last_get.pop(t)
            if hit:
                windows.append((t, s, e["seq"]))
    overlapped = any(a[0] != b[0] and a[2] < b[3] and b[2] < a[3]
                     for i, a in enumerate(calls) for b in calls[i + 1:])
    hits_conc_writer = 0
    waited = 0
    for t, s, d in windows:
        if any(c[0] != t and c[1] in ("ins", "rem", "clear") and c[2] < d and c[3] > s for c in calls):
            hits_conc_writer += 1
        # calls of other threads issued inside the window: all of them returned after the drop stamp?
        waited += sum(1 for c in calls if c[0] != t and s < c[2] < d and c[3] > d)
    return {"nt": nt, "calls": len(calls), "hits": len(windows), "overlapped": overlapped,
            "hits_with_concurrent_writer": hits_conc_writer, "calls_that_waited_for_a_pinned_hit": waited}


def diagnose(lines, line):
    """A hint for the reader of a rejection (the verdict is TLC's): lines = the
    isolated history (reset first), line = file line TLC could not get past."""
    evs = [json.loads(x) for x in lines[1:]]
    i = line - 3
    if not 0 <= i < len(evs):
        return ""
    e = evs[i]
    if e["e"] == "ret" and "owns" in e and e["owns"] != e["res"]:
        return "get %s but owns_lock() = %s" % ("found its key" if e["res"] else "missed", str(e["owns"]).lower())
    if e["e"] == "hold":
        return "the bytes re-read through the held view differ from the value returned"
    if e["e"] == "ret":
        call = next((c for c in reversed(evs[:i]) if c["e"] == "call" and c["t"] == e["t"]), None)
        last_get = {}
        for x in evs[:i]:
            if x["e"] == "ret" and "owns" in x and x["res"]:
                last_get[x["t"]] = x["seq"]
            elif x["e"] == "drop":
                last_get.pop(x["t"], None)
        pins = [t for t, s in last_get.items() if call and t != e["t"] and s < call["seq"]]
        if pins:
            return ("%s was called and returned while thread %s held the result of a get hit (index lock owned): "
                    "it did not wait for the lock, or no order of the overlapping calls explains its result"
                    % (call["op"], pins[0]))
        return "no order of the overlapping calls explains this result"
    return ""


def trace_dir(prop):
    d = os.path.join(vlib.CACHE, "traces", "%s_%d" % (prop, os.getpid()))
    shutil.rmtree(d, ignore_errors=True)
    os.makedirs(d)
    return d


def short(ev):
    s = json.dumps(ev)
    return s if len(s) < 500 else s[:500] + "..."


def run(prop, tier, seed):
    t0 = time.time()
    rep = vlib.Report(prop)
    d = trace_dir(prop)

    # build first (cheap, cached), then the model and the weakened models
    drivers, tsan_note = build_drivers(tier)
    gen, dist, model, flags, vacuous = model_check(tier, rep)
    t_model = time.time() - t0

    # --- record histories (before the JVMs of the validation phase compete for the cores)
    if tier == "quick":
        procs_per_exe, runs = 5, 24
    else:
        procs_per_exe, runs = 48, 40
    jobs = []
    for (key, cfg), exe in drivers:
        n = procs_per_exe if cfg != "tsan" else max(2, procs_per_exe // 3)
        for i in range(n):
            s = seed * 100000 + i * 16 + key * 4 + ("dbg", "ndebug", "tsan").index(cfg)
            jobs.append({"key": key, "cfg": cfg, "exe": exe, "seed": s,
                         "out": os.path.join(d, "m_%d_%s_%d.ndjson" % (key, cfg, s))})

    stuck = []

    def record(job):
        # a mutex left locked hangs every process for the watchdog period: two are enough
        if len(stuck) >= 2:
            job["rc"], job["err"], job["cmd"] = None, "skipped after two hung drivers", []
            return job
        job["rc"], job["err"], job["cmd"] = run_driver(job["exe"], job["seed"], runs, job["out"])
        if job["rc"] in (RC_HANG, RC_TIMEOUT):
            stuck.append(job["seed"])
        return job

    vlib.parallel_map(record, jobs, workers=2)
    t_rec = time.time() - t0 - t_model

    # --- validate
    def check(job):
        job["rej"], job["states"], job["generated"], job["accepted"] = [], 0, 0, 0
        if os.path.exists(job["out"]) and os.path.getsize(job["out"]) > 0:
            with open(job["out"]) as f:
                if sum(1 for _ in f) > 1:
                    job["rej"], job["states"], job["generated"], job["accepted"] = validate_isolating(job["out"])
        return job

    vlib.parallel_map(check, jobs, workers=min(vlib.NCPU, 12))

    states = generated = nhist = nacc = nevents = 0
    thread_hist = collections.Counter()
    agg = collections.Counter()
    samples = []
    driver_failures = skipped_jobs = 0
    per_build = collections.Counter()
    for job in jobs:
        inst = "mutex_db<%s> %s" % (KEY_NAMES[job["key"]], job["cfg"])
        states += job["states"]
        generated += job["generated"]
        nacc += job["accepted"]
        rc = job["rc"]
        if rc is None:
            skipped_jobs += 1
            continue
        if rc != 0:
            if rc in (RC_CRASH, RC_HANG, RC_TSAN, RC_TIMEOUT) or rc < 0:
                driver_failures += 1
                kind = {RC_CRASH: "crashed", RC_HANG: "hung (a call never returned: the mutex was left locked or the unsynchronised index was corrupted)",
                        RC_TSAN: "ThreadSanitizer reported a data race (two index operations were not mutually exclusive)",
                        RC_TIMEOUT: "did not finish (timeout)"}.get(rc, "was killed by signal %d" % -rc)
                msg = job["err"][:1500] if rc == RC_TSAN else job["err"][-1500:]
                rep.violation("%s seed %d: driver %s: %s" % (inst, job["seed"], kind, msg.strip()),
                              {"instance": inst, "seed": job["seed"], "cmd": job["cmd"], "rc": rc, "stderr": job["err"]})
            else:
                raise vlib.CheckBroken("mutex_driver failed rc=%s: %s\n%s" % (rc, " ".join(job["cmd"]), job["err"][-1500:]))
        if os.path.exists(job["out"]):
            hdr, hist = split_histories(job["out"])
            for first, lines in hist:
                st = history_stats(lines)
                nhist += 1
                nevents += len(lines) - 1
                per_build[inst] += 1
                thread_hist[st["nt"]] += 1
                agg["histories_with_overlapping_calls"] += 1 if st["overlapped"] else 0
                for k in ("calls", "hits", "hits_with_concurrent_writer", "calls_that_waited_for_a_pinned_hit"):
                    agg[k] += st[k]
                if len(samples) < 3 and st["overlapped"] and st["hits_with_concurrent_writer"] and job["rc"] == 0:
                    samples.append({"instance": inst, "seed": job["seed"], "reset": json.loads(lines[0]),
                                    "events": len(lines) - 1, "stats": st,
                                    "first_events": [json.loads(x) for x in lines[1:9]]})
        for iso, line, ev, reset_ev, why in job["rej"]:
            keep = os.path.join(vlib.REPLAYS, "C13_" + os.path.basename(iso))
            os.makedirs(vlib.REPLAYS, exist_ok=True)
            shutil.copy(iso, keep)
            with open(iso) as f:
                hist_lines = [json.loads(x) for x in f.readlines()[1:]]
            with open(iso) as f:
                hint = diagnose(f.readlines()[1:], line)
            rep.violation("%s seed %d run %s (%s threads): history rejected by MutexTrace at line %d (%s): %s  [%s]"
                          % (inst, job["seed"], reset_ev.get("run"), reset_ev.get("nt"), line, why, short(ev), hint),
                          {"instance": inst, "seed": job["seed"], "trace": keep, "line": line, "event": ev,
                           "why": why, "hint": hint, "history": hist_lines,
                           "replay_cmd": "TRACE=%s java -Dtlc2.tool.queue.IStateQueue=StateDeque -cp %s tlc2.TLC -workers 1 -deadlock -config spec/cfg/MutexTrace/trace.cfg spec/MutexTrace.tla"
                                         % (keep, vlib.TLA_CP)})
    if not samples and nhist:
        for job in jobs:
            hist = split_histories(job["out"])[1] if os.path.exists(job["out"]) else []
            if hist:
                samples.append({"seed": job["seed"], "reset": json.loads(hist[0][1][0]),
                                "events": len(hist[0][1]) - 1,
                                "first_events": [json.loads(x) for x in hist[0][1][1:9]]})
                break
    if nhist == 0 and not rep.violations:
        raise vlib.CheckBroken("no history was recorded")
    if not samples:
        samples.append({"note": "no history was recorded", "driver_failures": driver_failures})
    nrej = sum(len(j["rej"]) for j in jobs)
    rc = rep.finish()
    coverage = {
        "states": dist + states, "transitions": gen + generated,
        "traces_validated_against_impl": nacc + nrej,
        "samples": samples,
        "histories_recorded": nhist, "histories_accepted": nacc, "histories_rejected_and_confirmed": nrej,
        "trace_events": nevents,
        "driver_processes": len(jobs) - skipped_jobs, "driver_failures": driver_failures,
        "driver_processes_skipped_after_hangs": skipped_jobs,
        "histories_per_build": dict(per_build),
        "thread_count_histogram": {str(k): v for k, v in sorted(thread_hist.items())},
        "histories_with_overlapping_calls": agg["histories_with_overlapping_calls"],
        "calls": agg["calls"], "get_hits_held": agg["hits"],
        "hits_with_concurrent_writer_during_hold": agg["hits_with_concurrent_writer"],
        "calls_that_waited_for_a_pinned_hit": agg["calls_that_waited_for_a_pinned_hit"],
        "spec_model": model,
        "spec_model_distinct_states": dist, "spec_model_generated_states": gen,
        "protection_flags_false": flags,
        "vacuity_warnings": vacuous,
        "tsan": tsan_note,
        "phase_wall_s": {"build_and_model": round(t_model, 1), "record": round(t_rec, 1),
                         "validate": round(time.time() - t0 - t_model - t_rec, 1)},
    }
    vlib.write_evidence(prop, tier, seed, "model_checking", coverage,
                        vlib.ASSUME_COMMON + [
                            "MutexDb is checked exhaustively for 3 threads x 3 calls, 2 keys, 2 values; std::mutex and the sequential index inside the critical section are atomic steps of the model (the latter is C01/C02's subject)",
                            "schedules of the recorded histories are chosen by the operating system (2-8 free-running threads, seeded operation mixes and timing perturbation); real-time order is taken only from one global atomic counter stamped before each call and after each return",
                            "lock ownership at return is observed through owns_lock() of every get_result and, for the other operations, through its consequence: a call that does not wait for a pinned hit, or a lock left held (hang, watchdog), makes the history unacceptable",
                        ],
                        time.time() - t0, len(rep.violations))
    if rc == 0:
        shutil.rmtree(d, ignore_errors=True)
    return rc


def replay(prop, path):
    with open(path) as f:
        payload = json.load(f)
    if "trace" in payload and os.path.exists(payload["trace"]):
        acc, line, r = validate(payload["trace"])
        if acc:
            print("history %s is accepted by MutexTrace" % payload["trace"])
            return 0
        print("VIOLATION property=%s replay=%s" % (prop, path))
        log("  history %s rejected at line %d" % (payload["trace"], line))
        return 1
    if "cmd" in payload:
        p = subprocess.run(payload["cmd"][:-2] + ["--out", "/dev/null"], capture_output=True, text=True, timeout=300)
        if p.returncode != 0:
            print("VIOLATION property=%s replay=%s" % (prop, path))
            log("  driver rc=%d: %s" % (p.returncode, p.stderr[-800:]))
            return 1
        print("driver run completed (schedules are chosen by the operating system; not reproduced this time)")
        return 0
    raise vlib.CheckBroken("replay file %s describes nothing replayable" % path)
