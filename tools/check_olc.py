"""C03, C04, C09, C14: the concurrent OLC index.

Real olc_db under the baton scheduler (harness/olc_driver.cpp): every schedule
with at most P preemptions over a catalogue of scenarios placed at every
structural boundary (tools/scenarios.py), plus seeded random schedules (also at
single-field granularity); every distinct recorded history is validated by TLC
against spec/OlcTrace.tla (linearizability with TLC-chosen linearization points,
scan clauses, memory monitors, liveness verdicts).  The design-level model
spec/OlcArt.tla is checked by TLC in check_olcart.py (killer schedules).
DESIGN.md sections 3.3, 3.4, 3.9, 3.13."""
import hashlib
import json
import os
import re
import shutil
import subprocess
import time

import scenarios
import vlib
from vlib import log

PROPS = ["C03", "C04", "C09", "C14"]


def run_key(tier, seed, which):
    return hashlib.sha1(json.dumps([vlib.repo_hash(), vlib._harness_hash(), tier, seed, which,
                                    open(os.path.join(vlib.VERIF, "tools", "scenarios.py")).read()]).encode()).hexdigest()[:16]


def produce(tier, seed, which):
    """Run the drivers (or reuse the run of a sibling check on the identical source
    tree): returns (dir, stats).  which: 'point' or 'scan'."""
    key = run_key(tier, seed, which)
    d = os.path.join(vlib.CACHE, "olc", key)
    done = os.path.join(d, "DONE.json")
    if os.path.exists(done):
        with open(done) as f:
            return d, json.load(f)
    shutil.rmtree(d, ignore_errors=True)
    os.makedirs(d)
    scs = scenarios.point_scenarios(tier) if which == "point" else scenarios.scan_scenarios(tier)
    exes = vlib.build_many([dict(name="olc_driver", harness_srcs=["olc_driver.cpp"], config="dbg"),
                            dict(name="olc_driver", harness_srcs=["olc_driver.cpp"], config="asan")])
    # many small chunks, heavy scenarios first: the wall time is that of the slowest worker
    def weight(sc):
        return -(len(sc.init) + 10 * sum(len(p) for p in sc.progs) + 40 * (len(sc.progs) - 2))
    scs = sorted(scs, key=weight)
    files = scenarios.write_chunks(scs, d, 3 * vlib.NCPU)
    pb = 2 if tier == "quick" else 3
    jobs = []
    for i, f in enumerate(files):
        jobs.append(("pb", exes[0], f, ["--pb", str(pb), "--max-exec", "10000" if tier == "quick" else "30000"], "pb_%d" % i))
    # the same bounded search with every protected-field access a scheduling point, on the scenarios with
    # in-place edits (a reader overlapping a half-done edit of a key array / child count: seed c09d)
    fscs = [s for s in scs if scenarios.fine_grained(s)] if tier == "quick" else scs
    fd = os.path.join(d, "fine")
    os.makedirs(fd, exist_ok=True)
    for i, f in enumerate(scenarios.write_chunks(fscs, fd, 3 * vlib.NCPU)):
        jobs.append(("pb_fine", exes[0], f, ["--pb", "2", "--fine", "--max-exec", "3000" if tier == "quick" else "15000"], "pf_%d" % i))
    # random schedules: dbg build at field granularity, ASan build at segment granularity
    rn = 150 if tier == "quick" else 3000
    for i, f in enumerate(files):
        jobs.append(("rnd_fine", exes[0], f, ["--random", str(rn), "--seed", str(seed), "--fine"], "rf_%d" % i))
        jobs.append(("rnd_asan", exes[1], f, ["--random", str(rn // 3 + 1), "--seed", str(seed + 7)], "ra_%d" % i))

    def work(job):
        kind, exe, f, args, name = job
        evf = os.path.join(d, name + ".ndjson")
        try:
            p = subprocess.run([exe, "--scenarios", f, "--events", evf] + args, capture_output=True, text=True,
                               timeout=3000)
        except subprocess.TimeoutExpired:
            raise vlib.CheckBroken("olc_driver timeout on %s" % f)
        if p.returncode != 0:
            raise vlib.CheckBroken("olc_driver failed rc=%s on %s: %s" % (p.returncode, f, p.stderr[-800:]))
        st = json.loads(p.stderr.strip().splitlines()[-1])
        st["kind"] = kind
        st["file"] = evf
        return st
    t0 = time.time()
    stats = vlib.parallel_map(work, jobs, workers=vlib.NCPU)
    out = {"jobs": stats, "scenarios": [s.name for s in scs], "preemption_bound": pb, "driver_wall_s": round(time.time() - t0, 1)}
    with open(done, "w") as f:
        json.dump(out, f)
    return d, out


def split_execs(path):
    with open(path) as f:
        lines = f.readlines()
    ex = []
    for ln in lines:
        if ln.startswith('{"e":"reset"'):
            ex.append([])
        if ex:
            ex[-1].append(ln)
    return ex


_RE_MAXL = re.compile(r'"MAXL", (\d+)')
ABNORMAL = ('"stuck"', '"budget"', '"crash"', '"hang"')


def validate_file(path, mode, scratch):
    """-> (n_executions, rejections [(exec_lines, line_idx)], states, skipped)"""
    execs = split_execs(path)
    if not execs:
        return 0, [], 0, 0
    rejections = []
    states = 0
    skipped = 0
    # executions that ended abnormally are judged by C14 (stuck, budget, hang) or
    # C04 (crash: sanitizer report, assertion, segfault); other modes skip them
    normal, abnormal = [], []
    for e in execs:
        (abnormal if any(a in e[-1] for a in ABNORMAL) else normal).append(e)
    for e in abnormal:
        last = e[-1]
        mine = (mode == "C14" and any(a in last for a in ('"stuck"', '"budget"', '"hang"'))) or \
               (mode == "C04" and '"crash"' in last)
        if mine:
            rejections.append((e, len(e) - 1))
        else:
            skipped += 1
    todo = normal
    rnd = 0
    while todo:
        rnd += 1
        # the name carries the whole path: files of the point and the scan catalogue have the
        # same base names and are validated in parallel
        cur = os.path.join(scratch, "%s_%s.%s.v%d.ndjson" % (hashlib.sha1(path.encode()).hexdigest()[:10],
                                                             os.path.basename(path), mode, rnd))
        with open(cur, "w") as f:
            for e in todo:
                f.writelines(e)
        r = vlib.tlc("OlcTrace", "cfg/OlcTrace/trace.cfg", workers=1, env={"TRACE": cur, "MODE": mode},
                     deadlock=False, dfs=True, timeout=1500, xmx="4g")
        os.unlink(cur)
        if r.error:
            raise vlib.CheckBroken(r.error)
        states += r.distinct
        if r.violation == "invariant NotAccepted":
            break       # accepted: the whole file was consumed
        if r.violation is not None:
            raise vlib.CheckBroken("OlcTrace: unexpected %s" % r.violation)
        m = _RE_MAXL.search(r.out)
        maxl = int(m.group(1)) if m else 1
        # maxl = highest line index that was reached but could not be consumed
        off = 0
        bad = None
        for i, e in enumerate(todo):
            if off < maxl <= off + len(e):
                bad = i
                break
            off += len(e)
        if bad is None:
            bad = len(todo) - 1
            off = sum(len(e) for e in todo[:-1])
        rejections.append((todo[bad], maxl - off - 1))
        todo = todo[bad + 1:]
        if rnd > 6:
            break       # enough rejections reported for this file
    return len(execs), rejections, states, skipped


def validate_runs(prop, tier, seed, rep, which):
    """Produce (or reuse) the executions of the scenario families in `which`, validate every
    distinct history in mode `prop`, report rejections to rep; returns a coverage dict."""
    scratch = os.path.join(vlib.CACHE, "olc_val_%s_%d" % (prop, os.getpid()))
    shutil.rmtree(scratch, ignore_errors=True)
    os.makedirs(scratch)
    files = []
    prod = {}
    for w in which:
        d, st = produce(tier, seed, w)
        prod[w] = st
        files += [j["file"] for j in st["jobs"]]
    res = vlib.parallel_map(lambda f: (f, validate_file(f, prop, scratch)), files, workers=vlib.NCPU)
    nexec = states = skipped = 0
    nrej = 0
    samples = []
    for f, (n, rej, st, sk) in res:
        nexec += n
        states += st
        skipped += sk
        for e, idx in rej:
            nrej += 1
            if nrej > 8:
                continue
            hdr = json.loads(e[0])
            ev = e[idx].strip() if 0 <= idx < len(e) else "<end>"
            os.makedirs(vlib.REPLAYS, exist_ok=True)
            keep = os.path.join(vlib.REPLAYS, "%s_%s_%d.ndjson" % (prop, hdr.get("scenario", "x"), nrej))
            with open(keep, "w") as fh:
                fh.writelines(e)
            rep.violation("scenario %s schedule '%s': OlcTrace (mode %s) cannot explain event %d: %s"
                          % (hdr.get("scenario"), hdr.get("sched"), prop, idx + 1, ev[:700]),
                          {"scenario": hdr.get("scenario"), "schedule": hdr.get("sched"), "trace": keep, "event": ev,
                           "history": [x.strip() for x in e[:40]],
                           "replay_cmd": "TRACE=%s MODE=%s tlc -workers 1 -deadlock -config spec/cfg/OlcTrace/trace.cfg spec/OlcTrace.tla" % (keep, prop)})
        if len(samples) < 2:
            ex = split_execs(f)
            if ex:
                samples.append([x.strip() for x in ex[len(ex) // 2][:12]])
    executions = sum(j["executions"] for w in prod.values() for j in w["jobs"])
    abnormal = sum(j["abnormal"] for w in prod.values() for j in w["jobs"])
    per_kind = {}
    for w in prod.values():
        for j in w["jobs"]:
            per_kind[j["kind"]] = per_kind.get(j["kind"], 0) + j["executions"]
    shutil.rmtree(scratch, ignore_errors=True)
    return {
        "states": states, "transitions": states,
        "traces_validated_against_impl": nexec,
        "samples": samples,
        "executions_of_real_code": executions,
        "distinct_histories_validated": nexec,
        "executions_by_exploration": per_kind,
        "preemption_bound": {w: p["preemption_bound"] for w, p in prod.items()},
        "scenarios": {w: p["scenarios"] for w, p in prod.items()},
        "abnormal_executions": abnormal,
        "histories_skipped_other_property": skipped,
        "histories_rejected": nrej,
        "rule": "every schedule with at most P preemptions per scenario (exhaustive within the bound, re-executed on the real code), plus seeded random schedules; identical histories are validated once",
    }


def run(prop, tier, seed):
    t0 = time.time()
    rep = vlib.Report(prop)
    which = ["scan"] if prop == "C09" else ["point"] if prop == "C03" else ["point", "scan"]
    phases = {}
    cov = validate_runs(prop, tier, seed, rep, which)
    phases["drivers_and_trace_validation"] = round(time.time() - t0, 1)
    if prop in ("C03", "C04", "C14", "C09"):
        # the design-level model: exhaustive TLC per scenario, protection flags, killer schedules
        import olcart
        t1 = time.time()
        (gen_n, dist, names, kill), reused = olcart.model_check_cached(tier, scans=(prop == "C09"))
        phases["olcart_exhaustive_and_killers"] = round(time.time() - t1, 1)
        # the counts are those of the TLC run that checked this specification and catalogue (reused or not)
        cov["states"] += dist
        cov["transitions"] += gen_n
        cov["olcart_model"] = {"tlc_run_reused_from_sibling_check_on_identical_spec_and_catalogue": reused,
                               "scenarios_checked_exhaustively": names, "distinct_states": dist, "generated_states": gen_n,
                               "module": "OlcArtIter (iterator and scan protocol on top of OlcArt)" if prop == "C09" else "OlcArt",
                               "invariants": "NoBadOutcome(Linearizable, NoUseAfterFree, ScanBounded, ScanOrdered, ScanValueWasHeld, ScanComplete) OneWriterPerNode NoLockHeldAtReturn NoOrphanLock SpinnersHoldNothing FinalTreeIsMap NoReachableRetired NothingLeaked ShapeOK + deadlock",
                               "protection_flags": {f: ({"refuted_by_TLC": True, "clause": k["clause"] or k["violation"], "killer_schedule": k["schedule"]}
                                                        if k.get("refuted") else
                                                        {"refuted_by_TLC": False, "note": "not needed by any listed property at the model's granularity (field segments are atomic)"})
                                                    for f, k in kill.items()}}
        if prop == "C14":
            # allocation-failure points of C08 on the OLC index: no lock left behind by a failed call
            t1 = time.time()
            import check_fault
            cov["fault_sequences_on_olc"] = check_fault.olc_fault_liveness(rep, tier, seed)
            phases["fault_sequences_on_olc"] = round(time.time() - t1, 1)
            # design level: no reachable state of the interleaving graphs from which the operations cannot all return
            t1 = time.time()
            traps = {}
            for fam, sc in (("point", False), ("scan", True)):
                ta, ta_reused = olcart.trap_analysis_cached(tier, scans=sc)
                traps[fam] = dict(ta, tlc_run_reused_from_sibling_check=ta_reused)
                if ta["trap_states"]:
                    raise vlib.CheckBroken("OlcArt design has trap states (operations that can never all return): %s"
                                           % json.dumps(ta["traps"])[:1500])
                cov["states"] += ta["states"]
            cov["olcart_model"]["no_trap"] = traps
            phases["olcart_no_trap"] = round(time.time() - t1, 1)
        if prop in ("C03", "C09"):
            d = os.path.join(vlib.CACHE, "olc_kill_%d" % os.getpid())
            shutil.rmtree(d, ignore_errors=True)
            os.makedirs(d)
            exe = vlib.build("olc_driver", ["olc_driver.cpp"], "dbg")
            # NDEBUG build: assertion-enabled builds add field reads made by assertions
            t1 = time.time()
            n_sig, mism = olcart.signature_conformance(vlib.build("olc_driver", ["olc_driver.cpp"], "ndebug"), d)
            phases["signature_conformance"] = round(time.time() - t1, 1)
            t1 = time.time()
            cov["olcart_model"]["signature_conformance"] = {"operations_compared": n_sig, "step_structure_mismatches": mism}
            if prop in ("C03", "C09"):
                # spec -> code: contended behaviours of OlcArt / OlcArtIter forced on the real code step by step
                beh, bfiles = olcart.behaviour_replay(vlib.build("olc_driver", ["olc_driver.cpp"], "ndebug"), d, tier,
                                                      scans=(prop == "C09"))
                cov["olcart_model"]["behaviour_replay"] = beh
                cov["states"] += beh["tlc_distinct"]
                cov["transitions"] += beh["tlc_generated"]
                for n, rej, st, sk in vlib.parallel_map(lambda bf: validate_file(bf, prop, d), bfiles, workers=vlib.NCPU):
                    cov["traces_validated_against_impl"] += n
                    cov["states"] += st
                    for e, idx in rej:
                        hdr = json.loads(e[0])
                        ev = e[idx].strip() if 0 <= idx < len(e) else "<end>"
                        os.makedirs(vlib.REPLAYS, exist_ok=True)
                        keep = os.path.join(vlib.REPLAYS, "%s_behaviour_%s.ndjson" % (prop, hdr.get("scenario", "x")))
                        with open(keep, "w") as fh:
                            fh.writelines(e)
                        rep.violation("behaviour of OlcArt replayed on the real code, scenario %s schedule '%s': OlcTrace cannot explain event %d: %s"
                                      % (hdr.get("scenario"), hdr.get("sched"), idx + 1, ev[:500]),
                                      {"scenario": hdr.get("scenario"), "trace": keep, "schedule": hdr.get("sched")})
            phases["behaviour_replay"] = round(time.time() - t1, 1)
            for flag, evf in olcart.replay_killers(kill, exe, d):
                n, rej, st, sk = validate_file(evf, prop, d)
                cov["traces_validated_against_impl"] += n
                for e, idx in rej:
                    hdr = json.loads(e[0])
                    ev = e[idx].strip() if 0 <= idx < len(e) else "<end>"
                    os.makedirs(vlib.REPLAYS, exist_ok=True)
                    keep = os.path.join(vlib.REPLAYS, "%s_killer_%s.ndjson" % (prop, flag))
                    with open(keep, "w") as fh:
                        fh.writelines(e)
                    rep.violation("killer schedule of protection %s (TLC counterexample of OlcArt with the flag FALSE) reproduces on the real code: schedule '%s': OlcTrace cannot explain event %d: %s"
                                  % (flag, hdr.get("sched"), idx + 1, ev[:500]), {"flag": flag, "trace": keep, "schedule": hdr.get("sched")})
            shutil.rmtree(d, ignore_errors=True)
        shutil.rmtree(olcart.GEN, ignore_errors=True)
    cov["phase_seconds"] = phases
    rc = rep.finish()
    vlib.write_evidence(prop, tier, seed, "model_checking", cov,
                        vlib.ASSUME_COMMON + ["preemption bound and scenario catalogue as listed; protected-field segments are atomic in the bounded search (field-granular in the random runs)",
                                              "uint64 keys only in concurrent scenarios"],
                        time.time() - t0, len(rep.violations))
    return rc
