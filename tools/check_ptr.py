"""C17 - qsbr_ptr / qsbr_ptr_span act as raw pointers and track liveness exactly.
DESIGN.md section 3.15.

Pipeline (spec/QsbrPtr.tla is the oracle):
 1. TLC explores instances of spec/QsbrPtrMC.tla exhaustively (complete state graph of
    3 wrapper slots x 2 buffers of 4 elements; 3 wrappers + 2 spans to an operation
    bound; ...) checking RegistryExact, LivenessVerdict, ArithOK, and prints every
    transition (state, action+operands+predicted result, successor, predicted verdict).
 2. An edge cover of each labelled graph is computed here (cover_walk) and cut into
    behaviours starting in the initial state; TLC -simulate adds long random behaviours.
 3. harness/ptr_driver.cpp (assertion build "dbg" and "ndebug") replays them on real
    wrappers; after every step the result and observable state it recorded are compared
    with TLC's prediction; quiescent()/pause+resume verdicts are probed in forked
    children and compared with the predicted verdict (spec -> code).
 4. The driver also generates seeded random call sequences; all recordings (replays and
    random ones) are validated by TLC against spec/PtrTrace.tla (code -> spec).
"""
import concurrent.futures as cf
import hashlib
import json
import multiprocessing
import os
import shutil
import subprocess
import sys
import time

import vlib
from vlib import log

PROPS = ["C17"]

REF_OPS = {"CopyAssign", "MoveAssign", "PreInc", "PreDec", "AddAssign", "SubAssign",
           "SpanCopyAssign", "SpanMoveAssign"}

# name -> (cfg, NW, NS, NB, N, workers)
GRAPHS = {
    "w3full": ("cfg/QsbrPtr/w3full.cfg", 3, 0, 2, 4, 1),
    "w2s2few": ("cfg/QsbrPtr/w2s2few.cfg", 2, 2, 2, 4, 1),
    "w2s1all": ("cfg/QsbrPtr/w2s1all.cfg", 2, 1, 2, 4, 1),
    "w1s2few": ("cfg/QsbrPtr/w1s2few.cfg", 1, 2, 2, 4, 1),
    "w3s2d3": ("cfg/QsbrPtr/w3s2d3.cfg", 3, 2, 2, 4, 1),
}
SIM = ("cfg/QsbrPtr/sim.cfg", 3, 2, 2, 4, 60)          # cfg, NW, NS, NB, N, SimLen
RANDOM_SHAPES = [(4, 3, 3, 6), (3, 2, 2, 4), (6, 4, 4, 15), (2, 2, 1, 3)]   # NW NS NB N

TIERS = {
    # graphs: instances whose edges are covered by replay; quiet: invariants only;
    # probe_mod: one step in probe_mod is probed (both kinds), plus the first visit of every
    # state up to state_probes; nd_probe_mod: the ndebug build makes every n-th of those probes;
    # tv_mod: TLC trace validation of one replay recording in tv_mod (all random and
    # simulation recordings are always validated; a recording with a comparison mismatch too)
    "quick": dict(graphs=["w3full", "w2s1all", "w1s2few"], quiet=[], sims=60, probe_mod=12, state_probes=6000,
                  nd_probe_mod=5, chunk=300, parts=8, random_runs=12, random_seqs=30, random_ops=250,
                  random_probe_pct=35, tv_mod=6),
    "thorough": dict(graphs=["w3full", "w2s1all", "w1s2few", "w2s2few", "w3s2d3"], quiet=["cfg/QsbrPtr/w3s2d5quiet.cfg"],
                     sims=1500, probe_mod=1, state_probes=0, nd_probe_mod=6, chunk=300, parts=16, random_runs=64,
                     random_seqs=60, random_ops=400, random_probe_pct=100, tv_mod=1),
}


def h32(*a):
    return int.from_bytes(hashlib.sha1(repr(a).encode()).digest()[:4], "big")


# ----------------------------------------------------------------------------
# behaviours out of TLC
# ----------------------------------------------------------------------------
def _tup(x):
    return tuple(tuple(v) for v in x[0]), tuple(tuple(v) for v in x[1])


def parse_tlc_edges(out):
    """TLC stdout -> (init_state, init_qa, nodes, edges) ; nodes: state -> id; edges: list of
    (from_id, op, x, y, z, u, res, to_id, qa)."""
    nodes = {}
    states = []
    edges = []
    init = None
    init_qa = None

    def nid(s):
        i = nodes.get(s)
        if i is None:
            i = nodes[s] = len(states)
            states.append(s)
        return i

    for line in out.split("\n"):
        if not line.startswith('"{'):
            continue
        try:
            d = json.loads(line[1:-1].replace('\\"', '"'))
        except ValueError:
            raise vlib.CheckBroken("unparsable TLC edge line: %r" % line[:300])
        if "init" in d:
            init = nid(_tup(d["init"]))
            init_qa = bool(d["qa"])
            continue
        a = d["a"]
        edges.append((nid(_tup(d["f"])), a["op"], a["x"], a["y"], a["z"], a["u"], tuple(a["res"]),
                      nid(_tup(d["t"])), bool(d["qa"])))
    if init is None:
        raise vlib.CheckBroken("no initial state printed by TLC")
    return init, init_qa, states, edges


def cover_walk(nstates, edges, root, chunk):
    """Greedy edge cover of the labelled multigraph by walks from root.
    Returns a list of behaviours (lists of edge indices); every edge index occurs at
    least once.  Deterministic."""
    out = [[] for _ in range(nstates)]
    for i, e in enumerate(edges):
        out[e[0]].append(i)
    # self loops are popped first (they are free), then the rest in a fixed order
    for s in range(nstates):
        out[s].sort(key=lambda i: (edges[i][7] != s, edges[i][1:6]), reverse=True)
    unc = [list(o) for o in out]          # uncovered, popped from the end
    # BFS tree from root
    parent = [None] * nstates
    depth = [-1] * nstates
    depth[root] = 0
    order = [root]
    for s in order:
        for i in reversed(out[s]):
            t = edges[i][7]
            if depth[t] < 0:
                depth[t] = depth[s] + 1
                parent[t] = i
                order.append(t)
    # distinct successors (one edge each) for the local search
    succ1 = []
    for s in range(nstates):
        seen = {}
        for i in reversed(out[s]):
            t = edges[i][7]
            if t != s and t not in seen:
                seen[t] = i
        succ1.append(list(seen.values()))

    # next edge of a shortest path back to root (complete graphs: Destroy edges)
    home = [None] * nstates
    rin = [[] for _ in range(nstates)]
    for i, e in enumerate(edges):
        if e[0] != e[7]:
            rin[e[7]].append(i)
    hq = [root]
    hseen = [False] * nstates
    hseen[root] = True
    for t in hq:
        for i in rin[t]:
            f = edges[i][0]
            if not hseen[f]:
                hseen[f] = True
                home[f] = i
                hq.append(f)

    def go_home(cur, b):
        """append the edges leading from cur back to root; False if there is no way"""
        p = []
        while cur != root:
            i = home[cur]
            if i is None:
                return False
            p.append(i)
            cur = edges[i][7]
        b.extend(p)
        return True

    def path_from_root(t):
        p = []
        while t != root:
            i = parent[t]
            p.append(i)
            t = edges[i][0]
        p.reverse()
        return p

    behaviours = []
    cur_b = []
    cur = root
    remaining = len(edges)
    optr = 0
    while remaining > 0:
        if len(cur_b) >= chunk and cur != root:
            go_home(cur, cur_b)
            behaviours.append(cur_b)
            cur_b = []
            cur = root
        u = unc[cur]
        if u:
            # prefer an edge whose target still has work (bounded look-back)
            k = len(u) - 1
            if edges[u[k]][7] != cur:
                for j in range(len(u) - 1, max(len(u) - 12, -1), -1):
                    t = edges[u[j]][7]
                    if unc[t]:
                        k = j
                        break
            i = u.pop(k)
            remaining -= 1
            cur_b.append(i)
            cur = edges[i][7]
            continue
        # stuck: a neighbour (or neighbour's neighbour) with uncovered edges?
        step = None
        for i in succ1[cur]:
            if unc[edges[i][7]]:
                step = [i]
                break
        if step is None:
            for i in succ1[cur]:
                t = edges[i][7]
                for i2 in succ1[t]:
                    if unc[edges[i2][7]]:
                        step = [i, i2]
                        break
                if step:
                    break
        if step is not None:
            cur_b.extend(step)
            cur = edges[step[-1]][7]
            continue
        # restart from root and walk down the BFS tree to the shallowest state with work
        if cur_b:
            go_home(cur, cur_b)
            behaviours.append(cur_b)
            cur_b = []
        cur = root
        while optr < len(order) and not unc[order[optr]]:
            optr += 1
        if optr >= len(order):
            break
        tgt = order[optr]
        p = path_from_root(tgt)
        cur_b.extend(p)
        cur = tgt
    if cur_b:
        go_home(cur, cur_b)
        behaviours.append(cur_b)
    return behaviours


_jd_cache = {}


def jd(v):
    r = _jd_cache.get(v)
    if r is None:
        r = _jd_cache[v] = json.dumps(v, separators=(",", ":"))
    return r


def write_parts(name, d, shape, behaviours_steps, init_state, init_qa, nparts, tcfg, seed, probe_all_ends=False):
    """behaviours_steps: list of behaviours; a behaviour = list of steps
    (op, x, y, z, u, res, w, s, qa).  Writes <name>.pK.in (driver input) and <name>.pK.exp
    (TLC's predictions, one json line per driver input line).  Returns part descriptors."""
    nb = len(behaviours_steps)
    nparts = max(1, min(nparts, nb))
    total = sum(len(b) for b in behaviours_steps)
    per = total / nparts
    parts = []
    probed_states = set()
    k = 0
    acc = 0
    fin = fexp = None
    cur = None
    nprobe_steps = 0

    def open_part():
        nonlocal fin, fexp, cur
        base = os.path.join(d, "%s.p%d" % (name, len(parts)))
        fin = open(base + ".in", "w")
        fexp = open(base + ".exp", "w")
        cur = dict(graph=name, base=base, shape=shape, steps=0, behaviours=0, probes_requested=0)
        parts.append(cur)

    open_part()
    for bid, b in enumerate(behaviours_steps):
        if acc >= per * len(parts) and len(parts) < nparts:
            # last behaviour of the previous part ends with a probe
            fin.close()
            fexp.close()
            open_part()
        fin.write("B %d\n" % bid)
        fexp.write(json.dumps({"k": "B", "bid": bid, "w": init_state[0], "s": init_state[1], "qa": init_qa}) + "\n")
        for i, (op, x, y, z, u, res, w, s, qa) in enumerate(b):
            pr = 0
            st = (w, s)
            if tcfg["probe_mod"] <= 1 or h32(seed, name, bid, i) % tcfg["probe_mod"] == 0:
                pr = 3
            elif st not in probed_states and len(probed_states) < tcfg["state_probes"]:
                pr = 3
            if pr:
                probed_states.add(st)
                cur["probes_requested"] += 1
            fin.write("S %s %d %d %d %d %d\n" % (op, x, y, z, u, pr))
            fexp.write('{"k":"S","bid":%d,"i":%d,"op":"%s","x":%d,"y":%d,"z":%d,"u":%d,"res":%s,"w":%s,"s":%s,"qa":%s,"pr":%d}\n'
                       % (bid, i, op, x, y, z, u, jd(res), jd(w), jd(s), "true" if qa else "false", pr))
        endpr = 3 if (probe_all_ends or tcfg["probe_mod"] <= 1 or h32(seed, name, bid, "end") % 8 == 0) else 0
        fin.write("E %d\n" % endpr)
        fexp.write(json.dumps({"k": "E", "bid": bid, "pr": endpr, "qa": init_qa}) + "\n")
        if endpr:
            cur["probes_requested"] += 1
        cur["steps"] += len(b)
        cur["behaviours"] += 1
        acc += len(b)
    fin.close()
    fexp.close()
    return parts


def graph_job(args):
    """(separate process) TLC on one instance -> edge cover -> driver inputs."""
    name, tier, seed, d = args
    tcfg = TIERS[tier]
    cfg, NW, NS, NB, N, workers = GRAPHS[name]
    t0 = time.time()
    r = vlib.tlc("QsbrPtrMC", cfg, workers=workers, timeout=1500, xmx="6g")
    if r.error:
        raise vlib.CheckBroken(r.error)
    if r.violation:
        raise vlib.CheckBroken("QsbrPtr model %s violates %s:\n%s" % (cfg, r.violation, r.out[-1500:]))
    t1 = time.time()
    init, init_qa, states, edges = parse_tlc_edges(r.out)
    r.out = ""
    if len(edges) != r.generated - 1:
        raise vlib.CheckBroken("%s: %d edge lines but TLC generated %d states" % (name, len(edges), r.generated))
    t2 = time.time()
    beh = cover_walk(len(states), edges, init, tcfg["chunk"])
    covered = set()
    for b in beh:
        covered.update(b)
    t3 = time.time()
    steps = []
    for b in beh:
        ss = []
        for i in b:
            e = edges[i]
            w, s = states[e[7]]
            ss.append((e[1], e[2], e[3], e[4], e[5], e[6], w, s, e[8]))
        steps.append(ss)
    iw, isp = states[init]
    parts = write_parts(name, d, (NW, NS, NB, N), steps, (iw, isp), init_qa, tcfg["parts"], tcfg, seed)
    per_action = {}
    for e in edges:
        per_action[e[1]] = per_action.get(e[1], 0) + 1
    sample = None
    if steps:
        b0 = steps[min(3, len(steps) - 1)]
        sample = {"graph": name, "behaviour_prefix": [[s[0]] + list(s[1:5]) + [{"res": s[5], "w": s[6], "s": s[7], "accepted": s[8]}]
                                                      for s in b0[:6]]}
    log("[C17] %s: TLC %d states %d edges %.0fs; parse %.0fs; cover %d behaviours %d steps %.0fs; write %.0fs"
        % (name, r.distinct, len(edges), t1 - t0, t2 - t1, len(beh), sum(len(b) for b in beh), t3 - t2, time.time() - t3))
    return dict(name=name, cfg=cfg, distinct=r.distinct, generated=r.generated, depth=r.depth, nstates_seen=len(states),
                edges=len(edges), edges_covered=len(covered), behaviours=len(beh), steps=sum(len(b) for b in beh),
                parts=parts, per_action=per_action, sample=sample, tlc_wall=round(t1 - t0, 1))


def sim_job(args):
    """(separate process) TLC -simulate -> behaviours with predictions -> driver inputs."""
    tier, seed, d = args
    tcfg = TIERS[tier]
    cfg, NW, NS, NB, N, simlen = SIM
    r = vlib.tlc("QsbrPtrMC", cfg, workers=1, simulate=tcfg["sims"], depth=simlen + 2, seed=seed, timeout=1500, xmx="4g")
    if r.error:
        raise vlib.CheckBroken(r.error)
    if r.violation:
        raise vlib.CheckBroken("QsbrPtr simulation violates %s:\n%s" % (r.violation, r.out[-1500:]))
    init = None
    init_qa = None
    behs = []
    seen = set()
    for line in r.out.split("\n"):
        if not line.startswith('"{'):
            continue
        dd = json.loads(line[1:-1].replace('\\"', '"'))
        if "init" in dd:
            init = dd["init"]
            init_qa = bool(dd["qa"])
        elif "hist" in dd:
            key = hashlib.sha1(line.encode()).digest()
            if key in seen:
                continue
            seen.add(key)
            behs.append([(h["a"]["op"], h["a"]["x"], h["a"]["y"], h["a"]["z"], h["a"]["u"], tuple(h["a"]["res"]))
                         + _tup(h["t"]) + (bool(h["qa"]),) for h in dd["hist"]])
    m = None
    import re
    m = re.search(r"The number of states generated: (\d+)", r.out)
    gen = int(m.group(1)) if m else 0
    if not behs or init is None:
        raise vlib.CheckBroken("no behaviours out of TLC simulation:\n%s" % r.out[-1500:])
    tc = dict(tcfg)
    tc["probe_mod"] = 1 if tier == "thorough" else 4
    parts = write_parts("sim", d, (NW, NS, NB, N), behs, _tup(init), init_qa, max(1, tcfg["parts"] // 4), tc, seed)
    log("[C17] sim: %d behaviours of %d steps (%d states generated) in %.0fs" % (len(behs), simlen, gen, r.wall))
    return dict(name="sim", cfg=cfg, behaviours=len(behs), steps=sum(len(b) for b in behs), generated=gen, parts=parts,
                sample={"graph": "sim", "behaviour_prefix": [list(s[:5]) + [{"res": s[5], "w": s[6], "s": s[7], "accepted": s[8]}]
                                                            for s in behs[0][:6]]})


def quiet_job(cfg):
    r = vlib.tlc("QsbrPtrMC", cfg, workers=8, timeout=3000, xmx="8g")
    if r.error:
        raise vlib.CheckBroken(r.error)
    if r.violation:
        raise vlib.CheckBroken("QsbrPtr model %s violates %s:\n%s" % (cfg, r.violation, r.out[-1500:]))
    log("[C17] %s: %d states %d transitions in %.0fs" % (cfg, r.distinct, r.generated, r.wall))
    return dict(cfg=cfg, distinct=r.distinct, generated=r.generated, wall=round(r.wall, 1))


# ----------------------------------------------------------------------------
# running the driver, comparing with the predictions
# ----------------------------------------------------------------------------
def run_driver(exe, argv, timeout=900):
    try:
        p = subprocess.run([exe] + argv, capture_output=True, text=True, timeout=timeout)
        return p.returncode, p.stderr[-1000:]
    except subprocess.TimeoutExpired:
        return -999, "driver timeout"


def span_match(exp, got):
    return len(exp) == len(got) and all(
        e[0] == g[0] and e[1] == g[1] and e[2] == g[2] and (e[3] == -1 or e[3] == g[3]) for e, g in zip(exp, got))


def compare_job(args):
    """(separate process) lock-step comparison of one recording with TLC's predictions.
    Returns dict(mismatch=None|{...}, steps, probes, per_action, probes_rejected)."""
    out_path, exp_path, assertions = args
    res = dict(mismatch=None, steps=0, probes=0, probes_rejected=0, per_action={}, crash=None, cleanup_steps=0)
    try:
        fo = open(out_path)
    except OSError:
        res["mismatch"] = {"why": "no recording"}
        return res
    fe = open(exp_path)
    hdr = json.loads(fo.readline() or "{}")
    if hdr.get("e") != "hdr" or bool(hdr.get("assertions")) != assertions:
        raise vlib.CheckBroken("bad header in %s: %r" % (out_path, hdr))
    history = []          # steps of the current behaviour (for the report)
    first = fe.readline()
    init_qa = json.loads(first)["qa"]     # predicted verdict in the initial state
    cur_qa = init_qa                      # predicted verdict in the current state
    want_probes = 0       # probe events still expected for the last step
    skipping = -1         # behaviour abandoned after a mismatch was recorded (only first is kept)

    def mism(why, ev, exp):
        if res["mismatch"] is None:
            res["mismatch"] = {"why": why, "event": ev, "predicted": exp, "behaviour_so_far": history[-400:],
                               "recording": out_path, "assertions": assertions}

    exp = None
    for line in fo:
        ev = json.loads(line)
        e = ev["e"]
        if e == "end":
            break
        if e == "Crash":
            res["crash"] = ev
            mism("the driver was killed by signal %s inside %s (an assertion of the library failed on a legal call)"
                 % (ev.get("sig"), ev.get("op")), ev, None)
            break
        if e == "Stuck":
            mism("the next call of the behaviour is not defined on the values the code holds", ev, None)
            break
        if e == "Probe":
            res["probes"] += 1
            rejected = assertions and not cur_qa
            if rejected:
                res["probes_rejected"] += 1
                ok = ev["sig"] == 6 and ev["stage"] == 0
            else:
                ok = ev["sig"] == 0 and ev["exit"] == 0 and ev["stage"] == (1 if ev["k"] == "q" else 2)
            if not ok:
                mism("liveness verdict: %s predicted, the forked %s %s"
                     % ("rejection (abort)" if rejected else "acceptance",
                        "quiescent()" if ev["k"] == "q" else "qsbr_pause()/qsbr_resume()",
                        "was killed by signal %d at stage %d" % (ev["sig"], ev["stage"]) if ev["sig"] else
                        "returned (stage %d)" % ev["stage"]), ev, {"accepted": cur_qa})
                break
            continue
        if ev.get("cl"):
            # destruction of what a behaviour left behind: judged by PtrTrace; the
            # state after the last one is the initial state
            res["cleanup_steps"] += 1
            cur_qa = init_qa              # probes follow the last destruction only
            history.append([e, ev["x"], 0, 0, 0])
            continue
        # an ordinary step: the next S line of the predictions
        while True:
            ln = fe.readline()
            if not ln:
                raise vlib.CheckBroken("recording %s has more steps than predictions" % out_path)
            exp = json.loads(ln)
            if exp["k"] == "B":
                history = []
                cur_qa = exp["qa"]
            elif exp["k"] == "E":
                cur_qa = exp["qa"]
            else:
                break
        res["steps"] += 1
        res["per_action"][e] = res["per_action"].get(e, 0) + 1
        history.append([e, ev["x"], ev["y"], ev["z"], ev["u"]])
        if (exp["bid"], exp["i"]) != (ev["bid"], ev["i"]) or exp["op"] != e or \
                (exp["x"], exp["y"], exp["z"], exp["u"]) != (ev["x"], ev["y"], ev["z"], ev["u"]):
            raise vlib.CheckBroken("recording %s out of step with predictions at %r / %r" % (out_path, ev, exp))
        if ev["res"] != exp["res"]:
            mism("result of %s: predicted %s, the code returned %s" % (e, exp["res"], ev["res"]), ev, exp)
            break
        if e in REF_OPS and ev["ref"] != 1:
            mism("%s did not return a reference to the object itself" % e, ev, exp)
            break
        if ev["w"] != exp["w"] or not span_match(exp["s"], ev["s"]):
            mism("state after %s: predicted wrappers %s spans %s, the code holds wrappers %s spans %s"
                 % (e, exp["w"], exp["s"], ev["w"], ev["s"]), ev, exp)
            break
        cur_qa = exp["qa"]
    fo.close()
    fe.close()
    return res


def validate_job(args):
    """TLC trace validation of one recording. -> dict(accepted, line, event, states, cov)"""
    path = args
    acc, matched, r = vlib.validate_trace("PtrTrace", "cfg/PtrTrace/trace.cfg", path, timeout=1800, xmx="4g")
    cov = {}
    import re
    for m in re.finditer(r'<<"(\w+)", (\d+)>>', r.out):
        cov[m.group(1)] = cov.get(m.group(1), 0) + int(m.group(2))
    out = dict(path=path, accepted=acc, states=r.distinct, generated=r.generated, cov=cov, line=None, event=None,
               violation=r.violation, context=None)
    if not acc:
        line = r.depth + 1          # 1-based line of the rejected event
        out["line"] = line
        with open(path) as f:
            lines = f.readlines()
        if line - 1 < len(lines):
            try:
                out["event"] = json.loads(lines[line - 1])
            except ValueError:
                out["event"] = {"raw": lines[line - 1][:300]}
        else:
            out["event"] = {"e": "<recording ends>"}
        ctx = []
        for ln in lines[max(1, line - 16):line - 1]:
            try:
                dd = json.loads(ln)
                ctx.append([dd.get("e"), dd.get("x"), dd.get("y"), dd.get("z"), dd.get("u"), dd.get("res"), dd.get("w"), dd.get("s")]
                           if dd.get("e") != "Probe" else ["Probe", dd.get("k"), dd.get("sig")])
            except ValueError:
                pass
        out["context"] = ctx
    return out


def localise(exe, job, cm, d):
    """A sampled probe disagreed: find the behaviour that caused it and re-run it with both
    probes after every step.  Returns (description, payload) of the first disagreeing
    prefix as judged by PtrTrace, or None."""
    kind, label, build, argv, out, expf = job
    base = expf[:-4]
    with open(base + ".in") as f:
        lin = f.readlines()
    with open(expf) as f:
        lexp = f.readlines()
    groups = []           # per behaviour: list of (in line, exp line)
    for a, b in zip(lin, lexp):
        if a.startswith("B"):
            groups.append([])
        groups[-1].append((a, b))
    bid_fail = cm["event"].get("bid")
    upto = [g for g in groups if int(g[0][0].split()[1]) <= bid_fail]

    def rerun(tag, gs, all_steps):
        pin = "%s.loc%s.in" % (base, tag)
        with open(pin, "w") as fi, open(pin[:-3] + ".exp", "w") as fe:
            for g in gs:
                for a, b in g:
                    if a.startswith("S"):
                        a = a.rsplit(" ", 1)[0] + (" 3\n" if all_steps else " 0\n")
                    elif a.startswith("E"):
                        a = "E 3\n"
                    fi.write(a)
                    fe.write(b)
        rec = "%s.loc%s.%s.ndjson" % (base, tag, build)
        av = list(argv)
        av[av.index("--replay") + 1] = pin
        av[av.index("--out") + 1] = rec
        if "--probe-mod" in av:
            k = av.index("--probe-mod")
            del av[k:k + 2]
        rc, err = run_driver(exe, av)
        if rc not in (0, 3):
            return None, None, None
        return compare_job((rec, pin[:-3] + ".exp", build.startswith("dbg"))), rec, pin

    # which behaviour leaves the registry wrong?  (probe at the end of every behaviour)
    c1, _, _ = rerun("A", upto, False)
    if c1 is None or c1["mismatch"] is None:
        return None
    ev = c1["mismatch"]["event"] or {}
    culprit = ev.get("bid", bid_fail)
    g = [x for x in groups if int(x[0][0].split()[1]) == culprit]
    c2, rec, pin = rerun("B", g, True)
    if c2 is None or c2["mismatch"] is None:
        return None
    v = validate_job(rec)
    if v["accepted"]:
        return None
    m = c2["mismatch"]
    seq = m["behaviour_so_far"]
    desc = "%s build, %s: after the call sequence %s : %s (PtrTrace rejects the recording at line %d)" % (
        ("assertion (%s)" % build) if build.startswith("dbg") else "NDEBUG", label, json.dumps(seq[-12:]), m["why"], v["line"])
    return desc, {"minimal_behaviour_input": keep(pin), "minimal_recording": keep(rec), "call_sequence": seq,
                  "rejected_event": v["event"], "line": v["line"], "why": m["why"], "predicted": m["predicted"]}


def trace_dir(prop):
    d = os.path.join(vlib.CACHE, "traces", "%s_%d" % (prop, os.getpid()))
    shutil.rmtree(d, ignore_errors=True)
    os.makedirs(d)
    return d


def keep(path):
    os.makedirs(vlib.REPLAYS, exist_ok=True)
    dst = os.path.join(vlib.REPLAYS, "C17-" + os.path.basename(path))
    try:
        shutil.copy(path, dst)
        return dst
    except OSError:
        return path


def run(prop, tier, seed):
    t0 = time.time()
    rep = vlib.Report(prop)
    tcfg = TIERS[tier]
    d = trace_dir(prop)
    nproc = max(4, min(vlib.NCPU, 16))

    # ---- phase A: builds, TLC instances + edge covers, simulation (in parallel)
    mp = multiprocessing.get_context("spawn")
    with cf.ProcessPoolExecutor(max_workers=len(tcfg["graphs"]) + 1, mp_context=mp) as pool, \
            cf.ThreadPoolExecutor(max_workers=4) as tpool:
        gf = [pool.submit(graph_job, (g, tier, seed, d)) for g in tcfg["graphs"]]
        sf = pool.submit(sim_job, (tier, seed, d))
        # element types of the wrapped buffers: std::byte (what the library instantiates), uint32_t and a 24-byte
        # record (the property speaks of "the raw pointer it wraps" / "the span it was built from" for any T)
        BUILDS = [("dbg", "dbg", 0), ("ndebug", "ndebug", 0), ("dbg_u32", "dbg", 1), ("dbg_rec24", "dbg", 2)]
        bf = tpool.submit(vlib.build_many, [dict(name="ptr_driver_e%d" % e, harness_srcs=["ptr_driver.cpp"], config=c,
                                                 hflags=["-DPTR_ELEM=%d" % e]) for (_, c, e) in BUILDS])
        qf = [tpool.submit(quiet_job, c) for c in tcfg["quiet"]]
        exe = dict(zip([b[0] for b in BUILDS], bf.result()))
        graphs = [f.result() for f in gf]
        sim = sf.result()
        tA = time.time()
        log("[C17] phase A (TLC, covers, builds) %.0fs" % (tA - t0))

        # ---- phase B: drivers
        jobs = []     # (kind, label, build, argv, out, exp)
        for g in graphs + [sim]:
            for p in g["parts"]:
                NW, NS, NB, N = p["shape"]
                for b in ("dbg", "ndebug", "dbg_rec24"):
                    out = "%s.%s.ndjson" % (p["base"], b)
                    argv = ["--replay", p["base"] + ".in", "--out", out, "--nw", str(NW), "--ns", str(NS),
                            "--nb", str(NB), "--n", str(N)]
                    if b == "ndebug":
                        argv += ["--probe-mod", str(tcfg["nd_probe_mod"])]
                    jobs.append(("replay", g["name"], b, argv, out, p["base"] + ".exp"))
        for k in range(tcfg["random_runs"]):
            NW, NS, NB, N = RANDOM_SHAPES[k % len(RANDOM_SHAPES)]
            b = ("dbg", "dbg_u32", "dbg_rec24", "ndebug")[k % 4]
            s = seed * 100003 + k
            out = os.path.join(d, "random_%d_%s.ndjson" % (s, b))
            argv = ["--random", "--seed", str(s), "--seqs", str(tcfg["random_seqs"]), "--ops", str(tcfg["random_ops"]),
                    "--probe-pct", str(tcfg["random_probe_pct"] if b.startswith("dbg") else max(3, tcfg["random_probe_pct"] // 6)),
                    "--out", out, "--nw", str(NW), "--ns", str(NS), "--nb", str(NB), "--n", str(N)]
            if k % 3 == 1:
                argv.append("--foreign")      # a second QSBR thread holds a wrapper of its own
            jobs.append(("random", "random+foreign" if k % 3 == 1 else "random", b, argv, out, None))

        def drv(job):
            rc, err = run_driver(exe[job[2]], job[3])
            return rc, err
        with cf.ThreadPoolExecutor(max_workers=nproc) as dpool:
            drv_res = list(dpool.map(drv, jobs))
        tB = time.time()
        log("[C17] phase B (%d driver runs) %.0fs" % (len(jobs), tB - tA))

        # ---- phase C: lock-step comparison (replays) and TLC trace validation
        def wants_tv(idx, job):
            if job[0] != "replay" or job[1] == "sim" or tcfg["tv_mod"] <= 1:
                return True
            return h32(seed, job[1], job[2], os.path.basename(job[4])) % tcfg["tv_mod"] == 0
        with cf.ProcessPoolExecutor(max_workers=nproc, mp_context=mp) as cpool, \
                cf.ThreadPoolExecutor(max_workers=max(4, nproc - 6)) as vpool:
            have = [os.path.exists(j[4]) and os.path.getsize(j[4]) > 0 for j in jobs]
            cfs = [cpool.submit(compare_job, (j[4], j[5], j[2].startswith("dbg"))) if j[0] == "replay" and h else None
                   for j, h in zip(jobs, have)]
            vfs = [vpool.submit(validate_job, j[4]) if h and wants_tv(i, j) else None
                   for i, (j, h) in enumerate(zip(jobs, have))]
            cmp_res = [f.result() if f else None for f in cfs]
            # a comparison mismatch is judged by the trace specification
            for i, (c, vf) in enumerate(zip(cmp_res, vfs)):
                if c is not None and c["mismatch"] is not None and vf is None:
                    vfs[i] = vpool.submit(validate_job, jobs[i][4])
            val_res = [f.result() if f else None for f in vfs]
        quiet = [f.result() for f in qf]
    tC = time.time()
    log("[C17] phase C (comparison, trace validation of %d recordings) %.0fs"
        % (sum(1 for v in val_res if v is not None), tC - tB))

    # ---- judgement
    steps = probes = probes_rej = 0
    per_action = {}
    tv_states = tv_gen = 0
    tv_cov = {}
    traces_ok = 0
    replays_ok = 0
    nviol = 0
    probes_by_build = {"dbg": 0, "ndebug": 0, "dbg_u32": 0, "dbg_rec24": 0}
    for job, (rc, err), c, v in zip(jobs, drv_res, cmp_res, val_res):
        kind, label, build, argv, out, expf = job
        cmdline = " ".join([exe[build]] + argv)
        if rc == -999:
            raise vlib.CheckBroken("driver timeout: %s" % cmdline)
        if rc not in (0, 3):
            raise vlib.CheckBroken("driver failed rc=%s: %s\n%s" % (rc, cmdline, err))
        if v is None and c is None:
            raise vlib.CheckBroken("no recording from: %s" % cmdline)
        if rc == 3 and (c is None or c["mismatch"] is None) and (v is None or v["accepted"]):
            raise vlib.CheckBroken("driver crashed but nothing rejects its recording: %s\n%s" % (cmdline, err))
        if v is not None:
            tv_states += v["states"]
            tv_gen += v["generated"]
            for k2, n2 in v["cov"].items():
                tv_cov[k2] = tv_cov.get(k2, 0) + n2
        if c is not None:
            steps += c["steps"]
            probes += c["probes"]
            probes_rej += c["probes_rejected"]
            probes_by_build[build] += c["probes"]
            for k2, n2 in c["per_action"].items():
                per_action[k2] = per_action.get(k2, 0) + n2
        cm = c["mismatch"] if c else None
        if cm is not None and v["accepted"]:
            raise vlib.CheckBroken("comparator reports a mismatch (%s) on a recording PtrTrace accepts: %s"
                                   % (cm["why"], out))
        if v is None:
            replays_ok += 1          # agreed with TLC's predictions step by step
            continue
        if v["accepted"]:
            traces_ok += 1
            if c is not None:
                replays_ok += 1
            continue
        rej = v["event"] or {}
        if rej.get("e") == "Probe" and rej.get("sig") not in (0, 6):
            raise vlib.CheckBroken("probe child died of signal %s (not an assertion): %s line %s"
                                   % (rej.get("sig"), out, v["line"]))
        if v["violation"] not in (None, "postcondition"):
            what = "PtrTrace: %s of QsbrPtr violated on the recorded execution" % v["violation"]
        else:
            what = "PtrTrace rejects the recorded execution"
        nviol += 1
        if nviol > 6:
            continue
        kept = keep(out)
        kin = keep(argv[1]) if kind == "replay" else None
        desc = "%s build, %s %s: %s at line %d: %s" % (
("assertion (%s)" % build) if build.startswith("dbg") else "NDEBUG", kind, label, what, v["line"], json.dumps(v["event"])[:500])
        if cm is not None:
            desc += " | replay comparison: " + cm["why"]
        loc = None
        if cm is not None and kind == "replay" and nviol <= 2 and (cm.get("event") or {}).get("e") == "Probe" \
                and tcfg["probe_mod"] > 1:
            try:
                loc = localise(exe[build], job, cm, d)
            except (OSError, ValueError, KeyError) as ex:
                log("[C17] localisation failed: %r" % (ex,))
            if loc:
                desc = loc[0]
        payload = {"build": build, "kind": kind, "instance": label, "recording": kept, "line": v["line"],
                   "rejected_event": v["event"], "preceding_events": v["context"], "driver_cmd": cmdline,
                   "driver_input": kin, "comparison": cm, "localised": loc[1] if loc else None,
                   "validate_cmd": "cd /verif/spec && TRACE=%s java -cp %s tlc2.TLC -workers 1 -deadlock -config "
                                   "cfg/PtrTrace/trace.cfg PtrTrace.tla" % (kept, vlib.TLA_CP)}
        rep.violation(desc, payload)

    rc = rep.finish()
    states = sum(g["distinct"] for g in graphs) + sum(q["distinct"] for q in quiet)
    trans = sum(g["generated"] for g in graphs) + sum(q["generated"] for q in quiet) + sim["generated"]
    coverage = {
        "states": states + tv_states,
        "transitions": trans + tv_gen,
        "traces_validated_against_impl": traces_ok,
        "replay_recordings_agreeing_with_TLC_predictions": replays_ok,
        "samples": [g["sample"] for g in graphs + [sim] if g.get("sample")],
        "exhaustive": True,
        "model_instances": [{k2: g[k2] for k2 in ("name", "cfg", "distinct", "generated", "depth", "edges", "edges_covered",
                                                  "behaviours", "steps", "tlc_wall")} for g in graphs] + quiet,
        "graph_edges": sum(g["edges"] for g in graphs),
        "graph_edges_replayed": sum(g["edges_covered"] for g in graphs),
        "simulated_behaviours": sim["behaviours"],
        "simulated_steps": sim["steps"],
        "replayed_steps_compared_with_prediction": steps,
        "replayed_steps_per_action": per_action,
        "liveness_probes_compared": probes,
        "liveness_probes_predicted_rejected": probes_rej,
        "liveness_probes_by_build": probes_by_build,
        "recordings": len(jobs),
        "recordings_rejected": nviol,
        "random_recordings": sum(1 for j in jobs if j[0] == "random"),
        "random_recordings_with_foreign_thread": sum(1 for j in jobs if j[1] == "random+foreign"),
        "trace_events_per_action_validated_by_TLC": tv_cov,
        "builds": ["dbg (assertions, std::byte elements)", "ndebug (std::byte)", "dbg_u32 (assertions, uint32_t elements)",
                   "dbg_rec24 (assertions, 24-byte record elements)"],
        "phase_wall_s": {"tlc_cover_build": round(tA - t0, 1), "drivers": round(tB - tA, 1), "compare_validate": round(tC - tB, 1)},
    }
    vlib.write_evidence(prop, tier, seed, "model_checking", coverage,
                        vlib.ASSUME_COMMON + [
                            "one thread is modelled (random recordings marked +foreign run a second QSBR thread holding a wrapper of its own, which must not influence the verdicts); wrapper slots/buffers bounded as listed under model_instances; random recordings use up to 6 wrappers, 4 spans, 4 buffers of 15 elements",
                            "only calls that are defined on raw pointers are made (arithmetic within [begin, one-past-end], relational comparison/difference within one array, assignment between distinct objects); the length of a moved-from span is not compared",
                            "qsbr_resume() can only be probed after an accepted qsbr_pause(): a non-null wrapper cannot legally exist on a paused thread",
                            "liveness verdict observed as SIGABRT of a forked child; %s" %
                            ("every step probed in the assertion build" if tcfg["probe_mod"] <= 1 else
                             "quick tier probes a seeded sample of the steps (plus first visits of states, ends of behaviours and the end of every driver run)"),
                        ],
                        time.time() - t0, len(rep.violations))
    if rc == 0:
        shutil.rmtree(d, ignore_errors=True)
    return rc


def replay(prop, path):
    """Re-execute what a replay file describes on the current tree (vlib.REPO): the driver
    is rebuilt and run on the kept behaviour input (or with the same seed for a random
    recording); the new recording is judged by PtrTrace."""
    with open(path) as f:
        payload = json.load(f)
    argv = payload["driver_cmd"].split()[1:]
    exe = vlib.build_many([dict(name="ptr_driver", harness_srcs=["ptr_driver.cpp"], config=payload["build"])])[0]
    d = trace_dir(prop)
    rec = os.path.join(d, "replay.ndjson")
    argv[argv.index("--out") + 1] = rec
    if payload.get("kind") == "replay":
        loc = payload.get("localised") or {}
        src = loc.get("minimal_behaviour_input") or payload.get("driver_input")
        if not src or not os.path.exists(src):
            raise vlib.CheckBroken("behaviour input named by %s is gone" % path)
        argv[argv.index("--replay") + 1] = src
        if loc and "--probe-mod" in argv:
            k = argv.index("--probe-mod")
            del argv[k:k + 2]
    rc, err = run_driver(exe, argv)
    if rc not in (0, 3):
        raise vlib.CheckBroken("driver failed rc=%s: %s" % (rc, err))
    v = validate_job(rec)
    if v["accepted"]:
        print("recording of the re-execution accepted by PtrTrace")
        shutil.rmtree(d, ignore_errors=True)
        return 0
    print("VIOLATION property=%s replay=%s" % (prop, path))
    log("  PtrTrace rejects the re-execution at line %s: %s" % (v["line"], json.dumps(v["event"])[:500]))
    log("  preceding events: %s" % json.dumps(v["context"])[:1500])
    shutil.rmtree(d, ignore_errors=True)
    return 1
