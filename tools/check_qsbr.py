"""C05 / C06: QSBR.  TLC exhaustive on spec/Qsbr.tla (every atomic access of the
state word and the orphan lists a step) for per-thread call budgets; behaviours of
the model (edge covers of small graphs, the counterexample of the pinned
unregister_thread, i.e. the killer schedule of D6) replayed into real
qsbr_threads under the baton scheduler; seeded random programs/schedules; every
execution validated by TLC against the contract spec/QsbrTrace.tla
(DESIGN.md sections 3.5, 3.6)."""
import os
import re
import shutil
import subprocess
import time

import tlaparse
import vlib
from vlib import log

PROPS = ["C05", "C06"]
QCOV = {}

HOOK_OF_PC = {"q1": "l", "q2": "d", "o1": "x", "o2": "x", "o3": "a", "o3b": "t", "q4": "l", "q5": "c",
              "d1": "l", "r1": "l", "r2": "c", "r4": "l", "u1": "l", "u2a": "c", "u3": "c", "uc": "c",
              "ug": "c", "p1": "o", "p1c": "a", "p2": "o", "p2c": "a"}


def obj_index(o):
    return int(str(o).lstrip("o")) - 1


def token(s1, s2):
    """(state, next state) -> replay token of spec/Qsbr.tla"""
    n = len(s1["pc"])
    who = [t for t in range(n) if s1["pc"][t] != s2["pc"][t] or s1["loc"][t] != s2["loc"][t]
           or s1["refs"][t] != s2["refs"][t] or s1["budget"][t] != s2["budget"][t]]
    if len(who) != 1:
        raise vlib.CheckBroken("cannot attribute step to a thread: %s" % who)
    t = who[0]
    p1, p2 = s1["pc"][t], s2["pc"][t]
    if p1 == "idle":
        if p2 == "q1":
            return "%dQ" % (t + 1)
        if p2 == "d1":
            return "%dD%d" % (t + 1, obj_index(s2["loc"][t]["arg"]))
        if p2 == "u1":
            return "%dP" % (t + 1)
        if p2 == "r1":
            return "%dR" % (t + 1)
        if len(s2["refs"][t]) > len(s1["refs"][t]):
            o = list(s2["refs"][t] - s1["refs"][t])[0]
            return "%dT%d" % (t + 1, obj_index(o))
        return "%dX" % (t + 1)
    return "%d%s" % (t + 1, HOOK_OF_PC[p1])


def behaviour_line(states, nobjs):
    toks = [token(a, b) for a, b in zip(states, states[1:])]
    # threads that start paused in the model are paused first in the real run
    pre = []
    for t, l in enumerate(states[0]["loc"]):
        if l["paused"]:
            pre += ["%dP" % (t + 1), "%dF" % (t + 1)]
    return "%d %d %s" % (len(states[0]["pc"]), nobjs, " ".join(pre + toks))


_RE_STATE = re.compile(r"^State \d+: .*?$\n((?:^(?:/\\|  ).*$\n?)+)", re.M)


def parse_counterexample(out):
    states = []
    for m in _RE_STATE.finditer(out):
        states.append(tlaparse.parse_state(m.group(1)))
    return states


QUICK_MC = ["fix_421", "fix_412", "fix_241", "fix_331", "fix_322", "fix_222", "fix_55"]
QUICK_MC6 = ["r6_53", "r6_44"]
THOROUGH_MC = QUICK_MC + ["fix_332", "fix_2111", "fix_64"]
THOROUGH_MC6 = QUICK_MC6 + ["r6_222", "r6_64"]
# configurations of Qsbr.tla with one protection removed: TLC must refute each; the
# counterexample is replayed on the real code (killer schedule)
KILLER_CFGS = ["pinned_421", "kill_orphan_mode", "kill_unreg_inprogress", "kill_unreg_seen_epoch"]
QUICK_COVER = ["cov_22", "cov_41", "cov_32", "cov_211", "cov_311"]
THOROUGH_COVER = QUICK_COVER + ["cov_221", "cov_33"]


def directed_programs():
    def calls(seq):
        return " ".join("%s %sF" % (c, c[0]) for c in seq.split())
    out = []
    for n in range(1, 10):
        for pre_q in (True, False):
            for alone in (True, False):
                # thread 1 (quiescent or not in its epoch) pauses; thread 2, alone, goes through n quiescent states
                # (n epoch changes); thread 1 resumes -- with nobody registered (alone) or next to thread 2; then
                # requests, rounds and the drain
                seq = ("1Q " if pre_q else "") + "1P " + "2Q " * n
                seq += ("2P 1R 2R " if alone else "1R ")
                seq += "1D0 1Q 2Q 1Q 2Q 1Q 2Q 1Q 2Q"
                out.append("2 1 " + calls(seq))
    for r in range(0, 7):
        # two threads alternate quiescent states; the object is retired in round r (every value of the epoch);
        # the retiring thread then pauses / keeps running
        for leave in ("", "1P ", "2P "):
            seq = "1Q 2Q " * r + "2T0 1D0 2X " + leave + "1Q 2Q " * 4
            seq = seq.replace("1P 1Q", "1P").replace("2P 1Q 2Q", "2P 1Q")
            out.append("2 1 " + calls(" ".join(x for x in seq.split() if not (leave.strip() and x[0] == leave[0] and x != leave.strip() and seq.split().index(leave.strip()) < seq.split().index(x)))))
    for n in (3, 4, 5, 8):
        # three threads: 3 lags (never quiescent) while 1 and 2 cannot advance; then 3 pauses and the others run n rounds
        seq = "3P " + "1Q 2Q " * n + "3R 1D0 1Q 2Q 3Q " * 2 + "1Q 2Q 3Q 1Q 2Q 3Q"
        out.append("3 1 " + calls(seq))
    return out


def run_driver(exe, d, name, inp=None, random_n=0, seed=1, threads=3, objs=2, budget=5, timeout=900, epoch_offset=0):
    evf = os.path.join(d, name + ".ndjson")
    obsf = os.path.join(d, name + ".obs")
    cmd = [exe, "--events", evf, "--obs", obsf]
    if epoch_offset:
        cmd += ["--epoch-offset", str(epoch_offset)]
    if inp:
        cmd += ["--in", inp]
    else:
        cmd += ["--random", str(random_n), "--seed", str(seed), "--threads", str(threads), "--objs", str(objs),
                "--budget", str(budget)]
    try:
        p = subprocess.run(cmd, capture_output=True, text=True, timeout=timeout)
    except subprocess.TimeoutExpired:
        raise vlib.CheckBroken("qsbr_driver timeout: %s" % " ".join(cmd))
    if p.returncode != 0:
        raise vlib.CheckBroken("qsbr_driver failed rc=%s: %s" % (p.returncode, p.stderr[-1000:]))
    return evf, obsf


def split_execs(evf):
    with open(evf) as f:
        lines = f.readlines()
    ex = []
    for ln in lines:
        if ln.startswith('{"e":"reset"'):
            ex.append([])
        if ex:
            ex[-1].append(ln)
    return ex


def validate_events(evf, what, rep, prop, inputs=None):
    """Validate one events file; isolate rejected executions.  Returns (#executions, #rejected, states)."""
    acc, matched, r = vlib.validate_trace("QsbrTrace", "cfg/QsbrTrace/trace.cfg", evf, timeout=1500)
    states = r.distinct
    execs = split_execs(evf)
    m = re.search(r'"QCOV", (\d+), (\d+), (\d+), (\d+), (\d+), (\d+)', r.out)
    if m:
        for k, v in zip(("frees_judged", "frees_with_other_thread_registered", "frees_executed_at_once",
                         "thread_count_clause_enforced", "drain_clause_enforced", "retire_calls"), m.groups()):
            QCOV[k] = QCOV.get(k, 0) + int(v)
    if acc:
        return len(execs), 0, states
    # isolate the rejected execution, report it, continue with the executions after it
    # (at most 5 rounds per file: enough to report, bounded cost on a badly broken tree)
    rejected = 0
    rest = execs
    cur_matched = matched
    for rnd in range(5):
        off = 0
        bad_idx = None
        for i, e in enumerate(rest):
            if off <= cur_matched < off + len(e):
                bad_idx = i
                break
            off += len(e)
        if bad_idx is None:
            bad_idx = len(rest) - 1
            off = sum(len(e) for e in rest[:-1])
        m2 = cur_matched - off
        e = rest[bad_idx]
        rejected += 1
        ev = e[m2].strip() if 0 <= m2 < len(e) else "<end>"
        if classify(prop, ev):
            os.makedirs(vlib.REPLAYS, exist_ok=True)
            keep = os.path.join(vlib.REPLAYS, "%s_%s_r%d.ndjson" % (prop, os.path.basename(evf)[:-7], rnd))
            with open(keep, "w") as f:
                f.writelines(e)
            gi = len(execs) - len(rest) + bad_idx
            rep.violation("%s execution %d: QsbrTrace rejects event %d: %s" % (what, gi, m2 + 1, ev),
                          {"trace": keep, "event": ev, "line": m2 + 1,
                           "schedule": inputs[gi] if inputs and gi < len(inputs) else None,
                           "replay_cmd": "TRACE=%s tlc -workers 1 -deadlock -config spec/cfg/QsbrTrace/trace.cfg spec/QsbrTrace.tla" % keep})
        rest = rest[bad_idx + 1:]
        if not rest:
            break
        nxt = "%s.rest%d.ndjson" % (evf, rnd)
        with open(nxt, "w") as f:
            for x in rest:
                f.writelines(x)
        acc2, cur_matched, r2 = vlib.validate_trace("QsbrTrace", "cfg/QsbrTrace/trace.cfg", nxt, timeout=1500)
        states += r2.distinct
        os.unlink(nxt)
        if acc2:
            break
    return len(execs), rejected, states


def classify(prop, ev):
    """Which property does a rejected event belong to?  free with a waiting thread: C05;
    double free / thread count / drain / rounds: C06; crash or hang: both."""
    if '"crash"' in ev or '"hang"' in ev or '"stuck"' in ev:
        return True
    if prop == "C05":
        return '"free"' in ev
    return '"free"' in ev or '"quiet"' in ev or '"drain"' in ev or '"ret"' in ev or '"call"' in ev


def lockstep_stats(obsf):
    n = ls = 0
    with open(obsf) as f:
        for ln in f:
            p = ln.split()
            if len(p) >= 3 and p[0] == "O":
                n += 1
                ls += 1 if p[2] == "1" else 0
    return n, ls


def run(prop, tier, seed):
    t0 = time.time()
    rep = vlib.Report(prop)
    d = os.path.join(vlib.CACHE, "qsbr_%s_%d" % (prop, os.getpid()))
    shutil.rmtree(d, ignore_errors=True)
    os.makedirs(d)
    # ---- 1. exhaustive model checking of the faithful (repaired) design
    if prop == "C05":
        mcs = QUICK_MC if tier == "quick" else THOROUGH_MC
    else:
        mcs = QUICK_MC6 + ["fix_222"] if tier == "quick" else THOROUGH_MC6 + QUICK_MC
    import gen_behaviours
    covers = QUICK_COVER if tier == "quick" else THOROUGH_COVER
    jobs = [(c, False) for c in mcs + ["paused_132"]] + [(c, True) for c in KILLER_CFGS]

    def mc(job):
        c, kind = job
        return job, vlib.tlc("QsbrMC", "cfg/Qsbr/%s.cfg" % c, workers=6, deadlock=False, timeout=3000, xmx="12g")
    gen = dist = 0
    killer = None
    killers = {}
    for (c, kind), r in vlib.parallel_map(mc, jobs, workers=4):
        if r.error:
            raise vlib.CheckBroken(r.error)
        if kind is True:
            if r.violation is None:
                log("note: %s is no longer refuted by TLC" % c)
                killers[c] = None
            else:
                killers[c] = behaviour_line(parse_counterexample(r.out), 1)
                if c == "pinned_421":
                    killer = parse_counterexample(r.out)
            continue
        if r.violation:
            raise vlib.CheckBroken("Qsbr model %s violates %s" % (c, r.violation))
        gen += r.generated
        dist += r.distinct
    # ---- 2. behaviours to replay
    inputs = [k for k in killers.values() if k]
    cover_stats = {}
    # call-level programs over MANY epochs (each call runs to completion: "<t><op> <t>F"): the model-derived
    # behaviours and the random programs make at most 3-4 epoch changes, these make up to 10, so the 2-bit epoch
    # wraps while a thread is paused / lags / holds requests (seeds c05f, c06e)
    directed = directed_programs()
    inputs += directed
    cover_stats["directed_many_epochs"] = {"behaviours": len(directed)}

    def cover(c):
        if tier == "quick":
            # paths of the edge cover that traverse every abstract transition class at least
            # twice (derived from the TLC graph by tools/gen_behaviours.py; regenerated when
            # the spec changed)
            hdr, lines = gen_behaviours.load(c)
            if lines is None:
                gen_behaviours.generate(c, d)
                hdr, lines = gen_behaviours.load(c)
            return c, lines, {"selection": hdr}
        g, paths, r = gen_behaviours.graph_paths(c, d)
        return c, gen_behaviours.lines_of(g, paths), {"states": len(g.states), "edges": g.nedges,
                                                        "paths_replayed": len(paths), "full_edge_cover": True}
    for c, lines, st in vlib.parallel_map(cover, covers, workers=4):
        inputs += lines
        st["behaviours"] = len(lines)
        cover_stats[c] = st
    exes = vlib.build_many([dict(name="qsbr_driver", harness_srcs=["qsbr_driver.cpp"], config="dbg"),
                            dict(name="qsbr_driver", harness_srcs=["qsbr_driver.cpp"], config="asan")])
    nchunks = vlib.NCPU
    chunks = [inputs[i::nchunks] for i in range(nchunks)]

    def replay(ci):
        if not chunks[ci]:
            return None
        inp = os.path.join(d, "in_%d.txt" % ci)
        with open(inp, "w") as f:
            f.write("\n".join(chunks[ci]) + "\n")
        exe = exes[ci % 2] if tier == "thorough" or ci % 4 == 0 else exes[0]
        # a quarter of the chunks start from each value of the 2-bit epoch (wrap-around within the execution)
        evf, obsf = run_driver(exe, d, "replay_%d" % ci, inp=inp, epoch_offset=ci % 4)
        n, rej, st = validate_events(evf, "replay of Qsbr behaviours", rep, prop, chunks[ci])
        return n, rej, st, lockstep_stats(obsf)

    def rand(i):
        nt = 2 + i % 3
        exe = exes[i % 2]
        evf, obsf = run_driver(exe, d, "rand_%d" % i, random_n=(60 if tier == "quick" else 600), seed=seed * 100 + i,
                               threads=nt, objs=2 + i % 2, budget=4 + i % 3, epoch_offset=(i // 2) % 4)
        n, rej, st = validate_events(evf, "random programs (%d threads, seed %d)" % (nt, seed * 100 + i), rep, prop)
        return n, rej, st, (0, 0)

    res = vlib.parallel_map(lambda j: replay(j[1]) if j[0] == "p" else rand(j[1]),
                            [("p", i) for i in range(nchunks)] + [("r", i) for i in range(nchunks)], workers=nchunks)
    nexec = nrej = tstates = lsn = lsok = 0
    for r in res:
        if r is None:
            continue
        nexec += r[0]
        nrej += r[1]
        tstates += r[2]
        lsn += r[3][0]
        lsok += r[3][1]
    rc = rep.finish()
    cov = {
        "states": dist + tstates, "transitions": gen + tstates,
        "traces_validated_against_impl": nexec,
        "samples": inputs[:2] + inputs[-1:],
        "model_configs": mcs,
        "model_distinct_states": dist, "model_generated_states": gen,
        "killer_schedules": killers,
        "edge_cover_replays": cover_stats,
        "replayed_behaviours": lsn, "replayed_in_lock_step": lsok,
        "executions_rejected": nrej,
        "contract_clause_counts_on_accepted_files": dict(QCOV),
    }
    vlib.write_evidence(prop, tier, seed, "model_checking", cov,
                        vlib.ASSUME_COMMON + ["per-thread call budgets as in the listed configs; 1 object in exhaustive runs, 2-3 in random executions",
                                              "compare_exchange_weak does not fail spuriously (x86)"],
                        time.time() - t0, len(rep.violations))
    if rc == 0:
        shutil.rmtree(d, ignore_errors=True)
    return rc
