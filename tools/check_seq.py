"""Checks bound to ArtSeq / ArtSeqTrace: C01 (point operations), C02 (scans),
C10 (shape, statistics, memory).  DESIGN.md sections 3.1, 3.2, 3.10."""
import json
import os
import re
import shutil
import subprocess
import time

import vlib
from vlib import log

PROPS = ["C01", "C02", "C10"]

INSTANCES = [(d, k) for d in range(3) for k in range(2)]
DB_NAMES = ["db", "mutex_db", "olc_db"]
KEY_NAMES = ["uint64", "key_view"]

_RE_COV = re.compile(r'<<"(\w+)", (\d+)>>')


def build_seq_drivers(config="dbg", extra_flags=()):
    specs = [dict(name="seq_%d_%d" % (d, k), harness_srcs=["seq_driver.cpp"], config=config,
                  extra_flags=extra_flags,
                  hflags=["-DSEQ_DB=%d" % d, "-DSEQ_KEY=%d" % k]) for d, k in INSTANCES]
    exes = vlib.build_many(specs)
    return dict(zip(INSTANCES, exes))


def model_check(tier):
    """TLC on the ArtSeq model instances (self-consistency of the oracle)."""
    cfgs = ["cfg/ArtSeq/keys16.cfg", "cfg/ArtSeq/keys8q.cfg", "cfg/ArtSeq/keysvarq.cfg"]
    if tier == "thorough":
        cfgs = ["cfg/ArtSeq/keys16.cfg", "cfg/ArtSeq/keys8.cfg", "cfg/ArtSeq/keysvar.cfg"]
    res = vlib.parallel_map(lambda c: (c, vlib.tlc("ArtSeqMC", c, workers=4, timeout=1500)), cfgs, workers=3)
    gen = dist = 0
    for c, r in res:
        if r.error:
            raise vlib.CheckBroken(r.error)
        if r.violation:
            raise vlib.CheckBroken("ArtSeq model violates %s in %s:\n%s" % (r.violation, c, r.out[-2000:]))
        gen += r.generated
        dist += r.distinct
    return gen, dist, [c for c, _ in res]


def run_driver(exe, seed, histories, ops, out, thorough=False, replay=None, timeout=600):
    cmd = [exe, "--seed", str(seed), "--histories", str(histories), "--ops", str(ops), "--out", out]
    if thorough:
        cmd.append("--thorough")
    if replay:
        cmd += ["--replay", replay]
    try:
        p = subprocess.run(cmd, capture_output=True, text=True, timeout=timeout)
        return p.returncode, p.stderr[-2000:]
    except subprocess.TimeoutExpired:
        return -999, "driver timeout"


def spec_behaviours(tier, seed, d):
    """Behaviours of the ArtSeq model to be replayed into the real index classes (spec -> code):
    an edge cover of the complete TLC state graph of the 8-key instances (every insert / remove /
    clear transition incl. the duplicate / absent self-loops), as op files for seq_driver --replay.
    Returns {"fixed": path, "var": path}, stats."""
    import random
    import tlaparse
    out = {}
    stats = {}
    for tag, cfg in (("fixed", "cfg/ArtSeq/keys8q.cfg"), ("var", "cfg/ArtSeq/keysvarq.cfg")):
        dump = os.path.join(d, "artseq_" + tag)
        r = vlib.tlc("ArtSeqMC", cfg, workers=4, dump=dump, timeout=1500)
        if r.error or r.violation:
            raise vlib.CheckBroken("ArtSeqMC %s: %s" % (cfg, r.error or r.violation))
        g = tlaparse.load_dot(dump + ".dot")
        os.unlink(dump + ".dot")
        paths = tlaparse.edge_cover(g, skip_self_loops=False)
        total = len(paths)
        if tier == "quick":
            random.Random(seed).shuffle(paths)
            paths = paths[:250]
        keys = set()
        lines = []
        for p in paths:
            lines.append("N")
            for (_, lab, args, _) in p:
                if lab == "DoInsert":
                    k = args[0]
                    keys.add(k)
                    lines.append("I %s %d" % ("".join("%02x" % b for b in k), args[1]["n"]))
                elif lab == "DoRemove":
                    keys.add(args[0])
                    lines.append("R %s" % "".join("%02x" % b for b in args[0]))
                elif lab == "DoClear":
                    lines.append("C")
            for k in sorted(keys):
                lines.append("G %s" % "".join("%02x" % b for b in k))
            lines.append("E")
            lines.append("S")
        path = os.path.join(d, "replay_%s.ops" % tag)
        with open(path, "w") as f:
            f.write("\n".join(lines) + "\n")
        out[tag] = path
        stats[tag] = {"states": len(g.states), "edges": g.nedges, "cover_paths": total, "replayed": len(paths)}
    return out, stats


def pad_u64(ops_path, d):
    """the same behaviours for 64-bit keys: key bytes right-aligned in 8 bytes"""
    out = os.path.join(d, os.path.basename(ops_path) + ".u64")
    with open(ops_path) as f, open(out, "w") as g:
        for ln in f:
            p = ln.split()
            if p and p[0] in "IRG" and len(p) > 1:
                p[1] = p[1].rjust(16, "0")
                g.write(" ".join(p) + "\n")
            else:
                g.write(ln)
    return out


def split_histories(path):
    """-> header line, list of (first_line_no, [lines]) per history."""
    with open(path) as f:
        lines = f.readlines()
    hdr = lines[0]
    hist = []
    cur = None
    for i, ln in enumerate(lines[1:], start=2):
        if ln.startswith('{"e":"reset"'):
            cur = (i, [ln])
            hist.append(cur)
        elif cur is not None:
            cur[1].append(ln)
    return hdr, hist


def validate(path, mode):
    acc, matched, r = vlib.validate_trace("ArtSeqTrace", "cfg/ArtSeqTrace/trace.cfg", path,
                                          env={"MODE": mode}, timeout=1500)
    cov = {}
    for m in _RE_COV.finditer(r.out):
        cov[m.group(1)] = cov.get(m.group(1), 0) + int(m.group(2))
    # rejected line (1-based) = deepest state depth + 1
    return acc, r.depth + 1, cov, r


def validate_isolating(path, mode, max_rounds=6):
    """Validate a trace; on rejection isolate the offending history, record it and
    continue with the remaining histories.  Returns (rejections, cov, states, nevents)
    where rejections = [(history_file, line_in_history_file, event_dict, gen)]."""
    rejections = []
    cov_total = {}
    states = 0
    cur = path
    nevents = 0
    for rnd in range(max_rounds):
        acc, line, cov, r = validate(cur, mode)
        states += r.distinct
        if acc:
            for k, v in cov.items():
                cov_total[k] = cov_total.get(k, 0) + v
            with open(cur) as f:
                nevents += sum(1 for _ in f) - 1
            break
        hdr, hist = split_histories(cur)
        # find history containing the rejected line
        idx = None
        for i, (first, lines) in enumerate(hist):
            if first <= line < first + len(lines):
                idx = i
        if idx is None:
            idx = len(hist) - 1
        first, lines = hist[idx]
        iso = "%s.h%d.r%d.ndjson" % (path, idx, rnd)
        with open(iso, "w") as f:
            f.write(hdr)
            f.writelines(lines)
            # a history must end with the reset that destroys the index
            if idx + 1 < len(hist):
                f.write(hist[idx + 1][1][0])
        acc2, line2, _, r2 = validate(iso, mode)
        states += r2.distinct
        if acc2:
            # not reproducible in isolation: checker problem
            raise vlib.CheckBroken("rejection of %s at line %d not reproduced on isolated history %s"
                                   % (cur, line, iso))
        with open(iso) as f:
            iso_lines = f.readlines()
        ev = json.loads(iso_lines[line2 - 1]) if line2 - 1 < len(iso_lines) else {"e": "<end>"}
        gen = json.loads(lines[0]).get("gen", "?")
        rejections.append((iso, line2, ev, gen))
        # continue with the rest
        rest = "%s.rest%d.ndjson" % (path, rnd)
        with open(rest, "w") as f:
            f.write(hdr)
            for i, (_, ls) in enumerate(hist):
                if i != idx:
                    f.writelines(ls)
        cur = rest
        if len(hist) <= 1:
            break
    return rejections, cov_total, states, nevents


POINT_EVENTS = {"ins", "rem", "get", "empty", "recheck", "clear", "quiesce"}


def classify(prop, mode, iso, line, ev):
    """Does a rejection at event ev (in mode) belong to property prop?"""
    e = ev.get("e")
    if prop == "C01":
        return True
    if prop == "C02":
        return e in ("scan", "dump")
    if prop == "C10":
        # statistics clause: rejected in C10 mode but accepted up to here in C01 mode
        acc, line1, _, _ = validate(iso, "C01")
        return acc or line1 != line
    return True


def short_event(ev):
    s = json.dumps(ev)
    return s if len(s) < 600 else s[:600] + "..."


def trace_dir(prop):
    d = os.path.join(vlib.CACHE, "traces", "%s_%d" % (prop, os.getpid()))
    shutil.rmtree(d, ignore_errors=True)
    os.makedirs(d)
    return d


def run(prop, tier, seed):
    t0 = time.time()
    rep = vlib.Report(prop)
    mode = prop
    gen, dist, cfgs = model_check(tier)
    exes = build_seq_drivers("dbg")
    d = trace_dir(prop)
    if tier == "quick":
        runs_per_inst, histories, ops = 3, 11, 120
    else:
        runs_per_inst, histories, ops = 40, 11, 300
    jobs = []
    for (db, key), exe in exes.items():
        for r in range(runs_per_inst):
            s = seed * 1000 + r * 7 + db * 3 + key
            jobs.append((db, key, exe, s, os.path.join(d, "t_%d_%d_%d.ndjson" % (db, key, s)), None))
    # spec -> code: behaviours chosen by TLC replayed into the six instantiations
    beh, beh_stats = spec_behaviours(tier, seed, d)
    u64ops = pad_u64(beh["fixed"], d)
    for (db, key), exe in exes.items():
        if key == 0:
            jobs.append((db, key, exe, 0, os.path.join(d, "replay_%d_%d_fixed.ndjson" % (db, key)), u64ops))
        else:
            jobs.append((db, key, exe, 0, os.path.join(d, "replay_%d_%d_fixed.ndjson" % (db, key)), beh["fixed"]))
            jobs.append((db, key, exe, 0, os.path.join(d, "replay_%d_%d_var.ndjson" % (db, key)), beh["var"]))

    def work(job):
        db, key, exe, s, out, replay = job
        rc, err = run_driver(exe, s, histories, ops, out, thorough=(tier == "thorough"), replay=replay)
        rej, cov, states, nev = ([], {}, 0, 0)
        if os.path.exists(out) and os.path.getsize(out) > 0:
            rej, cov, states, nev = validate_isolating(out, mode)
        return job, rc, err, rej, cov, states, nev

    results = vlib.parallel_map(work, jobs, workers=vlib.NCPU)
    cov_total = {}
    states = 0
    nevents = 0
    ntraces = 0
    skipped = 0
    samples = []
    for job, rc, err, rej, cov, st, nev in results:
        db, key, exe, s, out, replay = job
        inst = "%s<%s>" % (DB_NAMES[db], KEY_NAMES[key])
        states += st
        nevents += nev
        ntraces += 1
        for k, v in cov.items():
            cov_total[k] = cov_total.get(k, 0) + v
        if rc != 0:
            m = re.search(r"CRASH sig=(\d+) op=(\w+)", err)
            op = m.group(2) if m else "?"
            mine = (prop == "C01" and op in ("ins", "rem", "get", "clear", "?", "none")) or \
                   (prop == "C02" and op == "scan") or (prop == "C10" and op == "reset")
            if mine or rc == -999:
                rep.violation("%s seed %d: driver died (rc=%s) during %s: %s" % (inst, s, rc, op, err[-400:]),
                              {"instance": inst, "seed": s, "cmd": [exe, "--seed", str(s), "--histories", str(histories),
                                                                    "--ops", str(ops)], "stderr": err})
        for iso, line, ev, g in rej:
            if classify(prop, mode, iso, line, ev):
                keep = os.path.join(vlib.REPLAYS, os.path.basename(iso))
                os.makedirs(vlib.REPLAYS, exist_ok=True)
                shutil.copy(iso, keep)
                rep.violation("%s seed %d generator %s: trace rejected by ArtSeqTrace (mode %s) at line %d: %s"
                              % (inst, s, g, mode, line, short_event(ev)),
                              {"instance": inst, "seed": s, "trace": keep, "line": line, "event": ev,
                               "replay_cmd": "TRACE=%s MODE=%s tlc -workers 1 -deadlock -config spec/cfg/ArtSeqTrace/trace.cfg spec/ArtSeqTrace.tla" % (keep, mode)})
            else:
                skipped += 1
        if len(samples) < 3 and os.path.exists(out):
            with open(out) as f:
                ls = f.readlines()
            samples.append({"instance": inst, "seed": s, "events": len(ls),
                            "first_events": [json.loads(x) for x in ls[2:5]]})
    concurrent = None
    if prop == "C10":
        # C10 also after concurrent phases once all threads have quiesced: the executions of
        # the C03 scenario family, final statistics judged by OlcTrace in mode C10
        import check_olc
        concurrent = check_olc.validate_runs("C10", tier, seed, rep, ["point"])
        states += concurrent["states"]
        ntraces += concurrent["traces_validated_against_impl"]
    rc = rep.finish()
    never = sorted(k for k, v in cov_total.items() if v == 0)
    coverage = {
        "states": dist + states, "transitions": gen + states,
        "traces_validated_against_impl": ntraces,
        "samples": samples,
        "spec_model_distinct_states": dist, "spec_model_generated_states": gen,
        "spec_model_configs": cfgs,
        "spec_behaviours_replayed_into_impl": beh_stats,
        "trace_events_validated": nevents,
        "per_case_counts_from_accepted_traces": cov_total,
        "cases_never_taken": never,
        "histories_skipped_other_property": skipped,
        "instances": ["%s<%s>" % (DB_NAMES[a], KEY_NAMES[b]) for a, b in INSTANCES],
        "mode": mode,
    }
    if concurrent is not None:
        coverage["concurrent_phase"] = {k: v for k, v in concurrent.items() if k not in ("samples", "scenarios", "rule")}
    vlib.write_evidence(prop, tier, seed, "model_checking", coverage,
                        vlib.ASSUME_COMMON + [
                            "histories are generated (seeded, aimed at every structural case of ArtSeq), not enumerated",
                            "key_view histories keep compressed path segments <= 7 bytes (known finding D3)",
                            "ArtSeq model instances use scaled capacities <<2,4,6,8>>; traces use the real <<4,16,48,256>>"],
                        time.time() - t0, len(rep.violations))
    if rc == 0:
        shutil.rmtree(d, ignore_errors=True)
    return rc
