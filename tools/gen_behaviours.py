#!/usr/bin/env python3
"""Derive replayable behaviours from the TLC state graph of spec/Qsbr.tla:
edge cover of the complete graph of a small configuration, reduced to the paths
that are needed to traverse every *abstract transition class* at least K times
(class = acting thread, its next pc, and an abstraction of the state: per thread
pc / pending-request emptiness / paused / quiesced flag, orphan-list emptiness,
clipped counters, whether somebody must still be waited for).  The result is
stored under spec/behaviours/Qsbr/<cfg>.txt together with the hash of the spec
it was derived from; checks regenerate it when the spec has changed.  The
thorough tier replays the full edge cover instead."""
import hashlib
import os
import sys

sys.path.insert(0, os.path.dirname(os.path.abspath(__file__)))
import tlaparse  # noqa: E402
import vlib  # noqa: E402

OUT = os.path.join(vlib.SPEC, "behaviours", "Qsbr")


def spec_hash():
    h = hashlib.sha1()
    for f in ("Qsbr.tla", "QsbrMC.tla"):
        with open(os.path.join(vlib.SPEC, f), "rb") as fh:
            h.update(fh.read())
    return h.hexdigest()[:16]


def absst(s):
    th = tuple((s['pc'][i], len(s['loc'][i]['prev']) > 0, len(s['loc'][i]['cur']) > 0, s['loc'][i]['paused'],
                s['loc'][i]['qsec']) for i in range(len(s['pc'])))
    mw = any(len(v) > 0 for v in s['mustWait'].values())
    return (th, len(s['orphP']) > 0, len(s['orphC']) > 0, min(s['st']['tip'], 2), min(s['st']['tc'], 2), mw,
            len(s['freed']) > 0)


def graph_paths(cfg, scratch):
    import check_qsbr
    dump = os.path.join(scratch, cfg)
    r = vlib.tlc("QsbrMC", "cfg/Qsbr/%s.cfg" % cfg, workers=6, deadlock=False, dump=dump, timeout=3000)
    if r.error or r.violation:
        raise vlib.CheckBroken("Qsbr %s: %s" % (cfg, r.error or r.violation))
    g = tlaparse.load_dot(dump + ".dot")
    os.unlink(dump + ".dot")
    paths = tlaparse.edge_cover(g)
    return g, paths, r


def select(g, paths, K=2):
    classes = {}
    kept = []
    for p in paths:
        keep = False
        for (a, lab, args, b) in p:
            s, s2 = g.state(a), g.state(b)
            who = [i for i in range(len(s['pc'])) if s['pc'][i] != s2['pc'][i] or s['loc'][i] != s2['loc'][i]
                   or s['refs'][i] != s2['refs'][i]]
            c = (absst(s), tuple(who), s2['pc'][who[0]] if who else None)
            n = classes.get(c, 0)
            if n < K:
                keep = True
            classes[c] = n + 1
        if keep:
            kept.append(p)
    return kept, len(classes)


def lines_of(g, paths, nobjs=1):
    import check_qsbr
    out = []
    for p in paths:
        sts = [g.state(p[0][0])] + [g.state(e[3]) for e in p]
        out.append(check_qsbr.behaviour_line(sts, nobjs))
    return out


def generate(cfg, scratch, K=2):
    g, paths, r = graph_paths(cfg, scratch)
    kept, ncls = select(g, paths, K)
    lines = lines_of(g, kept)
    os.makedirs(OUT, exist_ok=True)
    with open(os.path.join(OUT, cfg + ".txt"), "w") as f:
        f.write("# spec-hash %s cfg %s states %d edges %d full_cover_paths %d abstract_classes %d K %d selected %d\n"
                % (spec_hash(), cfg, len(g.states), g.nedges, len(paths), ncls, K, len(kept)))
        f.write("\n".join(lines) + "\n")
    return len(kept)


def load(cfg):
    p = os.path.join(OUT, cfg + ".txt")
    if not os.path.exists(p):
        return None, None
    with open(p) as f:
        hdr = f.readline()
        if ("spec-hash %s " % spec_hash()) not in hdr:
            return None, None
        return hdr.strip(), [ln.strip() for ln in f if ln.strip()]


if __name__ == "__main__":
    scratch = os.path.join(vlib.CACHE, "gen_beh")
    os.makedirs(scratch, exist_ok=True)
    cfgs = sys.argv[1:] or ["cov_22", "cov_41", "cov_32", "cov_211", "cov_311", "cov_221", "cov_33"]
    for n in vlib.parallel_map(lambda c: (c, generate(c, scratch)), cfgs, workers=4):
        print(n)
