"""Regenerate the table of DESIGN.md section 10.5 from seeded/*/meta.json."""
import glob
import json
import os
import re

ROOT = os.path.dirname(os.path.dirname(os.path.abspath(__file__)))


def cell(s, n):
    s = re.sub(r"\s+", " ", str(s)).replace("|", "/")
    return s if len(s) <= n else s[:n - 1].rstrip() + "…"


def main():
    rows = []
    for d in sorted(glob.glob(os.path.join(ROOT, "seeded", "*"))):
        mf = os.path.join(d, "meta.json")
        if not os.path.exists(mf):
            continue
        m = json.load(open(mf))
        rows.append("| %s | %s | %s | %s |" % (os.path.basename(d), m.get("breaks", "?"), cell(m.get("change", ""), 200),
                                             cell(m.get("detected_by", ""), 330)))
    p = os.path.join(ROOT, "DESIGN.md")
    s = open(p).read()
    head = "| Seed | Property | Change | Caught by |\n|---|---|---|---|\n"
    i = s.index(head) + len(head)
    j = s.index("\n\n", i)
    s = s[:i] + "\n".join(rows) + s[j:]
    open(p, "w").write(s)
    print("%d seeds" % len(rows))


if __name__ == "__main__":
    main()
