#!/usr/bin/env python3
"""usage: tools/keep_seed.py <tag> <prop> <change> <needs> <detected_by> <ran> [origin]
copies /tmp/mut_<tag>/{patch.diff,run.sh,README.md,*.cpp} to /verif/seeded/<tag>/ and writes meta.json"""
import glob, json, os, shutil, sys
tag, prop, change, needs, det, ran = sys.argv[1:7]
origin = sys.argv[7] if len(sys.argv) > 7 else "independent fault seeder (fifth wave, session 3)"
src = "/tmp/mut_" + tag
dst = "/verif/seeded/" + tag
os.makedirs(dst, exist_ok=True)
for f in ["patch.diff", "run.sh", "README.md"] + [os.path.basename(x) for x in glob.glob(src + "/*.cpp") + glob.glob(src + "/*.hpp")]:
    if os.path.exists(os.path.join(src, f)):
        shutil.copy(os.path.join(src, f), dst)
json.dump({"breaks": prop, "origin": origin, "change": change, "needs": needs,
           "confirmed": "demo fails on changed sources / passes on /repo; ctest 10/10 with the change (tools/try_seed.sh)",
           "detected_by": det, "ran": ran}, open(os.path.join(dst, "meta.json"), "w"))
print(os.listdir(dst))
