#!/bin/bash
# usage: tools/mk_worktree.sh <tag> [nobuild]
# scratch git worktree of /repo at /tmp/wt_<tag> (detached HEAD) with the third-party submodules linked and the
# repository's own test suite configured the way /repo/_build is (Ninja, RelWithDebInfo, -Wno-error) and built.
# Patches: git -C /tmp/wt_<tag> diff -- '*.hpp' '*.cpp' '*.txt'
# Remove with: git -C /repo worktree remove --force /tmp/wt_<tag>
set -e
tag=$1
W=/tmp/wt_$tag
git -C /repo worktree add --detach "$W" HEAD >/dev/null 2>&1
cp -r /repo/3rd_party/googletest/. "$W/3rd_party/googletest/"   # only googletest is populated (3.8 MB)
[ "$2" = nobuild ] && { echo "$W"; exit 0; }
cmake -G Ninja -S "$W" -B "$W/_build" -DCMAKE_BUILD_TYPE=RelWithDebInfo -DCMAKE_CXX_FLAGS=-Wno-error >"$W/_cmake.log" 2>&1
cmake --build "$W/_build" -j${JOBS:-8} >>"$W/_cmake.log" 2>&1
echo "$W"
