"""The design-level model spec/OlcArt.tla: exhaustive TLC over the scenario catalogue,
protection-flag variants (each must be refuted by TLC: the counterexample is a
*killer schedule*), signature conformance of the model's uncontended step sequences
with the real code (OLC_SIGLOG), and replay of killer schedules into the real
olc_db.  Used by check_olc.py (C03, C04, C14).  DESIGN.md 3.3, 2.5."""
import json
import os
import re
import shutil
import subprocess

import olcart_scen
import scenarios
import tlaparse
import vlib

GEN = os.path.join(vlib.CACHE, "olcart_gen_%d" % os.getpid())

# protection flag -> scenario (init keys, programs) in which its absence must be refuted
KILLERS = {
    "LockRemainingChildOnCollapse": ([1, 257, 258], [["g257"], ["r1"]]),
    "RecheckParentAfterAdd": ([257, 258], [["i259"], ["i1"]]),
    "GetRechecksParent": ([1, 2, 3], [["g3"], ["r3", "r2"]]),
    "ObsoleteReplacedNode": ([1, 2, 3, 4], [["i5"], ["i6"]]),
    "RemoveChecksNodeBeforeChildLock": ([1, 2, 3], [["r3"], ["r3", "i3"]]),
    "IterChecksAfterNextRead": ([1, 2, 3, 4], [["sf"], ["r1"]]),
}

HOOK_OF_PC = {
    "g_rl": "L_LOAD", "i_rl": "L_LOAD", "r_rl": "L_LOAD", "g_rf": "F", "i_rf": "F", "r_rf": "F",
    "g_re": "L_CHECK", "g_rc": "L_CHECK", "i_rc": "L_CHECK", "r_rc": "L_CHECK",
    "g_sp": "SPIN", "i_sp": "SPIN", "r_sp": "SPIN",
    "g_nl": "L_LOAD", "i_nl": "L_LOAD", "r_nl": "L_LOAD", "r_cl": "L_LOAD", "r_k2": "L_LOAD",
    "g_pu": "L_CHECK", "g_lu": "L_CHECK", "g_nu": "L_CHECK", "g_pc": "L_CHECK", "g_nf": "F",
    "i_du1": "L_CHECK", "i_du2": "L_CHECK", "i_cu": "L_CHECK", "i_cc": "L_CHECK", "i_ac": "L_CHECK",
    "i_nf": "F", "i_cl": "F", "i_ew": "L_CAS", "i_es": "F", "i_sw1": "L_CAS", "i_sw2": "L_CAS", "i_sf": "F",
    "i_pw1": "L_CAS", "i_pw2": "L_CAS", "i_pf": "F", "i_gw1": "L_CAS", "i_gw2": "L_CAS", "i_go": "L_OBSOLETE",
    "i_gf": "F", "i_aw": "L_CAS", "i_af": "F",
    "r_lu": "L_CHECK", "r_lw1": "L_CAS", "r_lw2": "L_CAS", "r_lo": "L_OBSOLETE", "r_ls": "F", "r_nf": "F",
    "r_m1": "L_CHECK", "r_m2": "L_CHECK", "r_nc": "L_CHECK", "r_pu": "L_CHECK", "r_x1": "L_CHECK",
    "r_x2": "L_CHECK", "r_x3": "L_CHECK", "r_ms": "F", "r_d1": "L_CHECK", "r_d2": "L_CAS", "r_d3": "L_CAS",
    "r_d4": "L_OBSOLETE", "r_d5": "F", "r_k1": "L_CHECK", "r_k3": "L_CAS", "r_k4": "L_CAS", "r_k5": "L_CAS",
    "r_k6": "L_CAS", "r_k7": "L_OBSOLETE", "r_k8": "L_OBSOLETE", "r_k9": "F", "r_s1": "L_CAS", "r_s2": "L_CAS",
    "r_s3": "L_CAS", "r_s4": "L_OBSOLETE", "r_s5": "L_OBSOLETE", "r_s6": "F", "unw": "L_UNLOCK",
}


ITER_HOOKS = {"L_LOAD": ["f0", "k0", "t1", "k4", "s_call"], "F": ["f1", "k1", "t4", "t6", "n_rd", "n_gc", "k8"],
              "SPIN": ["f_sp", "k_sp"],
              "L_CHECK": ["f2", "k2", "k3", "t0", "t2", "t3", "t5", "t7", "n_top", "n_lu", "n_chk", "n_none", "n_gk",
                          "k5", "k6", "k7", "k9", "k10", "k11", "k12", "k13", "k14", "k_pmu"]}
for _k, _v in ITER_HOOKS.items():
    for _p in _v:
        HOOK_OF_PC[_p] = _k


def hook_of(pc):
    if pc.endswith("_s"):
        return "SPIN"
    return HOOK_OF_PC[pc]


_prepared = False
_prep_lock = __import__("threading").Lock()


def prepare():
    """copy the base modules once (never while TLC jobs of this process may be reading them)"""
    global _prepared
    with _prep_lock:
        _prepare_locked()


def _prepare_locked():
    global _prepared
    if not _prepared:
        os.makedirs(GEN, exist_ok=True)
        tmp = os.path.join(GEN, "OlcArt.tla.tmp%d" % os.getpid())
        for m in ("OlcArt.tla", "OlcArtIter.tla"):
            shutil.copy(os.path.join(vlib.SPEC, m), tmp)
            os.replace(tmp, os.path.join(GEN, m))
        _prepared = True


def gen(name, init, progs, **kw):
    prepare()
    return olcart_scen.generate(name, init, progs, outdir=GEN, **kw)


def usable(sc, scans=False):
    """scenarios of the catalogue expressible in the model: keys < 2^24; point operations only,
    or (scans=True) with scans on trees whose nodes stay in the two sorted classes"""
    has_scan = False
    for p in sc.progs:
        for tok in p:
            if tok[0] not in "gir":
                has_scan = True
    if has_scan != scans:
        return False
    if scans and len(sc.init) > 60:
        return False
    return all(k < (1 << 24) for k in sc.init)


def model_check(tier, scans=False):
    """exhaustive TLC over the point-operation catalogue (or, scans=True, the scanner/writer
    catalogue with module OlcArtIter); returns (generated, distinct, names)"""
    if scans:
        scs = [s for s in scenarios.scan_scenarios(tier) if usable(s, True)]
        if tier == "quick":
            scs = [s for s in scs if len(s.progs) == 2 and sum(len(p) for p in s.progs) <= 3]
    else:
        scs = [s for s in scenarios.point_scenarios(tier) if usable(s)]
        if tier == "quick":
            # the largest trees are left to the thorough tier
            scs = [s for s in scs if len(s.init) <= 17 and sum(len(p) for p in s.progs) <= 4]

    # the three-thread scenarios have 10^6 states, the others 10^2..10^4 (JVM start dominates): big ones first
    # and with more TLC workers
    def big(sc):
        return len(sc.progs) >= 3 or sum(len(p) for p in sc.progs) >= 5
    scs = sorted(scs, key=lambda sc: 0 if big(sc) else 1)

    def work(sc):
        w = 7 if big(sc) else 1
        mod, d = gen(sc.name, sc.init, sc.progs, qeach=(sc.q == "each"), max_extra=4 + 3 * sum(len(p) for p in sc.progs))
        r = vlib.tlc(mod, mod + ".cfg", spec_dir=d, workers=w, timeout=3000, xmx="3g")
        if r.error:     # a JVM that failed to start under load: one retry
            r = vlib.tlc(mod, mod + ".cfg", spec_dir=d, workers=w, timeout=3000, xmx="3g")
        return sc.name, r
    gen_n = dist = 0
    names = []
    for name, r in vlib.parallel_map(work, scs, workers=10):
        if r.error:
            raise vlib.CheckBroken("OlcArt %s: %s" % (name, r.error[-1500:]))
        if r.violation:
            raise vlib.CheckBroken("OlcArt model violates %s in scenario %s:\n%s" % (r.violation, name, r.out[-1500:]))
        gen_n += r.generated
        dist += r.distinct
        names.append(name)
    return gen_n, dist, names


# ---------------------------------------------------------------- C14: no trap (design level)
_RE_LK = re.compile(r'/\\ lk = (.*?)(?:\n/\\|\Z)', re.S)
_RE_LKW = re.compile(r'\d+ :> (\d+)')


def _trap_work(arg):
    """complete interleaving graph of one scenario (lock versions <= max_version): backward reachability from the
    states in which every operation has returned.  A reachable state from which neither such a state nor the
    exploration frontier (a lock word within one write of the version bound: its successors may have been cut) can
    be reached is a trap: a set of threads that can never all return, whatever the scheduler does from there on
    (deadlock, or a livelock no schedule can leave)."""
    sc, max_version = arg
    mod, gd = gen("trap_" + sc.name, sc.init, sc.progs, qeach=(sc.q == "each"),
                  max_extra=4 + 3 * sum(len(p) for p in sc.progs), max_version=max_version)
    dump = os.path.join(gd, mod + "_graph")
    r = vlib.tlc(mod, mod + ".cfg", spec_dir=gd, workers=1, timeout=1500, xmx="2g", dump=dump)
    if r.error or r.violation:
        raise vlib.CheckBroken("OlcArt trap analysis %s: %s" % (sc.name, r.error or r.violation))
    g = tlaparse.load_dot(dump + ".dot")
    os.unlink(dump + ".dot")
    good = set()
    frontier = 0
    for sid, txt in g.states.items():
        pcs = _RE_PC.findall(txt)
        if all(p == "done" for p in pcs):
            good.add(sid)
            continue
        m = _RE_LK.search(txt)
        if m and any(int(w) >= max_version - 3 for w in _RE_LKW.findall(m.group(1))):
            good.add(sid)
            frontier += 1
    rev = {}
    for a, es in g.edges.items():
        for (lab, args, b) in es:
            rev.setdefault(b, []).append(a)
    stack = list(good)
    while stack:
        u = stack.pop()
        for v in rev.get(u, ()):
            if v not in good:
                good.add(v)
                stack.append(v)
    traps = [sid for sid in g.states if sid not in good]
    sample = ""
    if traps:
        sample = g.states[traps[0]][:1500]
    return dict(scenario=sc.name, states=len(g.states), frontier_states=frontier, trap_states=len(traps), sample=sample,
                generated=r.generated, distinct=r.distinct)


def trap_analysis(tier, scans=False, max_version=12):
    cat = scenarios.scan_scenarios(tier) if scans else scenarios.point_scenarios(tier)
    scs = [s for s in cat if usable(s, scans) and len(s.init) <= (60 if scans else 17)
           and len(s.progs) == 2 and sum(len(p) for p in s.progs) <= (3 if tier == "quick" else 4)]
    if scans and tier == "quick":
        # the largest graphs are left to the thorough tier
        scs = [s for s in scs if "_vs_collapse" not in s.name and "reseek_grow" not in s.name and "two_levels" not in s.name
               and "range_inplace" not in s.name and "i16" not in s.name]
    prepare()
    import concurrent.futures as cf
    with cf.ProcessPoolExecutor(max_workers=vlib.NCPU) as ex:
        per = list(ex.map(_trap_work, [(s, max_version) for s in scs]))
    return {"scenarios": len(per), "states": sum(p["states"] for p in per), "trap_states": sum(p["trap_states"] for p in per),
            "frontier_states": sum(p["frontier_states"] for p in per),
            "traps": [{"scenario": p["scenario"], "trap_states": p["trap_states"], "sample_state": p["sample"]} for p in per if p["trap_states"]],
            "rule": "complete interleaving graph per 2-thread scenario, lock versions <= %d; backward reachability from the all-returned states; states from which the exploration frontier is reachable are not judged" % max_version}


def _spec_cached(tag, fn):
    """results that depend on the specification and the scenario catalogue only (not on the code under test)
    are computed once per (spec, catalogue, tag) and shared by the sibling checks; -> (value, reused)"""
    import hashlib
    h = hashlib.sha1()
    for f in (os.path.join(vlib.SPEC, "OlcArt.tla"), os.path.join(vlib.SPEC, "OlcArtIter.tla"),
              os.path.join(vlib.VERIF, "tools", "olcart.py"), os.path.join(vlib.VERIF, "tools", "olcart_scen.py"),
              os.path.join(vlib.VERIF, "tools", "scenarios.py"), os.path.join(vlib.VERIF, "tools", "tlaparse.py")):
        with open(f, "rb") as fh:
            h.update(fh.read())
    h.update(tag.encode())
    path = os.path.join(vlib.CACHE, "olcart_%s.json" % h.hexdigest()[:16])
    if os.path.exists(path):
        try:
            with open(path) as f:
                return json.load(f), True
        except ValueError:
            pass
    v = fn()
    os.makedirs(vlib.CACHE, exist_ok=True)
    tmp = path + ".tmp%d" % os.getpid()
    with open(tmp, "w") as f:
        json.dump(v, f)
    os.replace(tmp, path)
    return v, False


def model_check_cached(tier, scans=False):
    """-> ((generated, distinct, names, killers), reused)"""
    def fn():
        gen_n, dist, names = model_check(tier, scans)
        return {"generated": gen_n, "distinct": dist, "names": names, "killers": killers()}
    c, reused = _spec_cached("mc %s %s" % (tier, scans), fn)
    return (c["generated"], c["distinct"], c["names"], c["killers"]), reused


def trap_analysis_cached(tier, scans=False):
    return _spec_cached("trap %s %s" % (tier, scans), lambda: trap_analysis(tier, scans))


_RE_STATE = re.compile(r"^State \d+: .*?$\n((?:^(?:/\\|  |   ).*$\n?)+)", re.M)


def counterexample_states(out):
    return [tlaparse.parse_state(m.group(1)) for m in _RE_STATE.finditer(out)]


def thread_order(states):
    """sequence of thread ids (1-based) of the steps of a behaviour that correspond to scheduling
    points of the real code: the first Call of a thread is its START step, later Calls and the
    environment's Free steps have no counterpart"""
    order = []
    started = set()
    for a, b in zip(states, states[1:]):
        who = [t for t in range(len(a["th"])) if a["th"][t] != b["th"][t]]
        if not who:
            continue        # Free(n)
        t = who[0]
        if a["th"][t]["pc"] == "idle":
            if t in started:
                continue
            started.add(t)
        order.append(t + 1)
    return order


def schedule_of(order):
    """thread order -> olc_driver --sched string"""
    sw = []
    cur = None
    for pos, t in enumerate(order):
        if t != cur:
            sw.append("%d:%d" % (pos, t - 1))
            cur = t
    return ",".join(sw)


def killers():
    """-> {flag: dict(violation, schedule, scenario)}; every flag must be refuted"""
    def work(item):
        flag, (init, progs) = item
        mod, d = gen("kill_" + flag, init, progs, flags={flag: False})
        r = vlib.tlc(mod, mod + ".cfg", spec_dir=d, workers=4, timeout=1500)
        return flag, init, progs, r
    out = {}
    for flag, init, progs, r in vlib.parallel_map(work, list(KILLERS.items()), workers=5):
        if r.error:
            raise vlib.CheckBroken("OlcArt killer %s: %s" % (flag, r.error[-1000:]))
        if r.violation is None:
            out[flag] = {"refuted": False, "scenario": {"init": init, "progs": progs}}
            continue
        sts = counterexample_states(r.out)
        bad = re.findall(r'bad = "([^"]*)"', r.out)
        out[flag] = {"refuted": True, "violation": r.violation, "clause": bad[-1] if bad else "",
                     "scenario": {"init": init, "progs": progs}, "schedule": schedule_of(thread_order(sts)),
                     "steps": len(sts) - 1}
    return out


def replay_killers(kill, exe, d):
    """run each killer schedule on the real code; returns [(flag, events_file)]"""
    files = []
    for flag, k in kill.items():
        if not k.get("refuted"):
            continue
        sc = scenarios.Sc("killer_" + flag, k["scenario"]["init"], k["scenario"]["progs"])
        sf = os.path.join(d, "killer_%s.txt" % flag)
        with open(sf, "w") as f:
            f.write(sc.text() + "\n")
        evf = os.path.join(d, "killer_%s.ndjson" % flag)
        p = subprocess.run([exe, "--scenarios", sf, "--events", evf, "--sched", k["schedule"], "--keep-all"],
                           capture_output=True, text=True, timeout=300)
        if p.returncode != 0:
            raise vlib.CheckBroken("olc_driver failed on killer %s: %s" % (flag, p.stderr[-500:]))
        files.append((flag, evf))
    return files


# ---------------------------------------------------------------- signature conformance
SIG_SCENARIOS = [
    ("sig_empty", [], ["g5", "i5", "g5", "g6", "i5", "i6", "g6", "i7", "r7", "r6", "r5", "r5"]),
    ("sig_grow", [1, 2, 3, 4], ["i5", "r5", "i65536", "r65537", "r9", "r131072"]),
    ("sig_two", [1, 257, 258], ["g257", "i65793", "r65793", "r1"]),
    ("sig_collapse", [1, 2, 257], ["r257", "i257", "r1", "r2"]),
    ("sig_scan_two", [1, 2, 257, 258], ["sf", "sr", "ff2", "ff3", "fr200", "ff257", "R2-258", "R258-1", "ff300", "sfh2", "fr258h1"]),
    ("sig_scan_leaf", [5], ["sf", "sr", "ff5", "ff6", "ff4", "fr4"]),
    ("sig_scan_empty", [], ["sf", "sr", "ff5"]),
    ("sig_scan_three", [1, 2, 3, 257, 258, 513], ["sf", "fr300", "ff4", "R3-513", "R513-2"]),
    # the two node classes that are indexed by the key byte itself
    ("sig_scan_i48", [3 * i for i in range(1, 21)], ["sf", "sr", "ff31h2", "fr31h2", "ff100", "R10-40", "R40-10h3"]),
    ("sig_scan_i256", [3 * i for i in range(1, 53)], ["sfh5", "srh5", "ff100h2", "fr100h2", "ff200"]),
]


def model_signature(name, init, prog):
    """kinds of the scheduling points of each operation of a single-threaded run of the model"""
    mod, d = gen(name, init, [prog], max_extra=12)
    cfg = os.path.join(d, mod + ".cfg")
    with open(cfg) as f:
        c = f.read()
    c = c.replace("INVARIANTS ", "INVARIANTS NotAllDone ")
    with open(cfg, "w") as f:
        f.write(c)
    with open(os.path.join(d, mod + ".tla")) as f:
        m = f.read()
    with open(os.path.join(d, mod + ".tla"), "w") as f:
        f.write(m.replace("====", "NotAllDone == ~AllDone\n===="))
    r = vlib.tlc(mod, mod + ".cfg", spec_dir=d, workers=1, timeout=600)
    if r.error or r.violation != "invariant NotAllDone":
        raise vlib.CheckBroken("OlcArt signature run %s: %s %s" % (name, r.violation, (r.error or "")[-800:]))
    sts = counterexample_states(r.out)
    ops = []
    for a, b in zip(sts, sts[1:]):
        pa = a["th"][0]["pc"]
        if a["th"][0] == b["th"][0]:
            continue
        if pa == "idle":
            ops.append([])
            continue
        ops[-1].append(hook_of(pa))
    return ops


def real_signature(exe, name, init, prog, d):
    sc = scenarios.Sc(name, init, [prog])
    sf = os.path.join(d, name + ".txt")
    with open(sf, "w") as f:
        f.write(sc.text() + "\n")
    evf = os.path.join(d, name + ".ndjson")
    p = subprocess.run([exe, "--scenarios", sf, "--events", evf, "--sched", "0:0", "--keep-all"],
                       capture_output=True, text=True, timeout=120, env=dict(os.environ, OLC_SIGLOG="1"))
    if p.returncode != 0:
        raise vlib.CheckBroken("olc_driver (siglog) failed: %s" % p.stderr[-500:])
    ops = []
    cur = None
    with open(evf) as f:
        for ln in f:
            e = json.loads(ln)
            if e["e"] in ("call", "scall"):
                cur = []
            elif e["e"] == "step" and cur is not None:
                k = e["k"]
                cur.append("F" if k in ("F_LOAD", "F_STORE") else k)
            elif e["e"] in ("ret", "sret") and cur is not None:
                ops.append(cur)
                cur = None
    return ops


def signature_conformance(exe, d):
    """-> (#operations compared, [mismatch descriptions]); a mismatch is a divergence of step
    structure between model and code: reported in the evidence, not a violation (DESIGN 2.6)"""
    n = 0
    mism = []

    def work(item):
        name, init, prog = item
        return item, model_signature(name, init, prog), real_signature(exe, name, init, prog, d)
    for (name, init, prog), ms, rs in vlib.parallel_map(work, SIG_SCENARIOS, workers=4):
        for i, tok in enumerate(prog):
            n += 1
            m = ms[i] if i < len(ms) else None
            r = rs[i] if i < len(rs) else None
            if m != r:
                mism.append("%s op %d (%s): model %s, code %s" % (name, i + 1, tok, m, r))
    return n, mism


# ---------------------------------------------------------------- behaviour replay (spec -> code)
# Behaviours of the *contended* model (edge cover of the complete interleaving graph of a small
# scenario, reduced to the paths that traverse every per-thread pc transition -- hence every failing
# check/CAS, spin and restart branch -- in every distinct lock context) are executed on the real olc_db:
# the thread order is forced step by step and the kind of every scheduling point the code reaches
# (OLC_SIGLOG) as well as every returned result is compared with the model's prediction.  A
# divergence is a difference of step structure (DESIGN 2.6 rule 2): it is reported, and the
# recorded execution is judged by OlcTrace like any other.
REPLAY_SCENARIOS = {}     # {"only": [names]} restricts the replay (debugging)


def _pc_of_label(lab):
    return "unw" if lab == "UnwindStep" else lab.lower()


_RE_PC = re.compile(r'pc \|-> "(\w+)"')
_pcs_cache = {}


def _pcs(g, sid):
    """per-thread pcs of a state, from its raw text (no full parse)"""
    k = (id(g), sid)
    v = _pcs_cache.get(k)
    if v is None:
        v = _RE_PC.findall(g.states[sid])
        _pcs_cache[k] = v
    return v


def _actor(g, edge):
    """(thread 1-based, pc before the step) of an edge of the dumped graph, or None for an environment step
    (Free, final stuttering).  Actions of OlcArtIter itself are labelled with their name and thread; the steps
    OlcArtIter inherits from OlcArt appear as 'NextI' (a conjunction with the ghost update) and are resolved from
    the two states."""
    a, lab, args, b = edge
    if lab in ("Free", "Next"):
        return None
    if lab != "NextI" and args:
        return args[0], ("idle" if lab == "Call" else _pc_of_label(lab))
    pa, pb = _pcs(g, a), _pcs(g, b)
    diff = [t for t in range(len(pa)) if pa[t] != pb[t]]
    if len(diff) == 1:
        return diff[0] + 1, pa[diff[0]]
    sa, sb = g.state(a)["th"], g.state(b)["th"]
    who = [t for t in range(len(sa)) if sa[t] != sb[t]]
    if not who:
        return None
    return who[0] + 1, sa[who[0]]["pc"]


def model_steps(g, path):
    """-> ([(thread 1-based, hook kind, pc)], {thread: [result,...]}) of a model behaviour given as a path of the
    dumped graph.  States are parsed only where a result is read: before a later Call of the same thread and at
    the end of the path."""
    steps = []
    started = set()
    ret_states = []     # (thread, state id): the thread's previous operation has returned in that state
    for e in path:
        act = _actor(g, e)
        if act is None:
            continue
        t, pc = act
        if pc == "idle":
            if t in started:
                ret_states.append((t, e[0]))
                continue
            started.add(t)
            steps.append((t, "START", "idle"))
            continue
        steps.append((t, hook_of(pc), pc))
    results = {}
    last = g.state(path[-1][3]) if path else None

    def res_of(st, t):
        r = st["th"][t - 1]
        if r["op"] == "scan":
            return [(int.from_bytes(bytes(k), "big"), v) for (k, v) in st["it"][t - 1]["seen"]]
        return r["res"]
    for t, sid in ret_states:
        results.setdefault(t, []).append(res_of(g.state(sid), t))
    if last is not None:
        for t in range(1, len(last["th"]) + 1):
            if last["th"][t - 1]["pc"] in ("idle", "done") and last["th"][t - 1]["i"] > len(results.get(t, [])):
                results.setdefault(t, []).append(res_of(last, t))
    return steps, results


def _select_paths(g, paths, K):
    """paths needed to traverse every class (acting thread, its pc, its next pc -- hence every failing check/CAS,
    spin and restart branch -- and the pc of every other thread) K times"""
    classes = {}
    kept = []
    for p in paths:
        keep = False
        for e in p:
            act = _actor(g, e)
            if act is None:
                continue
            t, pc = act
            pa, pb = _pcs(g, e[0]), _pcs(g, e[3])
            c = (t, pc, pb[t - 1], tuple(x for u, x in enumerate(pa) if u != t - 1))
            k = classes.get(c, 0)
            if k < K:
                keep = True
            classes[c] = k + 1
        if keep:
            kept.append(p)
    return kept, len(classes)


def _beh_work(arg):
    sc, exe, d, K, max_paths = arg
    name = sc.name
    mod, gd = gen("beh_" + name, sc.init, sc.progs, qeach=(sc.q == "each"),
                  max_extra=4 + 3 * sum(len(p) for p in sc.progs), max_version=12, keep_seen=True)
    dump = os.path.join(gd, mod + "_graph")
    r = vlib.tlc(mod, mod + ".cfg", spec_dir=gd, workers=1, timeout=1500, xmx="2g", dump=dump)
    if r.error or r.violation:
        raise vlib.CheckBroken("OlcArt behaviour graph %s: %s" % (name, r.error or r.violation))
    g = tlaparse.load_dot(dump + ".dot")
    os.unlink(dump + ".dot")
    paths = tlaparse.edge_cover(g)
    kept, ncls = _select_paths(g, paths, K)
    if len(kept) > max_paths:
        kept = kept[:: (len(kept) + max_paths - 1) // max_paths]
    preds = []
    sf = os.path.join(d, "beh_%s.sched" % name)
    with open(sf, "w") as f:
        for p in kept:
            steps, results = model_steps(g, p)
            preds.append((steps, results))
            f.write("%s;%d\n" % (schedule_of([s[0] for s in steps]), len(steps)))
    scf = os.path.join(d, "beh_%s.txt" % name)
    with open(scf, "w") as f:
        f.write(sc.text() + "\n")
    evf = os.path.join(d, "beh_%s.ndjson" % name)
    p = subprocess.run([exe, "--scenarios", scf, "--events", evf, "--sched-file", sf, "--keep-all"],
                       capture_output=True, text=True, timeout=1500, env=dict(os.environ, OLC_SIGLOG="1"))
    if p.returncode != 0:
        raise vlib.CheckBroken("olc_driver (behaviour replay) failed on %s: %s" % (name, p.stderr[-500:]))
    # compare
    lock_step = res_agree = res_cmp = 0
    diverged = []
    execs = []
    with open(evf) as f:
        for ln in f:
            if ln.startswith('{"e":"reset"'):
                execs.append([])
            if execs:
                execs[-1].append(ln)
    clean = evf[:-7] + ".hist.ndjson"
    seen_hist = set()
    n_hist = 0
    with open(clean, "w") as out:
        for (steps, results), ex in zip(preds, execs):
            real = []
            rets = {}
            visits = {}
            hist = []
            for ln in ex:
                e = json.loads(ln)
                if e["e"] == "step":
                    k = e["k"]
                    real.append((e["t"], "F" if k in ("F_LOAD", "F_STORE") else k))
                    continue
                hist.append(ln)
                if e["e"] == "ret":
                    rets.setdefault(e["t"], []).append(e)
                elif e["e"] == "scall":
                    visits[e["t"]] = []
                elif e["e"] == "visit":
                    visits[e["t"]].append((e["k"], e["v"]))
                elif e["e"] == "sret":
                    rets.setdefault(e["t"], []).append(visits.pop(e["t"]))
            # identical histories (the schedule in the header aside) are judged once by OlcTrace
            hkey = hash("".join(hist[1:]))
            if hkey not in seen_hist:
                seen_hist.add(hkey)
                n_hist += 1
                out.writelines(hist)
            want = [(t, k) for (t, k, pc) in steps]
            got = real[:len(want)]
            if got == want:
                lock_step += 1
                # results of the operations that returned inside the replayed prefix
                for t, rs in results.items():
                    for i, mres in enumerate(rs):
                        if i >= len(rets.get(t, [])):
                            continue
                        e = rets[t][i]
                        res_cmp += 1
                        if isinstance(mres, list) or isinstance(e, list):
                            ok = mres == e
                        else:
                            mbool = mres not in (-1, -2)
                            ok = (e["r"] == mbool) and (mres <= 0 or e.get("v", mres) == mres)
                        res_agree += ok
                        if not ok and len(diverged) < 5:
                            diverged.append("%s: result of thread %d op %d: model %s, code %s" % (name, t, i + 1, mres, e))
            elif len(diverged) < 5:
                i = next((j for j in range(min(len(got), len(want))) if got[j] != want[j]), min(len(got), len(want)))
                diverged.append("%s: step %d: model %s (pc %s), code %s" % (
                    name, i + 1, want[i] if i < len(want) else None, steps[i][2] if i < len(steps) else None,
                    got[i] if i < len(got) else None))
    os.unlink(evf)
    return dict(scenario=name, states=len(g.states), edges=g.nedges, cover_paths=len(paths), classes=ncls,
                replayed=len(execs), distinct_histories=n_hist, lock_step=lock_step, results_compared=res_cmp, results_agree=res_agree,
                divergences=diverged, tlc_generated=r.generated, tlc_distinct=r.distinct), clean



def behaviour_replay(exe, d, tier, max_paths=1200, scans=False):
    """-> (coverage dict, [event files to be judged by OlcTrace])"""
    cat = {s.name: s for s in (scenarios.scan_scenarios("thorough") if scans else scenarios.point_scenarios("thorough"))}
    names = REPLAY_SCENARIOS.get("only") or [
        s.name for s in cat.values() if usable(s, scans) and len(s.init) <= (60 if scans else 17)
        and (len(s.progs) == 2 and sum(len(p) for p in s.progs) <= (3 if tier == "quick" else 4))]
    if scans and tier == "quick" and "only" not in REPLAY_SCENARIOS:
        # quick tier: scanner + ONE writer operation (graphs of 10^3..10^4 states) plus a few two-operation writers;
        # the rest (collapse under every scan kind, two-operation writers: 2*10^4 states each) in the thorough tier
        keep3 = {"reseek_two_commits_fwd", "scan_sf_vs_collapse", "scan_sr_vs_collapse", "scan_fwd_inplace_ins_earlier",
                 "scan_fwd_i48_vs_rem", "reseek_vs_inplace_ins"}
        names = [n for n in names if sum(len(p) for p in cat[n].progs) <= 2 or n in keep3]
    K = 2 if tier == "quick" else 1000000
    if tier != "quick":
        max_paths = 40000
    prepare()
    import concurrent.futures as cf
    # state parsing is pure Python: processes, not threads
    with cf.ProcessPoolExecutor(max_workers=vlib.NCPU) as ex:
        res = list(ex.map(_beh_work, [(cat[n], exe, d, K, max_paths) for n in names]))
    per = [r[0] for r in res]
    files = [r[1] for r in res]
    tot = {k: sum(s[k] for s in per) for k in ("states", "edges", "cover_paths", "replayed", "distinct_histories", "lock_step", "results_compared",
                                               "results_agree", "tlc_generated", "tlc_distinct")}
    tot["per_scenario"] = per
    tot["rule"] = ("edge cover of the complete interleaving graph of OlcArt per scenario (lock versions <= 12), reduced to the paths "
                   "that traverse every (thread, pc, next pc, other threads' pcs) class twice; each path is forced on the real "
                   "olc_db step by step; kinds of scheduling points and results compared; divergence = step-structure "
                   "difference (reported, not judged)")
    return tot, files
