"""Scenario instances of spec/OlcArt.tla: initial trees and per-thread programs are
generated as TLA+ definitions (module OlcArtMC_<name>) with a .cfg."""
import os

import vlib

REAL_CAPS = (4, 16, 48, 256)


def cls_of(n, caps):
    for i, c in enumerate(caps):
        if n <= c:
            return i + 1
    raise ValueError(n)


def lcp(keys):
    p = []
    for col in zip(*keys):
        if len(set(col)) == 1:
            p.append(col[0])
        else:
            break
    return p


class Builder:
    def __init__(self, caps):
        self.nodes = {}
        self.caps = caps
        self.nid = 0

    def build(self, keys, depth, vals):
        if len(keys) == 1:
            self.nid += 1
            i = self.nid
            self.nodes[i] = ("leaf", keys[0], vals[keys[0]])
            return i
        rem = [k[depth:] for k in keys]
        p = lcp(rem)
        d2 = depth + len(p)
        groups = {}
        for k in keys:
            groups.setdefault(k[d2], []).append(k)
        self.nid += 1
        i = self.nid
        self.nodes[i] = None
        ch = {}
        for b in sorted(groups):
            ch[b] = self.build(groups[b], d2 + 1, vals)
        self.nodes[i] = ("inode", p, ch, cls_of(len(ch), self.caps))
        return i


def tla_seq(xs):
    return "<<" + ", ".join(str(x) for x in xs) + ">>"


def tla_fun(d, kf=str, vf=str):
    if not d:
        return "<<>>"
    return "(" + " @@ ".join("%s :> %s" % (kf(k), vf(v)) for k, v in d.items()) + ")"


def node_tla(n):
    if n[0] == "leaf":
        return '[kind |-> "leaf", key |-> %s, val |-> %d, prefix |-> <<>>, ch |-> <<>>, cls |-> 0, st |-> "live"]' % (tla_seq(n[1]), n[2])
    return '[kind |-> "inode", key |-> <<>>, val |-> 0, prefix |-> %s, ch |-> %s, cls |-> %d, st |-> "live"]' % (
        tla_seq(n[1]), tla_fun(n[2]), n[3])


KEYLEN = 8      # the real key length: stale reads at a wrong depth then look at the same key bytes as the code


def key3(k):
    """big-endian bytes of a uint64 key, as the encoder produces them"""
    return tuple((k >> (8 * (KEYLEN - 1 - i))) & 255 for i in range(KEYLEN))


ZERO = (0,) * KEYLEN


def parse_scan(tok):
    """s<f|r>[h<n>]  f<f|r><k>[h<n>]  R<k>-<k>[h<n>]"""
    import re
    halt = 0
    m = re.search(r"h(\d+)$", tok)
    if m:
        halt = int(m.group(1))
        tok = tok[:m.start()]
    if tok[0] == "s":
        return "all", ZERO, ZERO, tok[1] == "f", halt
    if tok[0] == "f":
        return "from", key3(int(tok[2:])), ZERO, tok[1] == "f", halt
    a, b = tok[1:].split("-")
    return "range", key3(int(a)), key3(int(b)), True, halt


def parse_op(tok, t, i):
    if tok[0] in "sfR":
        kind, fr, to, fwd, halt = parse_scan(tok)
        return ('[op |-> "scan", k |-> <<>>, v |-> 0, kind |-> "%s", from |-> %s, to |-> %s, fwd |-> %s, halt |-> %d]'
                % (kind, tla_seq(fr), tla_seq(to), "TRUE" if fwd else "FALSE", halt))
    kind = {"g": "get", "i": "ins", "r": "rem"}[tok[0]]
    k = key3(int(tok[1:]))
    return '[op |-> "%s", k |-> %s, v |-> %d]' % (kind, tla_seq(k), 100 * (t + 1) + i + 1)


def generate(name, init, progs, caps=REAL_CAPS, qeach=True, flags=None, max_extra=10, outdir=None, max_version=24,
             keep_seen=False):
    """init: list of int keys (< 2^24); progs: list of lists of op tokens (g<k> i<k> r<k>)"""
    outdir = outdir or os.path.join(vlib.SPEC, "gen")
    os.makedirs(outdir, exist_ok=True)
    keys = sorted(key3(k) for k in init)
    vals = {k: 9001 + i for i, k in enumerate(sorted(key3(k) for k in init))}
    b = Builder(caps)
    root = b.build(keys, 0, vals) if keys else 0
    nn = b.nid
    mod = "OlcArtMC_" + name
    fl = {"LockRemainingChildOnCollapse": True, "RecheckParentAfterAdd": True, "GetRechecksParent": True,
          "ObsoleteReplacedNode": True, "RemoveChecksNodeBeforeChildLock": True, "IterChecksAfterNextRead": True}
    fl.update(flags or {})
    scans = any(tok[0] in "sfR" for p in progs for tok in p)
    with open(os.path.join(outdir, mod + ".tla"), "w") as f:
        f.write("---- MODULE %s ----\nEXTENDS %s\n" % (mod, "OlcArtIter" if scans else "OlcArt"))
        f.write("MCInitNodes == %s\n" % tla_fun(b.nodes, str, node_tla))
        f.write("MCInitAbs == %s\n" % tla_fun(vals, tla_seq, str))
        f.write("MCPrograms == <<%s>>\n" % ", ".join(
            "<<" + ", ".join(parse_op(tok, t, i) for i, tok in enumerate(p)) + ">>" for t, p in enumerate(progs)))
        f.write("MCCaps == %s\n====\n" % tla_seq(caps))
    with open(os.path.join(outdir, mod + ".cfg"), "w") as f:
        f.write("SPECIFICATION " + ("SpecI" if scans else "Spec") + "\nCONSTANTS\n  Threads = {%s}\n  KeyLen = %d\n  Caps <- MCCaps\n  MaxNodes = %d\n  MaxVersion = %d\n"
                % (",".join(str(i + 1) for i in range(len(progs))), KEYLEN, nn + max_extra, max_version))
        f.write("  InitNodes <- MCInitNodes\n  InitRoot = %d\n  InitNext = %d\n  InitAbs <- MCInitAbs\n  Programs <- MCPrograms\n" % (root, nn + 1))
        f.write("  QEach = %s\n" % ("TRUE" if qeach else "FALSE"))
        for k, v in fl.items():
            if k == "IterChecksAfterNextRead" and not scans:
                continue
            f.write("  %s = %s\n" % (k, "TRUE" if v else "FALSE"))
        if scans:
            f.write("  KeepSeen = %s\n" % ("TRUE" if keep_seen else "FALSE"))
        f.write("INVARIANTS NoBadOutcome OneWriterPerNode NoLockHeldAtReturn NoOrphanLock SpinnersHoldNothing FinalTreeIsMap NoReachableRetired NothingLeaked ShapeOK\n")
        f.write("CONSTRAINT VersionBound\nCHECK_DEADLOCK FALSE\n")
    return mod, outdir
