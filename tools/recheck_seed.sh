#!/bin/bash
# usage: tools/recheck_seed.sh <tag> [<prop>...]   -- re-run our checks against a stored seeded change
# (seeded/<tag>/patch.diff applied to a scratch worktree outside /repo; nothing in /repo or /verif/evidence is touched)
tag=$1; shift
S=/verif/seeded/$tag
props="$@"
[ -z "$props" ] && props=$(python3 -c "import json;print(json.load(open('$S/meta.json'))['breaks'])")
W=/tmp/wt_re_$tag
git -C /repo worktree remove --force $W >/dev/null 2>&1
git -C /repo worktree add --detach $W HEAD >/dev/null 2>&1 || { echo "$tag: cannot create worktree"; exit 3; }
if ! git -C $W apply $S/patch.diff 2>/dev/null; then
  # reverts of repairs are stored as reverse patches of the fix commits
  git -C $W apply -R $S/patch.diff 2>/dev/null || { echo "$tag: patch does not apply"; git -C /repo worktree remove --force $W; exit 3; }
fi
export VERIF_REPO=$W VERIF_EVIDENCE_DIR=/tmp/ev_re_$tag
mkdir -p $VERIF_EVIDENCE_DIR
for p in $props; do
  s=$(date +%s)
  ( cd /verif && python3 tools/vcheck.py $p --tier quick > /tmp/re_${tag}_$p.out 2>&1; echo "$tag $p rc=$? violations=$(grep -c VIOLATION /tmp/re_${tag}_$p.out) secs=$(( $(date +%s)-s ))" )
done
rm -rf $VERIF_EVIDENCE_DIR
git -C /repo worktree remove --force $W
