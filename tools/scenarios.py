"""Scenario catalogue for the concurrent OLC checks (DESIGN.md 2.1, 3.3, 3.9):
small trees placed at every structural boundary x small per-thread programs.

Keys are uint64 < 2^31.  Byte structure used below: k = b2*65536 + b1*256 + b0;
keys that differ only in b0 share one inner node, b1 selects a node one level
up, b2 two levels up (the five leading zero bytes are a compressed prefix)."""


def K(b2, b1, b0):
    return b2 * 65536 + b1 * 256 + b0


def K4(b3, b2, b1, b0):
    return b3 * 16777216 + K(b2, b1, b0)


def rng(n, b1=0, b2=0):
    return [K(b2, b1, i) for i in range(1, n + 1)]


class Sc:
    def __init__(self, name, init, progs, q="each"):
        self.name, self.init, self.progs, self.q = name, init, progs, q

    def text(self):
        lines = ["S %s init=%s q=%s" % (self.name, ",".join(str(k) for k in self.init), self.q)]
        for p in self.progs:
            lines.append("T " + " ".join(p))
        lines.append("E")
        return "\n".join(lines)


def point_scenarios(tier):
    S = []

    def add(name, init, *progs, q="each"):
        S.append(Sc(name, init, [list(p) for p in progs], q))

    # --- empty tree / root leaf (root replacement)
    add("empty_ins_ins_same", [], ["i5"], ["i5"])
    add("empty_ins_ins", [], ["i5"], ["i6"])
    add("empty_ins_get", [], ["i5", "g5"], ["g5", "i5"])
    add("leaf_rem_rem", [5], ["r5"], ["r5"])
    add("leaf_rem_get", [5], ["r5"], ["g5", "g5"])
    add("leaf_split_vs_rem", [5], ["i6"], ["r5"])
    add("leaf_split_split", [5], ["i6"], ["i7"])
    add("leaf_ins_rem_ins", [5], ["r5", "i5"], ["i5", "r5"])
    # --- I4 with two leaves: collapse into a leaf
    add("i4_2_rem_rem", [1, 2], ["r1"], ["r2"])
    add("i4_2_rem_get", [1, 2], ["r1"], ["g2", "g1"])
    add("i4_2_rem_ins", [1, 2], ["r1"], ["i3"])
    add("i4_2_rem_ins_same", [1, 2], ["r1", "i1"], ["g1", "g1"])
    add("i4_3_rem_rem", [1, 2, 3], ["r1"], ["r2"])
    # --- I4 full: growth to I16
    add("i4_full_grow_grow", rng(4), ["i5"], ["i6"])
    add("i4_full_grow_rem", rng(4), ["i5"], ["r1"])
    add("i4_full_grow_get", rng(4), ["i5"], ["g4", "g5"])
    add("i4_full_grow_same", rng(4), ["i5"], ["i5"])
    # --- I16 minimum: shrink to I4; I16 full: growth to I48
    add("i16_min_shrink_shrink", rng(5), ["r1"], ["r2"])
    add("i16_min_shrink_ins", rng(5), ["r5"], ["i6"])
    add("i16_min_shrink_get", rng(5), ["r1"], ["g3", "g1"])
    add("i16_full_grow_grow", rng(16), ["i17"], ["i18"])
    add("i16_full_grow_rem", rng(16), ["i17"], ["r1", "g17"])
    # --- I48 / I256
    add("i48_min_shrink_shrink", rng(17), ["r1"], ["r2"])
    add("i48_min_shrink_get", rng(17), ["r17"], ["g9", "g17"])
    add("i48_full_grow_grow", rng(48), ["i49"], ["i50"])
    add("i48_full_grow_rem", rng(48), ["i49"], ["r48"])
    add("i256_min_shrink_shrink", rng(49), ["r1"], ["r2"])
    add("i256_min_shrink_ins", rng(49), ["r49"], ["i50"])
    # --- the same interactions instantiated for every node class (the code paths are per-class template
    # instantiations with `if constexpr` differences: seed c03d changed only the inode_256 one): a node of class C
    # with room, (a) add || add, (b) add || remove, (c) add / remove / get || a prefix split above the node (the
    # node stays in the tree with its prefix cut in place), (d) the node below an I4 parent whose other child
    # (a leaf) is removed: the collapse prepends to the node's prefix in place
    far = 1 << 24           # differs from the small keys in byte 4: prefix split two bytes above the node
    for cname, n in (("i4", 3), ("i16", 8), ("i48", 20), ("i256", 50)):
        base = [i * 256 for i in range(1, n + 1)]          # one node, key byte = byte 6, children 1..n
        newk, newk2 = (n + 2) * 256, (n + 3) * 256
        add("cls_%s_add_add" % cname, base, ["i%d" % newk], ["i%d" % newk2])
        add("cls_%s_add_rem" % cname, base, ["i%d" % newk], ["r%d" % base[0]])
        add("cls_%s_add_vs_prefix_split" % cname, base, ["i%d" % newk], ["i%d" % far])
        add("cls_%s_rem_vs_prefix_split" % cname, base, ["r%d" % base[1]], ["i%d" % far])
        add("cls_%s_get_vs_prefix_split" % cname, base, ["g%d" % base[1], "g%d" % newk], ["i%d" % far])
        # the same with a child under key byte 0: a stale operation that looks at the key at a wrong depth (the
        # leading zero bytes of small keys) then finds an EXISTING child -- a leaf with another key (seed c03e),
        # whereas above it finds none (seed c03d)
        base0 = [i * 256 for i in range(0, n)]
        add("cls_%s_rem_vs_prefix_split0" % cname, base0, ["r%d" % base0[2]], ["i%d" % far])
        add("cls_%s_get_vs_prefix_split0" % cname, base0, ["g%d" % base0[2], "g%d" % newk], ["i%d" % far])
        add("cls_%s_ins_vs_prefix_split0" % cname, base0, ["i%d" % base0[2], "i%d" % newk], ["i%d" % far])
        # readers of the last child / of an absent key while the key array is shifted in place (torn reads)
        add("cls_%s_get_vs_edit" % cname, base, ["g%d" % base[-1], "g%d" % newk], ["i0", "r%d" % base[0]])
        deep = [K(1, 0, 0)] + [K(0, i, 0) for i in range(1, n + 1)]    # I4 root {0 -> node, 1 -> leaf}
        add("cls_%s_add_vs_collapse_above" % cname, deep, ["i%d" % K(0, n + 2, 0)], ["r%d" % K(1, 0, 0)])
        add("cls_%s_rem_vs_collapse_above" % cname, deep, ["r%d" % K(0, 1, 0)], ["r%d" % K(1, 0, 0)])
    # --- two levels: root I4 [leaf 1, inode{257,258}]: collapse with an inner sibling (D4)
    t2 = [K(0, 0, 1), K(0, 1, 1), K(0, 1, 2)]
    add("collapse_inner_get", t2, ["g%d" % K(0, 1, 1)], ["r1"])
    add("collapse_inner_get2", t2, ["g%d" % K(0, 1, 2), "g1"], ["r1"])
    add("collapse_inner_ins_below", t2, ["i%d" % K(0, 1, 3)], ["r1"])
    add("collapse_inner_rem_below", t2, ["r%d" % K(0, 1, 1)], ["r1"])
    add("collapse_inner_both", t2, ["r%d" % K(0, 1, 1), "r%d" % K(0, 1, 2)], ["r1", "g%d" % K(0, 1, 2)])
    add("collapse_inner_ins_sibling", t2, ["i2"], ["r1"])
    add("collapse_inner_reinsert", t2, ["r1", "i1"], ["g%d" % K(0, 1, 1), "g1"])
    # --- prefix split
    p2 = [K(0, 1, 1), K(0, 1, 2)]
    add("prefix_split_get", p2, ["i1"], ["g%d" % K(0, 1, 1), "g1"])
    add("prefix_split_split", p2, ["i1"], ["i%d" % K(1, 0, 0)])
    add("prefix_split_rem", p2, ["i1"], ["r%d" % K(0, 1, 1)])
    add("prefix_split_ins_below", p2, ["i1"], ["i%d" % K(0, 1, 3)])
    add("prefix_split_then_collapse", p2, ["i1", "r1"], ["g%d" % K(0, 1, 2), "g%d" % K(0, 1, 2)])
    # --- prefix cut that leaves a NON-empty remainder in the old node (a stale reader then
    # sees a prefix mismatch, not a missing child), at the root and below a real parent
    far = K(1, 0, 0)
    add("prefix_cut_rem", p2, ["i%d" % far], ["r%d" % K(0, 1, 1)])
    add("prefix_cut_get", p2, ["i%d" % far], ["g%d" % K(0, 1, 1), "g%d" % far])
    add("prefix_cut_ins_below", p2, ["i%d" % far], ["i%d" % K(0, 1, 3)])
    add("prefix_cut_rem_rem", p2, ["i%d" % far, "r%d" % far], ["r%d" % K(0, 1, 1), "r%d" % K(0, 1, 2)])
    x1, x2, xf = K4(1, 0, 1, 1), K4(1, 0, 1, 2), K4(1, 1, 0, 0)
    p3 = [1, x1, x2]
    add("prefix_cut_deep_rem", p3, ["i%d" % xf], ["r%d" % x1])
    add("prefix_cut_deep_get", p3, ["i%d" % xf], ["g%d" % x1, "g%d" % xf])
    add("prefix_cut_deep_ins_below", p3, ["i%d" % xf], ["i%d" % K4(1, 0, 1, 3)])
    add("prefix_cut_deep_ins_same", p3, ["i%d" % xf], ["i%d" % x1, "r%d" % x2])
    # --- child grows / shrinks while its parent changes
    t3 = rng(4) + [K(0, 1, 1)]
    add("child_grow_parent_add", t3, ["i5"], ["i%d" % K(0, 2, 1)])
    add("child_grow_parent_collapse", t3, ["i5"], ["r%d" % K(0, 1, 1)])
    add("child_grow_get_sibling", t3, ["i5"], ["g%d" % K(0, 1, 1), "g5"])
    t4 = rng(5) + [K(0, 1, 1)]
    add("child_shrink_parent_collapse", t4, ["r1"], ["r%d" % K(0, 1, 1)])
    add("child_shrink_parent_add", t4, ["r1"], ["i%d" % K(0, 2, 1), "g1"])
    # --- three levels
    t5 = [1, K(0, 1, 1), K(0, 1, 2), K(1, 1, 1), K(1, 1, 2)]
    add("three_levels_mixed", t5, ["r1", "g%d" % K(1, 1, 1)], ["r%d" % K(1, 1, 2), "i2"])
    add("three_levels_collapse_chain", t5, ["r%d" % K(0, 1, 1)], ["r%d" % K(0, 1, 2), "g1"])
    # --- quiescent states only at thread end
    add("collapse_inner_get_qend", t2, ["g%d" % K(0, 1, 1), "g%d" % K(0, 1, 2)], ["r1", "i1"], q="end")
    add("i4_full_grow_rem_qend", rng(4), ["i5", "g1"], ["r1", "r2"], q="end")
    add("leaf_ins_rem_ins_qend", [5], ["r5", "i5", "g5"], ["i5", "r5"], q="end")
    # --- epoch choreography: a writer that quiesced early retires a node in a later epoch and
    # exits with the request pending while a reader still looks at that node
    add("exit_with_pending_request", [1, 2, 3], ["g1", "g2", "g3"], ["g1", "r3"])
    add("exit_with_pending_request_inode", [1, K(0, 1, 1), K(0, 1, 2)], ["g1", "g1", "g%d" % K(0, 1, 1)], ["g1", "r1"])
    add("exit_with_pending_requests2", [1, 2, 3, 4], ["g1", "g2", "g4", "g3"], ["g1", "r3", "r4"])
    # --- three threads
    add("three_threads_root", [1, 2], ["r1"], ["r2"], ["i3"])
    add("three_threads_collapse", t2, ["g%d" % K(0, 1, 1)], ["r1"], ["i%d" % K(0, 1, 3)])
    if tier == "thorough":
        add("three_threads_grow", rng(4), ["i5"], ["i6"], ["r1"])
        add("three_threads_two_levels", t5, ["r1"], ["r%d" % K(1, 1, 2)], ["g%d" % K(1, 1, 1), "g%d" % K(0, 1, 1)])
        add("i16_full_mixed3", rng(16), ["i17", "r17"], ["r1", "i1"], ["g17", "g1"])
        add("collapse_inner_3ops", t2, ["g%d" % K(0, 1, 1), "g1", "g%d" % K(0, 1, 2)], ["r1", "i1", "r1"])
        add("prefix_split_3ops", p2, ["i1", "r1", "i1"], ["g1", "g%d" % K(0, 1, 1), "g1"])
    return S


def scan_scenarios(tier):
    S = []

    def add(name, init, *progs, q="each"):
        S.append(Sc(name, init, [list(p) for p in progs], q))

    two = [1, 2, K(0, 1, 1), K(0, 1, 2)]                      # {1,2,0x101,0x102}
    three = [1, 2, K(0, 1, 1), K(0, 1, 2), K(0, 2, 1)]
    a, b, c = K(0, 1, 1), K(0, 1, 2), K(0, 2, 1)
    # scanner vs one writer restructuring nodes on the scanner's stack
    for scan in ["sf", "sr", "ff2", "fr%d" % b, "R1-%d" % c, "R%d-1" % c, "sfh2", "srh3"]:
        tag = scan.replace("-", "_")
        add("scan_%s_vs_rem_first" % tag, three, [scan], ["r1"])
        add("scan_%s_vs_rem_mid" % tag, three, [scan], ["r%d" % a])
        add("scan_%s_vs_collapse" % tag, two, [scan], ["r%d" % a, "r%d" % b])
        add("scan_%s_vs_ins" % tag, two, [scan], ["i3", "i%d" % K(0, 1, 3)])
    # re-seek cases: the scanner's current key is removed while it is the last/first
    # child of a non-root node
    add("scan_fwd_reseek_last_child", two, ["sf"], ["r2"])
    add("scan_rev_reseek_first_child", two, ["sr"], ["r%d" % a])
    add("scan_fwd_reseek_grow", rng(4) + [a], ["sf"], ["i5", "r4"])
    add("scan_from_absent_bound", two, ["ff3", "fr%d" % K(0, 0, 200)], ["r2", "i2"])
    # in-place edits of a sorted node (I4/I16 shift their key/child arrays) under the scanner:
    # removal / insertion of an earlier (forward) or later (reverse) sibling of the current leaf
    four = rng(4)
    add("scan_fwd_inplace_rem_earlier", four, ["sf"], ["r1"])
    add("scan_fwd_inplace_rem_earlier2", four, ["sf"], ["r2"])
    add("scan_rev_inplace_rem_later", four, ["sr"], ["r4"])
    add("scan_rev_inplace_rem_later2", four, ["sr"], ["r3"])
    add("scan_fwd_inplace_ins_earlier", [2, 4, 6], ["sf"], ["i1", "i3"])
    add("scan_rev_inplace_ins_later", [2, 4, 6], ["sr"], ["i7", "i5"])
    add("scan_fwd_inplace_rem_two_levels", four + [a, b], ["sf"], ["r1", "r2"])
    add("scan_from_inplace_rem", four, ["ff2"], ["r1"])
    add("scan_range_inplace_rem", four + [a], ["R2-%d" % a], ["r1", "r3"])
    i16 = rng(8)
    add("scan_fwd_i16_inplace_rem", i16, ["sf"], ["r1", "r3"])
    add("scan_rev_i16_inplace_rem", i16, ["sr"], ["r8", "r6"])
    add("scan_fwd_i16_inplace_ins", [2, 4, 6, 8, 10, 12], ["sf"], ["i1", "i5"])
    # seeks whose bound byte is not a child (gte_key_byte / lte_key_byte decide from the key array and the
    # child count) while a writer edits that node in place: a torn read hides a stable child (seed c09d)
    add("seek_fwd_vs_inplace_ins_i4", [2, 4, 6], ["ff5"], ["i3"])
    add("seek_rev_vs_inplace_ins_i4", [2, 4, 6], ["fr3"], ["i5"])
    add("seek_fwd_vs_inplace_rem_i4", [2, 4, 6, 8], ["ff5"], ["r2"])
    add("seek_rev_vs_inplace_rem_i4", [2, 4, 6, 8], ["fr5"], ["r8"])
    add("seek_range_vs_inplace_ins_i4", [2, 4, 6], ["R5-7", "R3-1"], ["i3"])
    e16 = [2 * i for i in range(1, 9)]
    add("seek_fwd_vs_inplace_ins_i16", e16, ["ff9"], ["i3"])
    add("seek_rev_vs_inplace_ins_i16", e16, ["fr9"], ["i11"])
    add("seek_fwd_vs_inplace_rem_i16", e16, ["ff9"], ["r2"])
    lo = [K(0, 1, 2), K(0, 1, 4), K(0, 1, 6), K(0, 2, 1)]
    add("seek_fwd_falloff_vs_inplace_ins", lo, ["ff%d" % K(0, 1, 5)], ["i%d" % K(0, 1, 3)])
    add("seek_rev_falloff_vs_inplace_ins", [1] + lo, ["fr%d" % K(0, 1, 3)], ["i%d" % K(0, 1, 5)])
    add("reseek_vs_inplace_ins", [2, 4, 6, 8], ["sf"], ["r4", "i3"])
    e48 = [3 * i for i in range(1, 21)]
    add("seek_fwd_vs_edit_i48", e48, ["ff31h2"], ["i4"])
    add("seek_rev_vs_edit_i48", e48, ["fr31h2"], ["r60"])
    e256 = [3 * i for i in range(1, 53)]
    add("seek_fwd_vs_edit_i256", e256, ["ff100h2"], ["i4"])
    add("seek_rev_vs_edit_i256", e256, ["fr100h2"], ["r153"])
    # scanners on the node classes that are indexed by the key byte (inode_48 / inode_256): in-place edits,
    # growth inode_16 -> inode_48 and shrink inode_48 -> inode_16 of the node under the scanner (halting scans
    # keep the executions short)
    add("scan_fwd_i48_vs_rem", e48, ["sfh4"], ["r3", "r9"])
    add("scan_rev_i48_vs_ins", e48, ["srh4"], ["i61", "i58"])
    add("scan_fwd_i48_vs_ins_ahead", e48, ["sfh5"], ["i10"])
    add("scan_fwd_grow_i16_i48", rng(16), ["sfh6"], ["i17"])
    add("scan_rev_shrink_i48_i16", rng(17), ["srh6"], ["r17"])
    add("scan_fwd_shrink_i48_i16", rng(17), ["sfh6", "ff9h2"], ["r2"])
    add("scan_fwd_i256_vs_rem", e256, ["sfh4"], ["r3", "r9"])
    add("scan_rev_shrink_i256_i48", rng(49), ["srh5"], ["r49"])
    # two writer commits inside one next()/prior() of the scanner (seed c09e): the first touches a node on the
    # scanner's stack (the fast path fails, the re-seek finds the current key), the second removes the current key
    # before the step after the re-seek is validated.  As one two-operation writer (three preemptions: reached by
    # the replay of the model's interleavings and by the thorough tier) and as two one-operation writers (two).
    add("reseek_two_commits_fwd", [1, 2, 3], ["sf"], ["i4", "r1"])
    add("reseek_two_commits_rev", [2, 3, 4], ["sr"], ["i1", "r4"])
    # (thread order matters for the bound: when a writer finishes the scheduler continues with the next
    # unfinished thread in cyclic order for free, so the writer that must run FIRST is the last thread)
    add("reseek_two_commits_fwd3", [1, 2, 3], ["sf"], ["r1"], ["i4"])
    add("reseek_two_commits_rev3", [2, 3, 4], ["sr"], ["r4"], ["i1"])
    add("reseek_two_commits_mid3", [1, 2, 3, 4], ["sf"], ["r2"], ["i5"])
    add("reseek_two_commits_from3", [1, 2, 3, K(0, 1, 1)], ["ff2"], ["r2"], ["i4"])
    # two writers
    add("scan_two_writers", three, ["sf"], ["r1", "i1"], ["r%d" % c, "i%d" % K(0, 2, 2)])
    add("scan_range_two_writers", three, ["R2-%d" % c], ["r%d" % a], ["i3"])
    # two scanners
    add("two_scanners_one_writer", two, ["sf"], ["sr"], ["r2", "i3"])
    # quiescent state only at the end: views of visited entries stay readable
    add("scan_views_qend", three, ["sf", "g1"], ["r1", "r%d" % a, "r%d" % c], q="end")
    if tier == "thorough":
        big = rng(5) + [K(0, 1, i) for i in range(1, 6)] + [K(0, 2, 1)]
        add("scan_shrink_under_scanner", big, ["sf"], ["r1", "r2"])
        add("scan_rev_shrink_under_scanner", big, ["sr"], ["r%d" % K(0, 1, 5), "r%d" % K(0, 1, 4)])
        add("scan_grow_under_scanner", rng(4) + [a, b], ["sf", "sr"], ["i5", "i6"])
        add("scan_from_each_bound", two, ["ff1", "ff2", "ff%d" % a], ["r2", "r%d" % a])
    return S


def fine_grained(sc):
    """scenarios that are also searched with every protected-field access a scheduling point (bounded
    preemptions at field granularity: torn reads of a node that is being edited in place)"""
    n = sc.name
    return (n.startswith("seek_") or n.startswith("reseek_vs_inplace") or "_inplace_" in n
            or (n.startswith("cls_") and (n.endswith("_add_add") or n.endswith("_add_rem") or n.endswith("_get_vs_edit")))
            or n in ("i4_3_rem_rem", "i4_2_rem_ins", "i16_min_shrink_ins", "i4_full_grow_get", "scan_from_absent_bound",
                     "scan_fwd_i48_vs_rem", "scan_rev_i48_vs_ins", "scan_fwd_i48_vs_ins_ahead", "scan_fwd_i256_vs_rem"))


def write_chunks(scs, d, nchunks):
    import os
    files = []
    for i in range(nchunks):
        part = scs[i::nchunks]
        if not part:
            continue
        p = os.path.join(d, "scen_%d.txt" % i)
        with open(p, "w") as f:
            f.write("\n".join(s.text() for s in part) + "\n")
        files.append(p)
    return files
