#!/usr/bin/env python3
"""Print the brief given to an independent fault-seeding sub-agent.
usage: tools/seed_prompt.py <Cxx> <tag> [focus text]
The agent gets the property text and its own scratch worktree -- nothing else from /verif."""
import json
import sys

prop, tag = sys.argv[1], sys.argv[2]
focus = " ".join(sys.argv[3:])
p = next(json.loads(l) for l in open("/verif/properties.jsonl") if json.loads(l)["id"] == prop)
anch = p["anchors"]
print(f"""You are helping to evaluate a verification framework for the C++20 library UnoDB (laurynas-biveinis/unodb: an Adaptive Radix Tree with single-threaded `db`, `mutex_db` and optimistic-lock-coupling `olc_db` variants, QSBR memory reclamation, a key encoder/decoder). Your job is to act as a *fault seeder*: produce ONE realistic change to the library that breaks the semantic property below while still compiling and passing the repository's existing test suite.

Your private scratch copy of the repository is the git worktree `/tmp/wt_{tag}` (already configured and built in `/tmp/wt_{tag}/_build`). Work ONLY there and in your output directory `/tmp/mut_{tag}` (create it). Do NOT read, list or modify `/repo` or `/verif` (exception: your run.sh will be *run* by me with `/repo` as its argument, and you may run it that way yourself to confirm that the demo passes on unchanged sources: `/repo` has exactly the sources your worktree started from).

## The property ({p['id']}: {p['title']})

Statement: {p['statement']}

Quantifier: {p['quantifier']['text']}

Why the existing tests cannot settle it: {p['why_tests_cant']}

Where it lives: files {', '.join(anch.get('files', []))}; mechanisms: {json.dumps(anch.get('mechanism', []))}

## What I need from you

1. A change to the *library sources* (`*.hpp` / `*.cpp` in the top directory of the worktree, not the tests, not `verif_hooks.hpp`, and do not remove or move the `UNODB_DETAIL_VERIF_HOOKS` hook calls -- they are instrumentation points that must stay where they are relative to the access they precede) that makes the property false. It must look like something a maintainer could plausibly commit: an optimisation, a refactoring, a clean-up, a "simplification", a bug fix that gets a corner wrong, a reordering of two statements, a dropped re-validation, an off-by-one at a boundary, a condition that is right except in one case, two edits in different places that each look fine alone. Not sabotage (no `if (key == 42)`), no random number, no dependence on wall-clock time.
2. The change must need something *specific* to manifest -- a particular interleaving, a fault at a particular point, a multi-step sequence of operations, an unusual input, a particular build configuration, or two cooperating sites -- not something ordinary use would expose at once.{(' Focus area for this task (for diversity among seeders): ' + focus) if focus else ''}
3. It must compile and the existing test suite must still pass with it: `cmake --build /tmp/wt_{tag}/_build -j4 && ctest --test-dir /tmp/wt_{tag}/_build -j4 --timeout 900` (10 ctest entries, about a second to run; run it three times to be sure it is not flaky). The suite is built RelWithDebInfo (NDEBUG).
4. A demonstration: a small self-contained C++ program (or a few) plus `run.sh` such that `bash /tmp/mut_{tag}/run.sh <unodb source dir>` compiles the demo against the sources in that directory and exits 0 when the property holds and non-zero when it is violated. It must FAIL with `/tmp/wt_{tag}` and PASS with `/repo`, deterministically (run each 3 times). Typical compile line: `g++ -std=c++20 -O1 -g -mavx2 -DUNODB_DETAIL_WITH_STATS -DUNODB_SPINLOCK_LOOP_VALUE=1 -Wno-error -I$SRC demo.cpp $SRC/qsbr.cpp $SRC/qsbr_ptr.cpp $SRC/art_internal.cpp -pthread` (add `-DNDEBUG` for a release-like build; without it the library's assertions are on; `-fsanitize=address` with clang++ is available). For allocation-failure demos link `$SRC/test_heap.cpp` and build without NDEBUG. To force an interleaving deterministically you may (a) drive threads from visitor callbacks / condition variables at call boundaries, or (b) compile with `-DUNODB_DETAIL_VERIF_HOOKS` and install a callback through `verif_hooks.hpp` (read that header: it offers a hook before every lock-word access, protected-field access, QSBR atomic, and allocate/free notifications) to park a thread at the N-th hook event while another thread runs. Note `get()` is `[[gnu::pure]]`: always consume its result. Put temporary build output under a `mktemp -d` directory and delete it at the end.
5. Output files in `/tmp/mut_{tag}/`: `patch.diff` (from `git -C /tmp/wt_{tag} diff -- '*.hpp' '*.cpp' > /tmp/mut_{tag}/patch.diff`; leave the change applied in the worktree), the demo source(s), `run.sh`, and `README.md` saying what the change is, why it looks plausible, exactly what is needed for it to manifest, and which clause of the property it breaks.

Be careful that the property is *really* violated by your change (argue from the property statement, not from an internal assertion), and that the unchanged code really passes your demo. Prefer a subtle change over a blatant one; think about what a verification framework that model-checks small scenarios and replays them on the real code could overlook. When done, reply with a short summary: the change, what it needs to manifest, and the results of (3) and (4).""")
