#!/usr/bin/env python3
"""MANIFEST.setup_cmd: offline sanity of the framework: parse every TLA+ module,
check the tools are present, pre-build nothing (checks build from /repo's
working tree on demand and cache under /verif/.cache)."""
import glob
import os
import shutil
import sys

sys.path.insert(0, os.path.dirname(os.path.abspath(__file__)))
import vlib


def main():
    ok = True
    for tool in ("java", "g++", "clang++"):
        if shutil.which(tool) is None:
            print("missing tool:", tool)
            ok = False
    if not os.path.exists(vlib.TLA_JAR):
        print("missing", vlib.TLA_JAR)
        ok = False
    mods = sorted(os.path.basename(p)[:-4] for p in glob.glob(os.path.join(vlib.SPEC, "*.tla")))

    def chk(m):
        good, out = vlib.sany(m)
        return m, good, out
    for m, good, out in vlib.parallel_map(chk, mods, workers=8):
        print("sany %-16s %s" % (m, "ok" if good else "FAILED"))
        if not good:
            print(out[-1500:])
            ok = False
    os.makedirs(vlib.CACHE, exist_ok=True)
    return 0 if ok else 1


if __name__ == "__main__":
    sys.exit(main())
