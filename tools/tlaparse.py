"""Parse TLC output: TLA+ values, states, `-dump dot,actionlabels` graphs, and
compute edge-covering path sets (DESIGN.md section 2.5)."""
import collections
import re


class _P:
    def __init__(self, s):
        self.s = s
        self.i = 0

    def ws(self):
        while self.i < len(self.s) and self.s[self.i] in " \t\r\n":
            self.i += 1

    def peek(self, k=1):
        return self.s[self.i:self.i + k]

    def eat(self, tok):
        self.ws()
        if self.s.startswith(tok, self.i):
            self.i += len(tok)
            return True
        return False

    def expect(self, tok):
        if not self.eat(tok):
            raise ValueError("expected %r at %d: %r" % (tok, self.i, self.s[self.i:self.i + 40]))

    def value(self):
        self.ws()
        c = self.peek()
        if c == '"':
            j = self.i + 1
            out = []
            while self.s[j] != '"':
                if self.s[j] == "\\":
                    j += 1
                out.append(self.s[j])
                j += 1
            self.i = j + 1
            return "".join(out)
        if self.peek(2) == "<<":
            self.i += 2
            items = []
            self.ws()
            if self.eat(">>"):
                return tuple(items)
            while True:
                items.append(self.value())
                if self.eat(">>"):
                    return tuple(items)
                self.expect(",")
        if c == "{":
            self.i += 1
            items = []
            if self.eat("}"):
                return frozenset()
            while True:
                items.append(self.value())
                if self.eat("}"):
                    return frozenset(items)
                self.expect(",")
        if c == "[":
            self.i += 1
            d = {}
            if self.eat("]"):
                return d
            while True:
                self.ws()
                m = re.compile(r"[A-Za-z_][A-Za-z0-9_]*").match(self.s, self.i)
                k = m.group(0)
                self.i = m.end()
                self.expect("|->")
                d[k] = self.value()
                if self.eat("]"):
                    return FrozenDict(d)
                self.expect(",")
        if c == "(":
            # function (k :> v @@ k2 :> v2)
            self.i += 1
            d = {}
            while True:
                k = self.value()
                self.expect(":>")
                d[k] = self.value()
                if self.eat(")"):
                    return FrozenDict(d)
                self.expect("@@")
        m = re.compile(r"-?\d+").match(self.s, self.i)
        if m:
            self.i = m.end()
            return int(m.group(0))
        m = re.compile(r"[A-Za-z_][A-Za-z0-9_]*").match(self.s, self.i)
        if m:
            self.i = m.end()
            w = m.group(0)
            if w == "TRUE":
                return True
            if w == "FALSE":
                return False
            return w  # model value
        raise ValueError("cannot parse value at %d: %r" % (self.i, self.s[self.i:self.i + 40]))


class FrozenDict(dict):
    def __hash__(self):
        return hash(tuple(sorted(self.items(), key=repr)))


def parse_value(s):
    return _P(s).value()


_RE_CONJ = re.compile(r"/\\ (\w+) = ")


def parse_state(text):
    """text: '/\\ a = 1\n/\\ b = <<2>>' -> dict"""
    parts = _RE_CONJ.split(text)
    d = {}
    # parts = ['', name1, val1, name2, val2...]
    for i in range(1, len(parts) - 1, 2):
        d[parts[i]] = parse_value(parts[i + 1].strip())
    return d


def _unescape(s):
    return s.replace("\\n", "\n").replace('\\"', '"').replace("\\\\", "\\")


_RE_NODE = re.compile(r'^(-?\d+) \[label="((?:[^"\\]|\\.)*)"')
_RE_EDGE = re.compile(r'^(-?\d+) -> (-?\d+) \[label="((?:[^"\\]|\\.)*)"')
_RE_ACT = re.compile(r"^(\w+)(?:\((.*)\))?$")


class Graph:
    def __init__(self):
        self.states = {}        # id -> raw label text (parsed lazily)
        self._parsed = {}
        self.edges = collections.defaultdict(list)   # id -> [(label, args, id2)]
        self.init = []
        self.nedges = 0

    def state(self, nid):
        st = self._parsed.get(nid)
        if st is None:
            st = parse_state(self.states[nid])
            self._parsed[nid] = st
        return st


def parse_action(label):
    m = _RE_ACT.match(label)
    if not m:
        return label, ()
    name, args = m.group(1), m.group(2)
    if not args:
        return name, ()
    return name, parse_value("<<" + args + ">>")


def load_dot(path):
    g = Graph()
    with open(path) as f:
        for line in f:
            m = _RE_EDGE.match(line)
            if m:
                a, b = int(m.group(1)), int(m.group(2))
                name, args = parse_action(_unescape(m.group(3)))
                g.edges[a].append((name, args, b))
                g.nedges += 1
                continue
            m = _RE_NODE.match(line)
            if m:
                nid = int(m.group(1))
                if nid not in g.states:
                    g.states[nid] = _unescape(m.group(2))
                if "style = filled" in line:
                    g.init.append(nid)
    return g


def edge_cover(g, max_len=None, skip_self_loops=True):
    """Return a list of paths (each a list of (src, label, args, dst)) starting in an
    initial state that together traverse every edge of g at least once."""
    # BFS tree for shortest access paths
    parent = {}
    order = []
    dq = collections.deque()
    for r in g.init:
        parent[r] = None
        dq.append(r)
    while dq:
        u = dq.popleft()
        order.append(u)
        for (lab, args, v) in g.edges.get(u, ()):
            if v not in parent:
                parent[v] = (u, lab, args)
                dq.append(v)

    def access(u):
        p = []
        while parent[u] is not None:
            pu, lab, args = parent[u]
            p.append((pu, lab, args, u))
            u = pu
        p.reverse()
        return p

    covered = set()
    paths = []
    # iterate states in BFS order; for each uncovered out-edge start a path
    remaining = {u: [i for i, e in enumerate(g.edges.get(u, ())) if not (skip_self_loops and e[2] == u)]
                 for u in order}
    for u in order:
        while remaining[u]:
            path = access(u)
            for (a, lab, args, b) in path:
                idx = next((i for i, e in enumerate(g.edges[a]) if e[0] == lab and e[1] == args and e[2] == b), None)
                if idx is not None and idx in remaining.get(a, ()):
                    remaining[a].remove(idx)
                    covered.add((a, idx))
            cur = u
            while remaining.get(cur) and (max_len is None or len(path) < max_len):
                idx = remaining[cur].pop()
                lab, args, v = g.edges[cur][idx]
                covered.add((cur, idx))
                path.append((cur, lab, args, v))
                cur = v
            paths.append(path)
    return paths
