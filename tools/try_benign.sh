#!/bin/bash
# usage: tools/try_benign.sh <patch> <name> <prop>...  -- our checks must stay silent (rc=0) on a behaviour-preserving change
patch=$1; name=$2; shift 2
W=/tmp/wt_bg_$name
git -C /repo worktree remove --force $W >/dev/null 2>&1
git -C /repo worktree add --detach $W HEAD >/dev/null 2>&1
git -C $W apply $patch || { echo "$name: patch does not apply"; git -C /repo worktree remove --force $W; exit 3; }
export VERIF_REPO=$W VERIF_EVIDENCE_DIR=/tmp/ev_bg_$name
mkdir -p $VERIF_EVIDENCE_DIR
for p in "$@"; do
  s=$(date +%s)
  ( cd /verif && python3 tools/vcheck.py $p --tier quick > /tmp/bg_${name}_$p.out 2>&1; echo "$name $p rc=$? violations=$(grep -c VIOLATION /tmp/bg_${name}_$p.out) secs=$(( $(date +%s)-s ))" )
done
rm -rf $VERIF_EVIDENCE_DIR
git -C /repo worktree remove --force $W
