#!/bin/bash
# usage: tools/try_seed.sh <tag> <prop> [<prop>...]   (seed produced in /tmp/mut_<tag>, worktree /tmp/wt_<tag>)
# verifies the seeder's three claims, then runs our checks against the change applied to /repo and restores /repo.
tag=$1; shift
M=/tmp/mut_$tag; W=/tmp/wt_$tag
echo "== claims for $tag"
(cd $M && timeout 900 bash run.sh $W > /tmp/seed_${tag}_changed.log 2>&1; echo "demo on changed sources: rc=$?")
(cd $M && timeout 900 bash run.sh /repo > /tmp/seed_${tag}_base.log 2>&1; echo "demo on unchanged sources: rc=$?")
(cd $W && git diff --stat | tail -1; cmake --build _build -j8 2>&1 | tail -1; ctest --test-dir _build -j8 --timeout 900 2>&1 | grep "tests passed")
echo "== our checks"
export VERIF_EVIDENCE_DIR=/tmp/seed_evidence_$tag; mkdir -p $VERIF_EVIDENCE_DIR
# USE_WT=1: run our checks against the seeder's worktree (VERIF_REPO) instead of patching /repo -- needed while a
# background run of the registered checks is reading /repo
if [ -n "$USE_WT" ]; then export VERIF_REPO=$W; (cd $W && git diff --quiet) && { echo "worktree carries no change"; exit 3; }
else git -C /repo apply $M/patch.diff || { echo "patch does not apply"; exit 3; }; fi
for p in "$@"; do
  ( cd /verif && /usr/bin/time -f "%es" python3 tools/vcheck.py $p > /tmp/seed_${tag}_$p.out 2>&1; echo "$p rc=$? $(grep -c VIOLATION /tmp/seed_${tag}_$p.out) violation lines; $(tail -1 /tmp/seed_${tag}_$p.out)" )
done
[ -z "$USE_WT" ] && git -C /repo checkout -- .
rm -rf $VERIF_EVIDENCE_DIR   # evidence must describe /repo, not the mutant: trials write theirs elsewhere
git -C /repo status --short | grep -v _build
