#!/usr/bin/env python3
"""Entry point of every check registered in MANIFEST.json.

usage: vcheck.py <Cxx> [--tier quick|thorough] [--replay <file>]

exit 0: the property held on everything explored (KNOWN-FINDING lines possible)
exit 1: VIOLATION property=<id> replay=<path> printed
exit 2: the checker itself is broken (build failure, TLC error, timeout)
"""
import argparse
import importlib
import os
import sys
import traceback

sys.path.insert(0, os.path.dirname(os.path.abspath(__file__)))
import vlib  # noqa: E402

def discover():
    """Every tools/check_*.py declares PROPS = [ids]; map id -> module name."""
    import glob
    import re
    mods = {}
    here = os.path.dirname(os.path.abspath(__file__))
    for f in sorted(glob.glob(os.path.join(here, "check_*.py"))):
        with open(f) as fh:
            m = re.search(r"^PROPS\s*=\s*\[([^\]]*)\]", fh.read(), re.M)
        if m:
            for pid in re.findall(r"C\d+", m.group(1)):
                mods[pid] = os.path.basename(f)[:-3]
    return mods


MODULES = discover()


def main():
    ap = argparse.ArgumentParser()
    ap.add_argument("prop")
    ap.add_argument("--tier", default=os.environ.get("VERIF_TIER", "quick"), choices=["quick", "thorough"])
    ap.add_argument("--replay", default=None)
    a = ap.parse_args()
    if a.prop not in MODULES:
        print("no check for %s" % a.prop, file=sys.stderr)
        return 2
    seed = vlib.seed_from_env(1)
    try:
        vlib.prune_cache()
        mod = importlib.import_module(MODULES[a.prop])
        if a.replay:
            return mod.replay(a.prop, a.replay)
        return mod.run(a.prop, a.tier, seed)
    except vlib.CheckBroken as e:
        print("CHECK-BROKEN %s: %s" % (a.prop, e), file=sys.stderr)
        return 2
    except Exception:
        traceback.print_exc()
        return 2


if __name__ == "__main__":
    sys.exit(main())
