"""Common machinery for the /verif checks: build cache, TLC wrapper, trace
validation, evidence and violation reporting.  See DESIGN.md section 2.7."""
import concurrent.futures as cf
import glob
import hashlib
import json
import os
import re
import shutil
import subprocess
import sys
import threading
import time

VERIF = os.path.dirname(os.path.dirname(os.path.abspath(__file__)))
REPO = os.environ.get("VERIF_REPO", "/repo")
CACHE = os.path.join(VERIF, ".cache")
SPEC = os.path.join(VERIF, "spec")
HARNESS = os.path.join(VERIF, "harness")
REPLAYS = os.path.join(VERIF, "replays")
# VERIF_EVIDENCE_DIR: trials against a seeded change (tools/try_seed.sh) must not overwrite the evidence of /repo
EVIDENCE = os.environ.get("VERIF_EVIDENCE_DIR") or os.path.join(VERIF, "evidence")
TLA_JAR = "/opt/veriftools/tla/tla2tools.jar"
TLA_CP = TLA_JAR + ":/opt/veriftools/tla/CommunityModules-deps.jar"
GUARD = "UNODB_DETAIL_VERIF_HOOKS"
NCPU = os.cpu_count() or 4


class CheckBroken(Exception):
    """The checker itself failed (build error, TLC error, timeout): exit 2."""


def log(*a):
    print(*a, file=sys.stderr, flush=True)


# ----------------------------------------------------------------------------
# build cache
# ----------------------------------------------------------------------------
_repo_hash = None


def repo_hash():
    global _repo_hash
    if _repo_hash is None:
        h = hashlib.sha1()
        for f in sorted(glob.glob(REPO + "/*.hpp") + glob.glob(REPO + "/*.cpp")):
            h.update(f.encode())
            with open(f, "rb") as fh:
                h.update(fh.read())
        _repo_hash = h.hexdigest()[:16]
    return _repo_hash


def _harness_hash():
    h = hashlib.sha1()
    for f in sorted(glob.glob(HARNESS + "/**/*", recursive=True)):
        if os.path.isfile(f):
            h.update(f.encode())
            with open(f, "rb") as fh:
                h.update(fh.read())
    return h.hexdigest()[:16]


BASE_FLAGS = ["-std=c++20", "-I" + REPO, "-I" + HARNESS, "-pthread",
              "-Wno-deprecated-declarations"]
REPO_LIB_SRCS = ["qsbr.cpp", "qsbr_ptr.cpp", "art_internal.cpp"]

CONFIGS = {
    # name: (compiler, flags)
    "dbg": ("g++", ["-O1", "-g", "-mavx2", "-DUNODB_DETAIL_WITH_STATS",
                    "-DUNODB_SPINLOCK_LOOP_VALUE=1", "-D" + GUARD]),
    "ndebug": ("g++", ["-O2", "-DNDEBUG", "-mavx2", "-DUNODB_DETAIL_WITH_STATS",
                       "-DUNODB_SPINLOCK_LOOP_VALUE=1", "-D" + GUARD]),
    "asan": ("clang++", ["-O1", "-g", "-mavx2", "-DUNODB_DETAIL_WITH_STATS",
                         "-DUNODB_SPINLOCK_LOOP_VALUE=1", "-D" + GUARD,
                         "-fsanitize=address,undefined",
                         "-fno-sanitize-recover=undefined",
                         "-fno-omit-frame-pointer"]),
}


_obj_locks = {}
_obj_locks_mu = threading.Lock()


def _compile_one(cc, flags, src, obj):
    with _obj_locks_mu:
        lk = _obj_locks.setdefault(obj, threading.Lock())
    with lk:
        if os.path.exists(obj):
            return
        tmp = obj + ".tmp%d_%d" % (os.getpid(), threading.get_ident())
        cmd = [cc] + BASE_FLAGS + flags + ["-c", src, "-o", tmp]
        r = subprocess.run(cmd, capture_output=True, text=True)
        if r.returncode != 0:
            raise CheckBroken("compile failed: %s\n%s" % (" ".join(cmd), r.stderr[-4000:]))
        os.replace(tmp, obj)


def build(name, harness_srcs, config="dbg", extra_flags=(), repo_srcs=REPO_LIB_SRCS,
          extra_repo_srcs=(), libs=(), hflags=()):
    """Compile harness sources + the repository's .cpp files from the current
    working tree of /repo; returns the path of the executable.  Objects and
    executables are cached by the hash of /repo sources, harness sources and
    flags.  hflags apply to harness sources only."""
    if isinstance(config, str):
        cc, flags = CONFIGS[config]
        cname = config
    else:
        cc, flags, cname = config
    flags = list(flags) + list(extra_flags)
    hflags = list(hflags)
    base = [repo_hash(), _harness_hash(), cc, flags]
    key = hashlib.sha1(json.dumps(base + [hflags, list(harness_srcs), list(repo_srcs),
                                          list(extra_repo_srcs), list(libs)]).encode()).hexdigest()[:16]
    d = os.path.join(CACHE, "build", key)
    exe = os.path.join(d, name)
    if os.path.exists(exe):
        return exe
    os.makedirs(d, exist_ok=True)
    objdir = os.path.join(CACHE, "obj")
    os.makedirs(objdir, exist_ok=True)
    jobs = []
    for s in harness_srcs:
        k = hashlib.sha1(json.dumps(base + [hflags, "h", s]).encode()).hexdigest()[:20]
        jobs.append((os.path.join(HARNESS, s), os.path.join(objdir, k + ".o"), flags + hflags))
    for s in list(repo_srcs) + list(extra_repo_srcs):
        k = hashlib.sha1(json.dumps(base + ["r", s]).encode()).hexdigest()[:20]
        jobs.append((os.path.join(REPO, s), os.path.join(objdir, k + ".o"), flags))
    t0 = time.time()
    with cf.ThreadPoolExecutor(max_workers=min(len(jobs), NCPU)) as ex:
        futs = [ex.submit(_compile_one, cc, fl, s, o) for s, o, fl in jobs]
        for f in futs:
            f.result()
    tmp = exe + ".tmp%d_%d" % (os.getpid(), threading.get_ident())
    cmd = [cc] + BASE_FLAGS + flags + [o for _, o, _ in jobs] + ["-o", tmp] + list(libs)
    r = subprocess.run(cmd, capture_output=True, text=True)
    if r.returncode != 0:
        raise CheckBroken("link failed: %s\n%s" % (" ".join(cmd), r.stderr[-4000:]))
    os.replace(tmp, exe)
    log("[build] %s (%s) in %.1fs" % (name, cname, time.time() - t0))
    return exe


def build_many(specs):
    """specs: list of dict(kwargs for build). Builds in parallel."""
    with cf.ThreadPoolExecutor(max_workers=8) as ex:
        futs = [ex.submit(build, **s) for s in specs]
        return [f.result() for f in futs]


def prune_cache(keep_hashes=2):
    """Remove build directories older than a day to bound disk use."""
    now = time.time()
    # scratch directories of earlier runs (kept when a run reported a violation)
    if os.path.isdir(CACHE):
        for d in os.listdir(CACHE):
            p = os.path.join(CACHE, d)
            if d in ("build", "obj", "olc", "tlc") or not os.path.isdir(p):
                continue
            try:
                if now - os.path.getmtime(p) > 3 * 3600:
                    shutil.rmtree(p, ignore_errors=True)
            except OSError:
                pass
    for sub in ("build", "obj", "olc"):
        b = os.path.join(CACHE, sub)
        if not os.path.isdir(b):
            continue
        for d in os.listdir(b):
            p = os.path.join(b, d)
            try:
                if now - os.path.getmtime(p) > 86400:
                    if os.path.isdir(p):
                        shutil.rmtree(p, ignore_errors=True)
                    else:
                        os.unlink(p)
            except OSError:
                pass


# ----------------------------------------------------------------------------
# TLC
# ----------------------------------------------------------------------------
_tlc_seq = 0


class TlcResult:
    def __init__(self):
        self.rc = None
        self.out = ""
        self.generated = 0
        self.distinct = 0
        self.depth = 0
        self.violation = None    # None or short description
        self.error = None        # checker failure (not a property violation)
        self.wall = 0.0
        self.coverage = {}

    def ok(self):
        return self.violation is None and self.error is None


_RE_STATES = re.compile(r"(\d+) states generated, (\d+) distinct states found")
_RE_DEPTH = re.compile(r"The depth of the complete state graph search is (\d+)")
_RE_INV = re.compile(r"Error: Invariant (\S+) is violated")
_RE_COV = re.compile(r"^<(\w+) line (\d+), col \d+ to line \d+, col \d+ of module (\w+)>: (\d+):(\d+)", re.M)


def tlc(module, cfg, *, spec_dir=SPEC, workers=None, env=None, simulate=None,
        depth=None, timeout=1200, extra=(), deadlock=True, dfs=False, xmx="8g",
        coverage=False, dump=None, seed=None):
    """Run TLC on spec_dir/module.tla with config cfg (path relative to spec_dir
    or absolute).  Returns TlcResult.  A property violation sets .violation; a
    tool failure sets .error."""
    global _tlc_seq
    _tlc_seq += 1
    meta = os.path.join(CACHE, "tlc", "%d_%d_%s" % (os.getpid(), _tlc_seq, module))
    os.makedirs(meta, exist_ok=True)
    java = ["java", "-XX:+UseParallelGC", "-Xmx" + xmx, "-Xss256m"]  # deep recursive operators on long key sets
    if dfs:
        java.append("-Dtlc2.tool.queue.IStateQueue=StateDeque")
    cmd = java + ["-cp", TLA_CP, "tlc2.TLC", "-metadir", meta, "-noGenerateSpecTE",
                  "-config", cfg if os.path.isabs(cfg) else os.path.join(spec_dir, cfg)]
    if workers is None:
        workers = "auto"
    cmd += ["-workers", str(workers)]
    if not deadlock:
        cmd += ["-deadlock"]
    if simulate is not None:
        cmd += ["-simulate", "num=%d" % simulate]
        if depth:
            cmd += ["-depth", str(depth)]
    if seed is not None:
        cmd += ["-seed", str(seed)]
    if coverage:
        cmd += ["-coverage", "1"]
    if dump:
        cmd += ["-dump", "dot,actionlabels", dump]
    cmd += list(extra)
    cmd += [os.path.join(spec_dir, module + ".tla")]
    e = dict(os.environ)
    e.pop("JAVA_TOOL_OPTIONS", None)
    if env:
        e.update({k: str(v) for k, v in env.items()})
    r = TlcResult()
    t0 = time.time()
    try:
        p = subprocess.run(cmd, capture_output=True, text=True, timeout=timeout,
                           env=e, cwd=spec_dir)
        r.rc = p.returncode
        r.out = p.stdout + p.stderr
    except subprocess.TimeoutExpired as ex:
        r.rc = -1
        r.out = (ex.stdout or b"").decode(errors="replace") if isinstance(ex.stdout, bytes) else (ex.stdout or "")
        r.error = "TLC timeout after %ds (%s %s)" % (timeout, module, cfg)
    finally:
        shutil.rmtree(meta, ignore_errors=True)
    r.wall = time.time() - t0
    m = None
    for m in _RE_STATES.finditer(r.out):
        pass
    if m:
        r.generated, r.distinct = int(m.group(1)), int(m.group(2))
    m = _RE_DEPTH.search(r.out)
    if m:
        r.depth = int(m.group(1))
    if coverage:
        for m in _RE_COV.finditer(r.out):
            r.coverage["%s:%s" % (m.group(3), m.group(1))] = (int(m.group(4)), int(m.group(5)))
    if r.error:
        return r
    m = _RE_INV.search(r.out)
    if m:
        r.violation = "invariant " + m.group(1)
    elif "Error: Deadlock reached" in r.out:
        r.violation = "deadlock"
    elif "Error: Action property" in r.out or "is violated" in r.out and "Error:" in r.out:
        mm = re.search(r"Error: (.*violated.*)", r.out)
        r.violation = mm.group(1) if mm else "property violated"
    elif "Error: Temporal properties were violated" in r.out:
        r.violation = "temporal property"
    elif "Assumption" in r.out and "is false" in r.out:
        r.violation = "assumption false"
    elif re.search(r"Error: Postcondition \S+ .*is false", r.out, re.S) or "Error: The postcondition" in r.out:
        r.violation = "postcondition"
    elif r.rc != 0 or "Error:" in r.out:
        i = r.out.find("Error:")
        first = r.out[i:i + 1500] if i >= 0 else ""
        r.error = "TLC failed rc=%s (%s %s):\n%s\n[...]\n%s" % (r.rc, module, cfg, first, r.out[-1500:])
    return r


def tlc_expect_ok(res, what):
    if res.error:
        raise CheckBroken(res.error)
    return res.violation is None


def sany(module, spec_dir=SPEC):
    p = subprocess.run(["java", "-cp", TLA_CP, "tla2sany.SANY", os.path.join(spec_dir, module + ".tla")],
                       capture_output=True, text=True, cwd=spec_dir)
    return p.returncode == 0 and "*** Errors" not in p.stdout and "Fatal" not in p.stdout, p.stdout + p.stderr


# ----------------------------------------------------------------------------
# trace validation
# ----------------------------------------------------------------------------
def validate_trace(module, cfg, trace_path, *, dfs=False, timeout=900, env=None, xmx="4g",
                   mode="post"):
    """Validate an ndjson trace with a trace spec.

    mode="post":  cfg uses POSTCONDITION TraceAccepted (deterministic, fully
                  logged traces); accepted iff no violation.
    mode="inv":   cfg uses INVARIANT NotAccepted (violated == accepted).
    Returns (accepted: bool, matched_prefix_len: int, TlcResult)."""
    e = {"TRACE": trace_path}
    if env:
        e.update(env)
    r = tlc(module, cfg, workers=1, env=e, deadlock=False, dfs=dfs, timeout=timeout, xmx=xmx)
    if r.error:
        raise CheckBroken(r.error)
    if mode == "post":
        accepted = r.violation is None
        if r.violation is not None and r.violation not in ("postcondition",):
            # an invariant of the base spec was violated on the observed trace
            accepted = False
        return accepted, max(r.depth - 1, 0), r
    else:
        if r.violation == "invariant NotAccepted":
            return True, -1, r
        if r.violation is not None:
            return False, max(r.depth - 1, 0), r
        return False, max(r.depth - 1, 0), r


# ----------------------------------------------------------------------------
# evidence, violations, known findings
# ----------------------------------------------------------------------------
def seed_from_env(default=1):
    try:
        return int(os.environ.get("VERIF_SEED", default))
    except ValueError:
        return default


def write_evidence(prop, tier, seed, level, coverage, assumptions, wall_s, violations=0):
    os.makedirs(EVIDENCE, exist_ok=True)
    ev = {"property_id": prop, "tier": tier, "seed": int(seed), "level": level,
          "coverage": coverage, "assumptions": assumptions,
          "wall_s": round(float(wall_s), 2), "violations": int(violations)}
    p = os.path.join(EVIDENCE, prop + ".json")
    with open(p + ".tmp", "w") as f:
        json.dump(ev, f, indent=1, sort_keys=True)
        f.write("\n")
    os.replace(p + ".tmp", p)
    return p


def write_replay(prop, payload):
    os.makedirs(REPLAYS, exist_ok=True)
    p = os.path.join(REPLAYS, "%s-%d-%d.json" % (prop, int(time.time()), os.getpid()))
    n = 0
    while os.path.exists(p):
        n += 1
        p = os.path.join(REPLAYS, "%s-%d-%d-%d.json" % (prop, int(time.time()), os.getpid(), n))
    with open(p, "w") as f:
        json.dump(payload, f, indent=1, default=str)
    return p


def load_known_findings():
    p = os.path.join(VERIF, "known_findings.json")
    if not os.path.exists(p):
        return {"findings": [], "fixed": []}
    with open(p) as f:
        return json.load(f)


class Report:
    """Collects violations for one property check and decides the exit code."""

    def __init__(self, prop):
        self.prop = prop
        self.violations = []     # (description, payload)
        self.known = []          # known-finding lines
        self.kf = [k for k in load_known_findings().get("findings", []) if k["property"] == prop]

    def violation(self, what, payload=None, finding_key=None):
        """Record a violation. finding_key, if it matches a known finding id of
        this property, downgrades it to KNOWN-FINDING."""
        if finding_key is not None:
            for k in self.kf:
                if k["id"] == finding_key:
                    line = "KNOWN-FINDING: property=%s %s" % (self.prop, k["what"])
                    if line not in self.known:
                        self.known.append(line)
                    return
        self.violations.append((what, payload or {}))

    def finish(self):
        for line in self.known:
            print(line)
        if not self.violations:
            return 0
        for what, payload in self.violations[:10]:
            payload = dict(payload)
            payload["property"] = self.prop
            payload["what"] = what
            path = write_replay(self.prop, payload)
            print("VIOLATION property=%s replay=%s" % (self.prop, path))
            log("  " + what[:2000])
        return 1


ASSUME_COMMON = [
    "sequential consistency (x86-TSO effects and weaker memory orders are not explored)",
    "trusted base: TLC 2.x/tla2tools 1.8.0, the hook adapter and baton scheduler in /verif/harness, g++/clang++ and ASan",
]


def parallel_map(fn, items, workers=None):
    workers = workers or NCPU
    with cf.ThreadPoolExecutor(max_workers=workers) as ex:
        return list(ex.map(fn, items))
